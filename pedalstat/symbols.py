"""Module bindings, import resolution, class table and constant chains."""
import ast
import builtins

from .loader import AnalysisError

BUILTIN_NAMES = set(dir(builtins)) | {'__file__', '__name__', '__doc__', '__package__',
                                      '__spec__', '__loader__', '__path__', '__builtins__',
                                      '__class__', '__debug__'}


class Binding:
    __slots__ = ('kind', 'module', 'node', 'target', 'attr')

    def __init__(self, kind, module, node=None, target=None, attr=None):
        self.kind = kind        # 'func' | 'class' | 'assign' | 'import' | 'importfrom' | 'other'
        self.module = module    # Module where the binding statement lives
        self.node = node        # def node / value expr
        self.target = target    # dotted module name for imports
        self.attr = attr        # imported attribute name for importfrom

    def __repr__(self):
        return "<Binding %s %s %s.%s>" % (self.kind, self.module.name, self.target, self.attr)


class ClassInfo:
    def __init__(self, module, node):
        self.module = module
        self.node = node
        self.name = node.name
        self.qualname = node._qualname
        self.bases = []       # ClassInfo or ('external', text)
        self.attrs = {}       # class-level name -> value expr (last assignment)
        self.methods = {}     # name -> FunctionDef
        self.self_attrs = {}  # attr -> list of (method, Assign/AugAssign node)
        for st in node.body:
            self._scan_class_stmt(st)
        for m in self.methods.values():
            for sub in ast.walk(m):
                targets = []
                if isinstance(sub, ast.Assign):
                    targets = sub.targets
                elif isinstance(sub, (ast.AugAssign, ast.AnnAssign)):
                    targets = [sub.target]
                for t in targets:
                    for tt in (t.elts if isinstance(t, (ast.Tuple, ast.List)) else [t]):
                        if isinstance(tt, ast.Attribute) and isinstance(tt.value, ast.Name) \
                                and tt.value.id == 'self':
                            self.self_attrs.setdefault(tt.attr, []).append((m, sub))

    def _scan_class_stmt(self, st):
        if isinstance(st, (ast.FunctionDef, ast.AsyncFunctionDef)):
            self.methods[st.name] = st
        elif isinstance(st, ast.Assign):
            for t in st.targets:
                if isinstance(t, ast.Name):
                    self.attrs[t.id] = st.value
                elif isinstance(t, (ast.Tuple, ast.List)):
                    for e in t.elts:
                        if isinstance(e, ast.Name):
                            self.attrs[e.id] = None
        elif isinstance(st, ast.AnnAssign) and isinstance(st.target, ast.Name):
            if st.value is not None:
                self.attrs[st.target.id] = st.value
            else:
                self.attrs.setdefault(st.target.id, None)
        elif isinstance(st, (ast.If, ast.Try)):
            for sub in ast.iter_child_nodes(st):
                if isinstance(sub, ast.stmt):
                    self._scan_class_stmt(sub)
                elif isinstance(sub, ast.ExceptHandler):
                    for s2 in sub.body:
                        self._scan_class_stmt(s2)

    def __repr__(self):
        return "<class %s.%s>" % (self.module.name, self.qualname)


class Symbols:
    def __init__(self, repo):
        self.repo = repo
        self.bindings = {}       # module name -> {name: Binding}
        self.star_imports = {}   # module name -> [dotted module]
        self.classes = {}        # (module name, qualname) -> ClassInfo
        for mod in repo.modules.values():
            self._scan_module(mod)
        for mod in repo.modules.values():
            for q, node in mod.classes.items():
                self.classes[(mod.name, q)] = ClassInfo(mod, node)
        from . import fdeval as _fdeval
        _fdeval.CURRENT_SYM[0] = self
        for ci in self.classes.values():
            for b in ci.node.bases:
                r = self.resolve_expr(ci.module, b, scope=ci.node)
                if isinstance(r, ClassInfo):
                    ci.bases.append(r)
                else:
                    ci.bases.append(('external', ast.unparse(b)))
        self._subclasses = None

    # -- module scan -----------------------------------------------------------------------
    def _abs_module(self, mod, level, name):
        if level == 0:
            return name
        parts = mod.name.split('.')
        if not mod.is_package:
            parts = parts[:-1]
        if level > 1:
            parts = parts[:-(level - 1)]
        return '.'.join(parts + ([name] if name else []))

    def _scan_module(self, mod):
        b = {}
        stars = []

        def scan(body):
            for st in body:
                if isinstance(st, (ast.FunctionDef, ast.AsyncFunctionDef)):
                    b[st.name] = Binding('func', mod, st)
                elif isinstance(st, ast.ClassDef):
                    b[st.name] = Binding('class', mod, st)
                elif isinstance(st, ast.Assign):
                    for t in st.targets:
                        if isinstance(t, ast.Name):
                            b[t.id] = Binding('assign', mod, st.value)
                        elif isinstance(t, (ast.Tuple, ast.List)):
                            for e in t.elts:
                                if isinstance(e, ast.Name):
                                    b[e.id] = Binding('other', mod, st.value)
                elif isinstance(st, ast.AnnAssign) and isinstance(st.target, ast.Name):
                    b[st.target.id] = Binding('assign', mod, st.value)
                elif isinstance(st, ast.AugAssign) and isinstance(st.target, ast.Name):
                    b.setdefault(st.target.id, Binding('other', mod, st.value))
                elif isinstance(st, ast.Import):
                    for a in st.names:
                        if a.asname:
                            b[a.asname] = Binding('import', mod, st, target=a.name)
                        else:
                            top = a.name.split('.')[0]
                            b[top] = Binding('import', mod, st, target=top)
                elif isinstance(st, ast.ImportFrom):
                    target = self._abs_module(mod, st.level, st.module)
                    for a in st.names:
                        if a.name == '*':
                            stars.append(target)
                        else:
                            b[a.asname or a.name] = Binding('importfrom', mod, st, target=target,
                                                            attr=a.name)
                elif isinstance(st, (ast.If, ast.While)):
                    scan(st.body)
                    scan(st.orelse)
                elif isinstance(st, ast.For):
                    for e in ast.walk(st.target):
                        if isinstance(e, ast.Name):
                            b[e.id] = Binding('other', mod, None)
                    scan(st.body)
                    scan(st.orelse)
                elif isinstance(st, ast.With):
                    for item in st.items:
                        if item.optional_vars is not None:
                            for e in ast.walk(item.optional_vars):
                                if isinstance(e, ast.Name):
                                    b[e.id] = Binding('other', mod, None)
                    scan(st.body)
                elif isinstance(st, ast.Try):
                    # except-arms first so that the try-arm definition wins
                    for h in st.handlers:
                        scan(h.body)
                    scan(st.orelse)
                    scan(st.finalbody)
                    scan(st.body)
        scan(mod.tree.body)
        self.bindings[mod.name] = b
        self.star_imports[mod.name] = stars

    # -- resolution ------------------------------------------------------------------------
    def public_names(self, modname, _seen=None):
        _seen = _seen or set()
        if modname in _seen or modname not in self.bindings:
            return {}
        _seen.add(modname)
        out = {}
        for star in self.star_imports.get(modname, []):
            out.update(self.public_names(star, _seen))
        out.update(self.bindings[modname])
        return out

    def lookup(self, modname, name, _seen=None):
        """Binding of `name` in module `modname` (following star imports), or None."""
        _seen = _seen or set()
        if (modname, name) in _seen:
            return None
        _seen.add((modname, name))
        b = self.bindings.get(modname, {}).get(name)
        if b is not None:
            return b
        for star in self.star_imports.get(modname, []):
            if star in self.bindings:
                allow = self._dunder_all(star)
                if allow is not None and name not in allow:
                    continue
                if name.startswith('_') and allow is None:
                    continue
                r = self.lookup(star, name, _seen)
                if r is not None:
                    return r
        return None

    def _dunder_all(self, modname):
        b = self.bindings.get(modname, {}).get('__all__')
        if b is not None and b.kind == 'assign' and isinstance(b.node, (ast.List, ast.Tuple)):
            try:
                return {e.value for e in b.node.elts}
            except AttributeError:
                return None
        return None

    def resolve_name(self, mod, name, depth=0):
        """Follow imports/aliases to a final definition.

        Returns ClassInfo | ('func', Module, node) | ('value', Module, expr) |
        ('module', dotted) | ('external', dotted) | ('builtin', name) | None.
        """
        if depth > 20:
            return None
        modname = mod if isinstance(mod, str) else mod.name
        b = self.lookup(modname, name)
        if b is None:
            if name in BUILTIN_NAMES:
                return ('builtin', name)
            return None
        if b.kind == 'class':
            return self.classes[(b.module.name, b.node._qualname)]
        if b.kind == 'func':
            return ('func', b.module, b.node)
        if b.kind == 'assign':
            v = b.node
            if isinstance(v, ast.Name) and v.id != name:
                r = self.resolve_name(b.module, v.id, depth + 1)
                if r is not None:
                    return r
            return ('value', b.module, v)
        if b.kind == 'import':
            if b.target in self.repo.modules:
                return ('module', b.target)
            return ('external', b.target)
        if b.kind == 'importfrom':
            sub = (b.target + '.' + b.attr) if b.target else b.attr
            if b.target in self.repo.modules:
                inner = self.lookup(b.target, b.attr)
                if inner is not None:
                    return self.resolve_name(b.target, b.attr, depth + 1)
                if sub in self.repo.modules:
                    return ('module', sub)
                return None
            if sub in self.repo.modules:
                return ('module', sub)
            return ('external', sub)
        return ('value', b.module, b.node)

    def resolve_expr(self, mod, expr, scope=None):
        """Resolve a Name / dotted Attribute expression used at module/class level."""
        if isinstance(expr, ast.Name):
            if scope is not None:
                # nested class scope: look at enclosing class body first
                parent = getattr(scope, '_parent', None)
                while parent is not None:
                    if isinstance(parent, ast.ClassDef):
                        for st in parent.body:
                            if isinstance(st, ast.ClassDef) and st.name == expr.id:
                                return self.classes.get((mod.name, st._qualname))
                    parent = getattr(parent, '_parent', None)
            return self.resolve_name(mod, expr.id)
        if isinstance(expr, ast.Attribute):
            base = self.resolve_expr(mod, expr.value, scope)
            return self.get_member(base, expr.attr)
        return None

    def get_member(self, base, attr):
        if base is None:
            return None
        if isinstance(base, ClassInfo):
            found = self.class_attr(base, attr)
            if found is None:
                return None
            owner, value = found
            if isinstance(value, (ast.FunctionDef, ast.AsyncFunctionDef)):
                return ('func', owner.module, value)
            if isinstance(value, ast.Name):
                r = self.resolve_expr(owner.module, value, scope=owner.node)
                if r is not None:
                    return r
            if isinstance(value, ast.Attribute):
                r = self.resolve_expr(owner.module, value, scope=owner.node)
                if r is not None:
                    return r
            return ('value', owner.module, value, owner)
        if base[0] == 'module':
            inner = self.lookup(base[1], attr)
            if inner is not None:
                return self.resolve_name(base[1], attr)
            sub = base[1] + '.' + attr
            if sub in self.repo.modules:
                return ('module', sub)
            return None
        if base[0] == 'external':
            return ('external', base[1] + '.' + attr)
        if base[0] == 'value':
            # attribute of an instance/constant: try class of a constructor call
            v = base[2]
            if isinstance(v, ast.Call):
                c = self.resolve_expr(base[1], v.func)
                if isinstance(c, ClassInfo):
                    return self.get_member(c, attr)
            return None
        return None

    # -- classes -----------------------------------------------------------------------------
    def mro(self, ci):
        """Depth-first left-to-right linearisation without duplicates (enough for pedal: no diamonds
        whose order matters)."""
        out = []

        def walk(c):
            if c in out:
                return
            out.append(c)
            for b in c.bases:
                if isinstance(b, ClassInfo):
                    walk(b)
        walk(ci)
        return out

    def external_bases(self, ci):
        out = []
        for c in self.mro(ci):
            for b in c.bases:
                if not isinstance(b, ClassInfo):
                    out.append(b[1])
        return out

    def class_attr(self, ci, name):
        """(owner ClassInfo, value expr or FunctionDef) of the first class in the MRO defining name."""
        for c in self.mro(ci):
            if name in c.methods:
                return c, c.methods[name]
            if name in c.attrs:
                return c, c.attrs[name]
        return None

    def method(self, ci, name):
        for c in self.mro(ci):
            if name in c.methods:
                return c, c.methods[name]
        return None

    def is_subclass(self, ci, other):
        return other in self.mro(ci)

    def subclasses(self, ci, strict=False):
        out = []
        for c in self.classes.values():
            if ci in self.mro(c) and not (strict and c is ci):
                out.append(c)
        return out

    def find_class(self, modname, qualname):
        try:
            return self.classes[(modname, qualname)]
        except KeyError:
            raise AnalysisError("anchor vanished: class %s in %s" % (qualname, modname))

    # -- constants ---------------------------------------------------------------------------
    def const(self, mod, expr, scope=None, depth=0):
        """Evaluate a constant chain to a Python value; raises KeyError when not constant."""
        if depth > 12:
            raise KeyError('depth')
        if isinstance(expr, ast.Constant):
            return expr.value
        if isinstance(expr, (ast.Name, ast.Attribute)):
            if scope is not None and isinstance(expr, ast.Name) and expr.id in scope.attrs \
                    and scope.attrs[expr.id] is not None:
                return self.const(scope.module, scope.attrs[expr.id], scope, depth + 1)
            r = self.resolve_expr(mod, expr, scope=scope.node if scope is not None else None)
            if r is not None and not isinstance(r, ClassInfo) and r[0] == 'value' and r[2] is not None:
                if r[2] is expr:
                    raise KeyError(ast.unparse(expr))
                return self.const(r[1], r[2], r[3] if len(r) > 3 else None, depth + 1)
            raise KeyError(ast.unparse(expr))
        if isinstance(expr, ast.UnaryOp) and isinstance(expr.op, ast.USub):
            return -self.const(mod, expr.operand, scope, depth + 1)
        if isinstance(expr, (ast.List, ast.Tuple)):
            vals = [self.const(mod, e, scope, depth + 1) for e in expr.elts]
            return vals if isinstance(expr, ast.List) else tuple(vals)
        if isinstance(expr, ast.Dict):
            return {self.const(mod, k, scope, depth + 1): self.const(mod, v, scope, depth + 1)
                    for k, v in zip(expr.keys, expr.values)}
        if isinstance(expr, ast.BinOp) and isinstance(expr.op, ast.Add):
            return self.const(mod, expr.left, scope, depth + 1) + self.const(mod, expr.right, scope, depth + 1)
        raise KeyError(ast.unparse(expr))
