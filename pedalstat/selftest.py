"""Checker validation: mutants must be flagged by the named rule, benign/repaired twins must be silent.

Variants are in-memory overlays of /repo's current files (exact-once text substitution, so a drifted
anchor makes the variant 'unapplicable' instead of silently testing nothing). Nothing is written to disk
and pedal is never executed.
"""
import importlib
import json
import multiprocessing
import os
import sys
import time

from .loader import AnalysisError
from .report import VERIF_DIR, load_known


def load_cases(prop):
    try:
        mod = importlib.import_module('.selftest_data.' + prop.lower(), __package__)
        cases = list(mod.CASES)
    except ModuleNotFoundError:
        cases = []
    # seeded changes written by independent sub-agents: each must be flagged by the rule recorded in its meta.json
    seeded = os.path.join(VERIF_DIR, 'seeded')
    if os.path.isdir(seeded):
        for name in sorted(os.listdir(seeded)):
            meta_path = os.path.join(seeded, name, 'meta.json')
            if not os.path.exists(meta_path):
                continue
            meta = json.load(open(meta_path))
            for exp in meta.get('expected_detection', []):
                if exp['property'] == prop:
                    cases.append(dict(name='seeded-' + name, kind='mutant', rule=exp['rule'], key=exp.get('key', ''),
                                      edits=[dict(diff=os.path.join('seeded', name, 'patch.diff'))]))
    # behaviour-preserving changes written by independent sub-agents: every check must stay silent on each of them
    benign = os.path.join(VERIF_DIR, 'benign')
    if os.path.isdir(benign):
        for name in sorted(os.listdir(benign)):
            if os.path.exists(os.path.join(benign, name, 'patch.diff')):
                cases.append(dict(name='benign-' + name, kind='twin',
                                  edits=[dict(diff=os.path.join('benign', name, 'patch.diff'))]))
    return cases


def apply_unified_diff(repo_root, diff_text):
    """Minimal unified-diff applier (exact context match, searched near the stated line). Returns overlay or
    (None, reason)."""
    import re
    overlay = {}
    files = re.split(r'^diff --git ', diff_text, flags=re.M)[1:]
    for chunk in files:
        m = re.search(r'^\+\+\+ b/(.+)$', chunk, flags=re.M)
        if not m:
            return None, 'no target file in diff chunk'
        rel = m.group(1).strip()
        path = os.path.join(repo_root, rel)
        src = overlay.get(rel)
        if src is None:
            src = open(path, encoding='utf-8').read() if os.path.exists(path) else ''
        lines = src.split('\n')
        offset = 0
        for hm in re.finditer(r'^@@ -(\d+)(?:,(\d+))? \+(\d+)(?:,(\d+))? @@.*\n((?:[ +\-\\].*\n?|\n)*)', chunk, flags=re.M):
            start = int(hm.group(1))
            body = hm.group(5).split('\n')
            if body and body[-1] == '':
                body = body[:-1]
            old = [l[1:] for l in body if l[:1] in (' ', '-')]
            new = [l[1:] for l in body if l[:1] in (' ', '+')]
            pos = None
            for delta in sorted(range(-40, 41), key=abs):
                i = start - 1 + offset + delta
                if i >= 0 and lines[i:i + len(old)] == old:
                    pos = i
                    break
            if pos is None:
                return None, '%s: hunk at line %d does not match the current tree' % (rel, start)
            lines[pos:pos + len(old)] = new
            offset += len(new) - len(old)
        overlay[rel] = '\n'.join(lines)
    return overlay, None


def build_overlay(repo_root, edits):
    overlay = {}
    for e in edits:
        if e.get('diff') is not None:
            path = e['diff'] if os.path.isabs(e['diff']) else os.path.join(VERIF_DIR, e['diff'])
            ov, why = apply_unified_diff(repo_root, open(path).read())
            if ov is None:
                return None, why
            overlay.update(ov)
            continue
        rel = e['file']
        if rel in overlay:
            src = overlay[rel]
        else:
            path = os.path.join(repo_root, rel)
            if os.path.exists(path):
                with open(path, encoding='utf-8') as f:
                    src = f.read()
            else:
                src = ''
        if e.get('append') is not None:
            overlay[rel] = src + e['append']
            continue
        if e.get('create') is not None:
            overlay[rel] = e['create']
            continue
        n = src.count(e['old'])
        if n != e.get('count', 1):
            return None, "%s: anchor text occurs %d time(s), expected %d: %r" % (
                rel, n, e.get('count', 1), e['old'][:60])
        overlay[rel] = src.replace(e['old'], e['new'])
    return overlay, None


def run_case(args):
    prop, repo_root, case = args
    from .__main__ import run_property
    overlay, why = build_overlay(repo_root, case['edits'])
    res = {'name': case['name'], 'kind': case['kind'], 'expect': case.get('rule')}
    if overlay is None:
        res.update(status='unapplicable', detail=why)
        return res
    try:
        code, ctx, _ = run_property(prop, repo_root, 'quick', overlay=overlay, quiet=True, write=False)
    except AnalysisError as e:
        if case['kind'] == 'mutant' and case.get('rule') == 'ANALYSIS-ERROR':
            res.update(status='ok', detail='analysis error as expected: %s' % e)
        else:
            res.update(status='error', detail='ANALYSIS-ERROR: %s' % e)
        return res
    except Exception as e:  # pragma: no cover
        import traceback
        res.update(status='error', detail='internal: %s\n%s' % (e, traceback.format_exc()[-600:]))
        return res
    known = {(k['property'], k['rule'], k['key']) for k in load_known().get('known', [])}
    new = [f for f in ctx.findings if f.ident() not in known]
    rules = sorted({f.rule for f in new})
    if case['kind'] == 'mutant':
        want = case['rule']
        hits = [f for f in new if f.rule == want and case.get('key', '') in f.key]
        if hits:
            res.update(status='ok', detail='flagged by %s at %s:%s key=%s' % (
                want, hits[0].file, hits[0].line, hits[0].key))
        else:
            res.update(status='missed', detail='expected %s %s; new findings: %s' % (
                want, case.get('key', ''), [(f.rule, f.key) for f in new][:6]))
    else:
        want_gone = case.get('gone')
        if new:
            res.update(status='false-alarm', detail='new findings on a benign/repaired variant: %s' % (
                [(f.rule, f.key) for f in new][:6]))
        elif want_gone and any(f.rule == want_gone[0] and want_gone[1] in f.key for f in ctx.findings):
            res.update(status='still-reported', detail='repaired variant still reports %s' % (want_gone,))
        else:
            res.update(status='ok', detail='silent')
    return res


def run_cases(prop, repo_root, jobs=16):
    cases = load_cases(prop)
    if not cases:
        return []
    work = [(prop, repo_root, c) for c in cases]
    if jobs > 1 and len(work) > 1:
        with multiprocessing.Pool(min(jobs, len(work))) as pool:
            return pool.map(run_case, work)
    return [run_case(w) for w in work]


def run_for_property(prop, repo_root, jobs=16, evidence=None, write=True, verbose=True):
    t0 = time.time()
    results = run_cases(prop, repo_root, jobs)
    bad = [r for r in results if r['status'] in ('missed', 'false-alarm', 'error', 'still-reported')]
    skipped = [r for r in results if r['status'] == 'unapplicable']
    if verbose:
        for r in results:
            if r['status'] != 'ok':
                print("  selftest %s %-12s %-8s %s: %s" % (prop, r['status'], r['kind'], r['name'], r['detail']))
        print("%s checker validation: %d variants, %d ok, %d unapplicable, %d bad (%.1fs)" % (
            prop, len(results), sum(r['status'] == 'ok' for r in results), len(skipped), len(bad),
            time.time() - t0))
    if evidence is not None and write:
        evidence['coverage']['checker_validation'] = {
            'variants': len(results),
            'mutants_flagged': sum(1 for r in results if r['kind'] == 'mutant' and r['status'] == 'ok'),
            'twins_silent': sum(1 for r in results if r['kind'] != 'mutant' and r['status'] == 'ok'),
            'unapplicable': [r['name'] for r in skipped],
            'bad': bad,
            'results': [{k: r[k] for k in ('name', 'kind', 'expect', 'status')} for r in results],
        }
        evidence['wall_s'] = round(evidence['wall_s'] + time.time() - t0, 3)
        with open(os.path.join(VERIF_DIR, 'evidence', prop + '.json'), 'w') as fh:
            json.dump(evidence, fh, indent=1, default=str)
    return not bad


def main(props, repo_root, jobs, verbose):
    allok = True
    for p in props:
        ok = run_for_property(p, repo_root, jobs, verbose=True)
        allok = allok and ok
    return 0 if allok else 2
