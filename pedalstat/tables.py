"""Evaluation of literal module/class-level tables with names kept symbolic."""
import ast

from .astutil import dotted
from .loader import AnalysisError


class Sym(str):
    """A symbolic name appearing in a table (class, function, ast.X)."""

    def __repr__(self):
        return 'Sym(%s)' % str.__repr__(self)


def literal(expr, sym=None, mod=None, resolve_consts=True):
    """Python structure for a literal expression; Names/Attributes become Sym('a.b') unless they
    resolve to a constant through the symbol table."""
    if isinstance(expr, ast.Constant):
        return expr.value
    if isinstance(expr, (ast.Name, ast.Attribute)):
        d = dotted(expr)
        if d is None:
            raise AnalysisError("table entry %s is not a literal" % ast.unparse(expr))
        if sym is not None and mod is not None and resolve_consts:
            try:
                v = sym.const(mod, expr)
                if isinstance(v, (str, int, float, bool, type(None))):
                    return v
            except KeyError:
                pass
        return Sym(d)
    if isinstance(expr, ast.Dict):
        out = {}
        for k, v in zip(expr.keys, expr.values):
            if k is None:
                raise AnalysisError("table uses ** unpacking")
            out[literal(k, sym, mod, resolve_consts)] = literal(v, sym, mod, resolve_consts)
        return out
    if isinstance(expr, ast.List):
        return [literal(e, sym, mod, resolve_consts) for e in expr.elts]
    if isinstance(expr, ast.Tuple):
        return tuple(literal(e, sym, mod, resolve_consts) for e in expr.elts)
    if isinstance(expr, ast.Set):
        return frozenset(literal(e, sym, mod, resolve_consts) for e in expr.elts)
    if isinstance(expr, ast.UnaryOp) and isinstance(expr.op, ast.USub):
        return -literal(expr.operand, sym, mod, resolve_consts)
    if isinstance(expr, ast.Call):
        d = dotted(expr.func)
        if d in ('frozenset', 'set', 'list', 'tuple') and len(expr.args) <= 1 and not expr.keywords:
            inner = literal(expr.args[0], sym, mod, resolve_consts) if expr.args else []
            return {'frozenset': frozenset, 'set': frozenset, 'list': list, 'tuple': tuple}[d](inner)
        if d == 'dict' and not expr.args:
            return {k.arg: literal(k.value, sym, mod, resolve_consts) for k in expr.keywords}
        # constructor call kept symbolic: ('call', name, args, kwargs)
        return ('call', Sym(d or ast.unparse(expr.func)),
                tuple(literal(a, sym, mod, resolve_consts) for a in expr.args),
                tuple(sorted((k.arg, literal(k.value, sym, mod, resolve_consts)) for k in expr.keywords
                             if k.arg is not None)))
    if isinstance(expr, ast.BinOp) and isinstance(expr.op, ast.Add):
        a = literal(expr.left, sym, mod, resolve_consts)
        b = literal(expr.right, sym, mod, resolve_consts)
        try:
            return a + b
        except TypeError:
            raise AnalysisError("table concatenation of unlike literals")
    if isinstance(expr, ast.JoinedStr):
        return Sym('<fstring>')
    if isinstance(expr, ast.Lambda):
        return Sym('<lambda>')
    raise AnalysisError("table entry %s (%s) is not a literal" % (ast.unparse(expr)[:60], type(expr).__name__))


def table_by_execution(sym, mod, name):
    """Value of module-level `name` after abstractly executing every module-level statement that builds it
    (the literal, ** unpacking, dict.fromkeys, later .update()/subscript stores). Classes, functions and ast.X stay
    symbolic (Sym); Python dict aliasing is modelled faithfully because real dicts are used."""
    from .fdeval import FD, Inconclusive, Raised, module_resolver
    import ast as _ast
    env = {}
    fd = FD(max_steps=200000, resolver=module_resolver(sym, mod, symbolic=lambda n: Sym(n)))
    # helper functions the module calls while building the table are interpreted (referenced as values they stay
    # symbolic); functions defined inside them, too
    called = {n.func.id for st in mod.tree.body if not isinstance(st, (_ast.FunctionDef, _ast.ClassDef))
              for n in _ast.walk(st) if isinstance(n, _ast.Call) and isinstance(n.func, _ast.Name)}
    for st in mod.tree.body:
        if isinstance(st, _ast.FunctionDef) and st.name in called:
            fd.functions[st.name] = st
    seen = False
    for st in mod.tree.body:
        mentions = any(isinstance(n, _ast.Name) and n.id == name for n in _ast.walk(st))
        if not mentions:
            continue
        if isinstance(st, (_ast.FunctionDef, _ast.ClassDef, _ast.Import, _ast.ImportFrom)):
            continue
        if isinstance(st, _ast.Assign) and any(isinstance(t, _ast.Name) and t.id == name for t in st.targets):
            seen = True
        elif not seen:
            continue
        elif not isinstance(st, (_ast.Assign, _ast.AugAssign, _ast.Expr, _ast.For)):
            continue
        try:
            fd.stmt(st, env)
        except (Inconclusive, Raised) as e:
            raise AnalysisError("table %s: module-level statement at line %d is outside the decidable fragment: %s" % (
                name, st.lineno, e))
    if name not in env:
        raise AnalysisError("anchor vanished: table %s in %s" % (name, mod.relpath))
    return env[name]
