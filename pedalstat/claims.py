"""What MANIFEST.json claims per property (single source for tools/gen_manifest.py)."""

NOT_APPLICABLE = {
    'C06': "observational equivalence of sandboxed and plain execution quantifies over run-time values "
           "(printed text, globals, exception lines) of every program; no dataflow/typestate/table argument bounds "
           "them; a differential runtime harness is the right tool and is a different family (DESIGN.md section 7)",
    'C11': "completeness of a recursive backtracking tree matcher over all programs x derived patterns is an "
           "inductive property of the search; a static rule would be vacuous or a frozen copy of the algorithm; "
           "the structural guards it shares with C10 are decided there (DESIGN.md section 7)",
}

_NOTE = ("Trusted base: CPython 3.12 ast parser and the checker itself (validated by the mutant/twin corpus in "
         "pedalstat/selftest). Decides the listed structural clauses only; run-time-value clauses are declared "
         "not decided in DESIGN.md. ")

CLAIMS = {
    'C08': {
        'text': "Every rule instance is extracted from the current source and discharged or reported: the 27 "
                "operator-table rows are compared with the class CPython's own parser assigns each symbol "
                "(exhaustive), the finder/kind pairing and name plumbing are checked on the AST, the two "
                "threshold functions are tabulated over a complete small model (0..4 squared) by a whitelist "
                "abstract interpreter, ensure/prevent siblings must count by identical expressions, the Constant "
                "split is tabulated over representative values, and the literal comparison must be type-aware.",
        'note': _NOTE + "Not decided: occurrence counts and reported lines for individual programs beyond what "
                        "tables, pairing and threshold logic imply.",
        'technique': 'static analysis: table extraction vs CPython parser oracle, sibling agreement, '
                     'finite-domain decision tables (ast only)',
    },
}
