"""What MANIFEST.json claims per property (single source for tools/gen_manifest.py)."""

NOT_APPLICABLE = {
}

_NOTE = ("Trusted base: CPython 3.12 ast parser and the checker itself (validated by the mutant/twin corpus in "
         "pedalstat/selftest). Decides the listed structural clauses only; run-time-value clauses are declared "
         "not decided in DESIGN.md. ")

CLAIMS = {
    'C11': {
        'text': "PARTIAL, structural clauses only - completeness of the recursive, backtracking matcher over all "
                "programs x derivable patterns is an inductive property of the search and is NOT decided. Decided, by "
                "abstract execution, are eight necessary conditions every derivation step relies on: (R1) any_node_match, "
                "run on a model student tree with a root-level matcher that accepts a chosen set of nodes, tries every "
                "node as a root and returns exactly the matches that exist, wherever they are (all single nodes and "
                "several pairs of an 11-node tree with statements inside statements and inside an except handler); (R2) "
                "deep_find_match_Name pairs a ___ or __expr__ placeholder with a student node of any of eight kinds in "
                "the same position (binding __expr__ to that very node) and declines in another position; (R3) one level "
                "of the sibling search - deep_find_match_generic with the real map_merge, children matched and bindings "
                "contradicting by table - returns every order-preserving, conflict-free pairing a brute-force "
                "enumeration finds (all 2x3 match tables, and 3x5 scenarios incl. a first candidate rejected by a "
                "conflict and two ways of matching one child); (R4) new_merged_map leaves the base map structurally "
                "unchanged when the candidate contradicts it, for the variable, function, class and expression tables, "
                "and the next consistent candidate still merges; (R5) pattern and program text reach ast.parse with the "
                "same syntax tree as given; (R6) shallow_symbol_handler never raises for placeholder-shaped names in "
                "Name.id, Attribute.attr and arg.arg positions (a program mentioning obj.__dict__ matches itself); (R7) "
                "shallow_match_main yields the mapping for every pair of equal model nodes, incl. equal literals and "
                "names that are different objects; (R8) the tree find_matches searches is the parse of the code asked "
                "for, whatever was queried before (decision table of reparse_if_needed over call sequences).",
        'note': _NOTE + "Not decided: the induction over depth (that the per-level search composes), meta-field "
                        "matching along the recursion, dropped sibling statements across different bodies, consistent "
                        "_var_ renaming through every handler - i.e. completeness itself. The placeholder classes "
                        "themselves are decided under C10.R5. R6 exposed a defect, repaired in pedal 39ceb06.",
        'technique': 'static analysis: abstract interpretation of any_node_match / deep_find_match_Name / '
                     'deep_find_match_generic / map_merge / AstMap / shallow_symbol_handler on model trees with marker '
                     'objects, brute-force enumeration oracle for the one-level sibling search (ast only)',
    },
    'C06': {
        'text': "PARTIAL, structural clauses only - observational equivalence of sandboxed and plain execution is NOT "
                "decided (it quantifies over run-time values of every program; a differential harness is the right "
                "tool and a different family). Decided are nine necessary conditions whose truth is in the shape of "
                "pedal's code, each by abstract execution: (R1) the text given to run() reaches compile() unmodified, in "
                "'exec' mode under its own file name, without compiler flags and without inheriting a `from __future__` "
                "feature of the sandbox module, and is executed in the sandbox's own namespace with __name__ == "
                "'__main__'; (R2) call() marshals every argument faithfully - _make_temporary/_construct_call are run "
                "over 31 argument values (floats incl. inf/nan/-0.0, complex, strings with quotes, nested containers, "
                "range, frozenset, an instructor-side object) and each must be passed as a text that ast.literal_eval "
                "turns back into an equal value of the same type, or as a temporary bound to the very object - also when "
                "the same mutable object is passed again after it changed; (R3) the value handed back is the object "
                "stored in the target; (R4) the line reported for an exception is the raising line of the innermost "
                "traceback entry for tracebacks 1 to 1500 calls deep; (R5) the buffer standing in for sys.stdout is "
                "built without initial text or newline translation; (R6) input() hands back the queued text itself "
                "(blanks, tabs, case kept); (R7) an allowed import reaches the real __import__ exactly once with the "
                "very name, globals, locals, fromlist and level given; (R8) ending an execution removes or rebinds none "
                "of the names the program defined, also those named like overridden builtins; (R9) no function of "
                "pedal.sandbox calls a function that changes interpreter-wide state student code observes (random.*, "
                "recursion limit, cwd, locale, decimal context, gc, warnings filters, os.environ).",
        'note': _NOTE + "Not decided: everything else the statement says (printed text, globals, exception kind and "
                        "line, return values for arbitrary programs). The claim exists because the marshalling clause "
                        "has a finite, code-visible argument (and exposed a defect: call('f', float('inf'))).",
        'technique': 'static analysis: abstract interpretation of _execute/run/_make_temporary/_construct_call/'
                     '_handle_result/_start_mocking/ExpandedTraceback.__init__ with marker objects; syntax check of '
                     'compile() call sites against the module\'s __future__ imports; literal round-trip oracle (ast.literal_eval) on the texts '
                     'produced (ast only)',
    },
    'C08': {
        'text': "Every rule instance is extracted from the current source and discharged or reported: the 27 "
                "operator-table rows are compared with the class CPython's own parser assigns each symbol "
                "(exhaustive). find_operation, find_function_calls, CaitNode.find_all (with a model of "
                "ast.NodeVisitor dispatch) and StretchyTreeMatcher.shallow_match_main are executed abstractly on "
                "model syntax trees whose derived attributes come from interpreting CaitNode.__getattr__ itself: "
                "every operator symbol must return exactly the nodes of the class CPython assigns it (chained "
                "comparisons once per matching operator), Bool/Num/Str must split Constants by CPython value type, "
                "and a pattern literal must match a student literal iff type and value agree (196 pairs). The two "
                "threshold functions are tabulated over a complete small model (0..4 squared), ensure/prevent "
                "siblings must count by identical expressions, and reparse_if_needed is executed over call "
                "sequences so that the tree walked is the tree of the code asked for.",
        'note': _NOTE + "Not decided: occurrence counts and reported lines for individual programs beyond what "
                        "tables, pairing and threshold logic imply.",
        'technique': 'static analysis: table extraction vs CPython parser oracle, abstract interpretation of the '
                     'finders/matcher over model syntax trees, sibling agreement, finite-domain decision tables '
                     '(ast only)',
    },
    'C19': {
        'text': "Exhaustive table check against CPython: all 109 cells of VALID_BINOP_TYPES are extracted and each "
                "result function is abstracted from its return expressions; for every operator x ordered pair of core "
                "types CPython's operator module is applied to frozen representatives (incl. empty containers, "
                "negative bases and exponents) - a pair CPython always rejects must have no cell, and a present cell "
                "must be a pedal Type every CPython result conforms to. The dispatch function is tabulated by a "
                "whitelist abstract interpreter over hit/miss/Any/literal scenarios; orderable sets and "
                "allows_membership overrides are extracted and compared with CPython's TypeError behaviour, and "
                "Tifa.visit_Compare is executed abstractly for all ten comparison operators x allowed/not allowed; "
                "get_pedal_type_from_value is executed abstractly on scalar and container representatives in both "
                "orders within one process (shared module state), each result having to be the pedal type of the "
                "value's own Python type; no generator may be stored by a Type constructor.",
        'note': _NOTE + "Not decided: expression trees deeper than one operator (covered only through "
                        "compositionality of the table); element types inside containers. Three Pow cells whose "
                        "CPython result type is value-dependent are recorded as known findings.",
        'technique': 'static analysis: extracted operator/ordering tables vs CPython operator oracle (exhaustive), '
                     'finite-domain decision table of the dispatcher (ast only)',
    },
    'C05': {
        'text': "Acquire/release on a statement-level CFG with exception edges: in every function that calls "
                "_start_mocking, every path to the normal exit and to the exceptional exit under each builtin "
                "exception atom (exec/compile/tracer enter+exit raise every atom, the recording call raises "
                "Exception atoms) must pass _stop_mocking, and release must precede recording in every handler. "
                "Ownership: who writes the two stacks, who may call _stop_patches/_start_patches (whole-program "
                "call-site sweep), what is handed to _start_patches, a sweep of pedal/sandbox for unpatched writes to "
                "sys.stdout/sys.modules/time.sleep/builtins/settrace, tracer enter/exit pairing for all four styles, "
                "and the private builtins dict.",
        'note': _NOTE + "Assumes undesignated statements do not raise and unittest.mock restores what it patched. "
                        "The timeout arm releasing through _stop_patches directly is a recorded known finding "
                        "(shared with C14).",
        'technique': 'static analysis: must-pass-through on an exception-edge CFG, who-may-call / who-writes '
                     'ownership sweeps (ast only)',
    },
    'C04': {
        'text': "Containment is decided on the exception-edge CFG of every function in pedal/sandbox that calls "
                "exec/eval/compile: no Exception atom or SystemExit may reach the caller, or the function must be "
                "referenced only from closures installed as student-visible builtins. Handler discipline (release, "
                "exactly one capture with the caught exception, normal return), the single runtime feedback "
                "constructor in _capture_exception and its EXCEPTION_FF_MAP table (all rows runtime_error "
                "subclasses of category 'runtime'), absence of any other Feedback construction in the resolved call "
                "closure, an interprocedural taint of the student's exception object through resolved callees "
                "requiring every string conversion of it to be guarded, template field scans, and the default "
                "block list with its refusing paths are all extracted from the source.",
        'note': _NOTE + "Not decided: unbounded recursion, interpreter exit other than SystemExit, resource "
                        "exhaustion; hostile protocols other than string conversion; that the reported line is the "
                        "student's line beyond provenance (C17).",
        'technique': 'static analysis: exception-edge CFG reachability, resolved call-graph closure, '
                     'interprocedural taint of the exception object, table extraction (ast only)',
    },
    'C01': {
        'text': "The resolver core is tabulated, not sampled: a whitelist abstract interpreter executes the ASTs of "
                "FinalFeedback.merge/finalize/parse_feedback over the full product of 11 suppression scenarios x "
                "triggered x muted x kind x else_message x correct (792 cells) plus ordered pairs and triples, and "
                "compares the delivered label/title/message with an oracle transcribed from the property; a cell "
                "that evaluates to an exception is a never-raises finding that names the raising expression. The "
                "rank table is compared with the documented order, by_priority o priority_offset is tabulated over "
                "all categories x priorities x aliases (rank order, re-ranking, strict in-rank shifts, totality), "
                "and each resolver's resolve() is itself executed abstractly on small reports (pairs and triples with "
                "ties and inversions under a symbolic rank function) and must deliver what the oracle delivers on "
                "the stably sorted list; report.feedback may only be appended to or cleared, inside Report.",
        'note': _NOTE + "Not decided: instructor-written Feedback subclasses that break the attribute contract; "
                        "message text. Stability of list.sort is CPython's guarantee.",
        'technique': 'static analysis: finite-domain decision tables by whitelist abstract interpretation of the '
                     'resolver ASTs, table vs documented order, who-writes ownership (ast only)',
    },
    'C02': {
        'text': "Same abstract interpretation of merge/finalize: the resolved `correct` is compared with the "
                "conjunction oracle over 792 single-feedback cells and 1400+ ordered pairs/triples mixing "
                "set_correct-, compliment-, give_partial-like and negative feedback with and without suppression; "
                "the initial FinalFeedback's arguments are checked; a class table over all 170+ Feedback subclasses "
                "in pedal shows no negative-valence or syntax/runtime/algorithmic/specification class declares "
                "correct=True. The resolver drivers are executed abstractly on small reports (shared with C01) so that "
                "a driver which skips or de-duplicates feedback is caught here as well.",
        'note': _NOTE + "Not decided: instructor-defined subclasses.",
        'technique': 'static analysis: finite-domain decision table of merge/finalize, class-attribute table over '
                     'the Feedback hierarchy (ast only)',
    },
    'C03': {
        'text': "The score pipeline (merge's inversion flag, Score.parse on the literal SCORE_PATTERN, "
                "add_to_current, combine_scores, finalize) is composed by abstract interpretation and tabulated over "
                "valence x triggered x 10 score forms x unscored x muted x suppressed (1280 cells) plus sums of "
                "2-3 scored feedbacks, against the documented arithmetic rounded to two decimals; Score.parse is "
                "tabulated over 12 strings; numeric scores are checked for writer/reader agreement with the pattern; "
                "unit_test's per-case split is checked structurally; the resolver drivers are executed abstractly on "
                "small reports (shared with C01) so that a driver which drops a scored feedback is caught here.",
        'note': _NOTE + "Not decided: floating-point rounding of sums outside the table; Score.__str__'s integer "
                        "rounding when a total is split among unit tests.",
        'technique': 'static analysis: finite-domain decision table of the composed score pipeline, regex AST, '
                     'writer/reader agreement (ast only)',
    },
    'C16': {
        'text': "Protocol conformance of SandboxResult decided on its class table and method bodies: slot "
                "completeness against the operator/builtin list of the property (forward and reflected for 14 binary "
                "operators, six comparisons, conversions, container and unary slots); each of the 28 binary dunders is "
                "executed abstractly over behaviour tables (own method returns a value / NotImplemented / is absent) x "
                "(the other operand's reflected method likewise) x (other operand plain or proxied) and compared with "
                "CPython's operator protocol, so wrapping the NotImplemented sentinel, wrong operand order, and "
                "failing where CPython succeeds are all findings; exact-type conversions must return the builtin of "
                "the unwrapped value; no stdout writes; module attributes resolve against the real stdlib; the "
                "replacement len() must not call itself; membership/iteration go through `in`/iter().",
        'note': _NOTE + "Not decided: equality of results for user-defined value classes whose __op__ and __rop__ "
                        "disagree; isinstance spoofing through __getattribute__ is assumed to work as written.",
        'technique': 'static analysis: protocol-conformance table, finite-domain abstract interpretation of each '
                     'dunder vs CPython operator protocol, reference resolution (ast only)',
    },
    'C20': {
        'text': "Recording is decided as a decision table: Feedback._handle_condition is executed abstractly over "
                "condition outcome {true, truthy, false, falsy, raises} x message / else_message / justification "
                "rendering {ok, raises} x report {present, None} (80 cells) and must record exactly once, in the right "
                "list, with the right status and truth value, re-raising the same exception after recording. "
                "Ownership sweeps show only _handle_condition calls add_feedback/add_ignored_feedback and only "
                "Feedback.__init__/_handle_condition write _met_condition. A class table over all 170+ Feedback "
                "subclasses checks (CFG) that every overriding __init__ reaches the base __init__ on all normal paths, "
                "that nobody overrides _handle_condition/__bool__, and that delayed-condition groups finalise exactly "
                "once in __exit__. Message/else/justification derivation and the format-spec dispatch are tabulated; "
                "the formatter name table is checked against methods and suffix order; override/_restore_overrides/"
                "clear_overridden_feedback are executed abstractly on a model class hierarchy (base, inheriting "
                "subclass, sibling) for seven call sequences, after which every class attribute must read as "
                "before.",
        'note': _NOTE + "Not decided: correctness of each formatter's output text; instructor-defined subclasses.",
        'technique': 'static analysis: finite-domain decision tables by abstract interpretation, who-may-call / '
                     'who-writes sweeps, CFG must-pass-through over the Feedback class hierarchy (ast only)',
    },
    'C12': {
        'text': "verify() is analysed on a CFG with exception edges in which the ast.parse(code) call raises every "
                "documented failure mode (IndentationError, other SyntaxError, ValueError, RecursionError, "
                "MemoryError): no atom may leave verify(). verify() is then executed abstractly for every parser outcome x "
                "code given/defaulted x blank/non-blank x muted x enhance with a stub parser: exactly one "
                "syntax-category feedback iff rejected, carrying the caught exception's own lineno/offset, the "
                "unmodified text under the matching file name, success/return value, the stored tree and the blank "
                "report are all compared with the property; syntax_error.__init__ is executed abstractly for lines "
                "with and without a position and files with and without a section offset. An Optional[int] flow follows lineno/offset from the handler into syntax_error.__init__, "
                "ExpandedTraceback.build_traceback, FakeFrame and _fix_frame_line and rejects arithmetic on a "
                "possibly-None position; the reported line must be line + submission.line_offsets[filename].",
        'note': _NOTE + "The three non-SyntaxError failure modes of the parser escaping verify() are recorded known "
                        "findings. Not decided: agreement of the reported line with CPython's for every corrupted "
                        "text beyond provenance.",
        'technique': 'static analysis: exception-edge CFG with a frozen atom set for ast.parse, Optional-value '
                     'dataflow across resolved callees, def-use provenance (ast only)',
    },
    'C15': {
        'text': "Ownership: who writes raw_output/output (class and package sweep); _start_mocking/_stop_mocking are "
                "executed abstractly with marker objects (one fresh buffer pushed and patched in as sys.stdout, its "
                "text and the same context handed to append_output, patches stopped first). Semantics by decision tables: "
                "append_output is executed abstractly over previous raw text x 7 new texts (empty, no trailing "
                "newline, blank lines, whitespace only) and must give raw = previous + new, context = new, and the "
                "line view extended by the right-stripped lines of the right-stripped text iff the new text is "
                "non-empty; the input tracker closure is tabulated over queue contents x prompt (FIFO, consumed once, "
                "prompt echoed, default '0', recorded in the current context); set_input over 8 input forms x clear x "
                "previous queue; queue_input/clear_input/clear_output wiring.",
        'note': _NOTE + "Assumes output that bypasses sys.stdout is out of scope and (C05.R1) _stop_mocking runs on "
                        "every exit.",
        'technique': 'static analysis: who-writes ownership sweep, finite-domain decision tables by abstract '
                     'interpretation of append_output / input tracker / set_input (ast only)',
    },
    'C17': {
        'text': "Losslessness follows from the regex AST of the section pattern (one capturing group, everything else "
                "zero-width, line-anchored) and from executing separate_into_sections -> next_section* -> "
                "stop_sections abstractly as one session on a model submission over eight file shapes (no markers, "
                "marker on the first/last line, adjacent markers, empty file, form feed, U+2028) x "
                "independent/cumulative: stored parts, backup, presented text, line offset, the not_enough_sections "
                "branch and the restored file are compared with the property. Sandbox._capture_exception is executed "
                "abstractly with marker objects for three kinds of file name. Offset discipline is a provenance rule: TIFA's locate() (and every _issue site using it), "
                "traceback frames, the traceback's line_number used by the sandbox, and syntax_error must add a value "
                "derived from submission.line_offsets. Restoration: substitution push/pop pairing and agreement of all "
                "hook registrations with execute_hooks triggers (constants resolved).",
        'note': _NOTE + "Not decided: custom section patterns; CAIT-derived locations; stale line offsets after "
                        "stop_sections (outside the statement).",
        'technique': 'static analysis: regex AST, finite-domain decision table of next_section by abstract '
                     'interpretation, def-use provenance of line numbers, registry agreement (ast only)',
    },
    'C18': {
        'text': "Never-raises is decided on the exception-edge CFG of Tifa.process_code (parse and traversal raise "
                "every Exception atom; none may leave; both handlers record fail + one system_error; the analysis is "
                "returned on all paths). Idempotence is a decision table of tifa_analysis over cache hit/miss by "
                "abstract interpretation. 'Completes' is attacked through resolution completeness over pedal/tifa and "
                "pedal/types using Python's own symtable scoping: ~2700 rule instances - every global name read "
                "binds, every self.X load exists in the class hierarchy (stdlib bases inspected, mixins followed), "
                "every call resolved to a pedal function/constructor matches arity and keyword names, every visit_X "
                "names a real node class - plus a table check that every FunctionType entry gives `definition` a "
                "callable and `returns` a class/lambda/known shorthand (extracted from FunctionType.__init__). "
                "Determinism: no set-ordered iteration or random feeding issues.",
        'note': _NOTE + "Not decided: that the analysis completes for every introductory program beyond resolution "
                        "and table well-formedness; issue lines lying within the source.",
        'technique': 'static analysis: exception-edge CFG, symtable-based name/attribute/arity resolution over the '
                     'TIFA packages, table well-formedness, decision table of the cache (ast + symtable only)',
    },
    'C13': {
        'text': "An ownership/effect analysis of process-lifetime state. A whole-program inventory finds every run-time "
                "mutation of a module-level or class-level mutable object (container mutation, subscript store, "
                "global rebinding, setattr(cls)); each object must be in a frozen, reasoned triage table whose "
                "disposition is re-verified on every run (reset reachable from Report.clear()/a tool reset, "
                "import-time-only registry, paired push/pop, idempotent registration), so new leaked state is a "
                "violation. Report.clear() must reset every attribute Report.__init__ creates (transitively); tool "
                "data is reset lazily and every registered reset replaces its dict; every environment reaches a "
                "clear before contextualising (CFG); override backup/restore incl. the own-namespace rule; no "
                "randomness or clock feeds the result.",
        'note': _NOTE + "Known findings: Feedback._pools, the two score_maximum module globals, random pool choice. "
                        "Not decided: state held by third-party modules and instructor scripts; equality of output "
                        "text beyond absence of leaked state.",
        'technique': 'static analysis: whole-program effect inventory with a verified ownership table, sibling '
                     'agreement __init__/clear, CFG must-pass-through for entry points (ast only)',
    },
    'C14': {
        'text': "A static race/ownership analysis over two thread roles derived from the code: the student role (what "
                "Sandbox._execute does after the injected SystemExit: its SystemExit/BaseException handlers, else arm "
                "and tail, closed over self-method calls) and the grader role (the TimeoutError arm of "
                "_execute_with_timeout). The transitive write sets of both roles over Sandbox attributes and "
                "report.feedback are computed; every attribute written by the abandoned student role that the grader "
                "or the next execution also writes must be behind a lock or an abandonment fence; the number of "
                "_capture_exception sites per timed-out execution must be one; timeout() must join once with the "
                "finite duration, never block otherwise, terminate and raise TimeoutError; the timeout arm must "
                "release through _stop_mocking.",
        'note': _NOTE + "Today's tree has no synchronisation at all: ten conflicting attributes, the two capture "
                        "sites and the direct _stop_patches call are recorded known findings (confirmed at run time); "
                        "any new conflicting write is a violation. Not decided: wall-clock bounds, behaviour of "
                        "PyThreadState_SetAsyncExc for code blocked in C.",
        'technique': 'static analysis: thread-role derivation from the call graph, transitive effect (write-set) '
                     'analysis, recognised-synchronisation check (ast only)',
    },
    'C09': {
        'text': "TIFA's flow core (store_variable, load_variable, merge_paths, combine_states, match_rso, "
                "search_parents, find_path_parent, find_variable_scope, NewPath, _finish_scope) and its If/While/For "
                "visitors are executed abstractly - a whitelist interpreter over their ASTs, nothing imported or run "
                "- on every program of a flow mini-language (assign/read of a variable, nested if/else, loops) up to "
                "a size bound: quick 1450 programs, thorough 24000 (<= 4 atoms, depth 2, two variables, loops "
                "running 0/1/2 times). The reported issues are compared with an oracle that enumerates the program's "
                "execution paths: exact Initialization / Possible Initialization / none per read and unused-variable "
                "verdicts for branch programs, no missed uninitialised read with loops. A third sweep defines a helper function that "
                "reads the global and calls it at several points (visit_Call/make_function closures executed "
                "abstractly). In addition the three-valued join table, the issue dispatch, and witness programs for "
                "the path discipline of each visitor and for merge_paths covering both sides are checked.",
        'note': _NOTE + "The abstract execution was cross-checked against the real TIFA on the deviating programs. "
                        "Known findings: visit_For opens no path (missed reads after for loops), unused not "
                        "reported when the variable is only read on a branch that never assigns it. Not decided: "
                        "programs beyond the size bound, line numbers.",
        'technique': 'static analysis: exhaustive small-program table by abstract interpretation of the TIFA flow '
                     'core vs a path-enumeration oracle; sibling agreement of visitors (ast only)',
    },
    'C10': {
        'text': "The guards that make a returned mapping an embedding are decided where every mapping is produced: "
                "shallow_match_main is executed abstractly on 200+ pairs of model nodes (all pairs of 14 literal "
                "values, same-field-name nodes of different classes, differing identifiers, absent optional children, "
                "ignored fields, meta mismatch) and must produce a mapping exactly for genuine shallow embeddings; "
                "handlers that build maps themselves test first; definition names are compared or bound; callers pass "
                "only four reasoned ignores; map_merge "
                "accepts only strictly later siblings without conflicts; operand swapping is tabulated per operator "
                "(only + and *); the conflict bookkeeping of AstMap is tabulated and re-detection on merge is "
                "checked; _name_regex is executed abstractly on all strings up to length 6 over {_,a,b}.",
        'note': _NOTE + "Not decided: that the composition of these guards over the recursive search yields an "
                        "embedding for every program/pattern pair (an inductive argument about the algorithm); "
                        "__expr__ rebinding.",
        'technique': 'static analysis: dominance of guards over mapping construction, finite-domain tables of '
                     'is_primitive / operator dispatch / conflict bookkeeping, regex enumeration (ast only)',
    },
    'C07': {
        'text': "Each of 25 assert_* conditions is executed abstractly (whitelist interpreter over its AST) on a finite "
                "domain of operand values per family (ordering incl. sets and NaN, membership, subset, identity, "
                "truthiness, None-ness, length, instance, attribute, regex) in every wrapping combination raw/proxied "
                "(a transparent proxy model whose C-level consumers behave as in CPython) and with error operands "
                "in every position - about 1400 evaluations - and compared with the Python relation computed by "
                "CPython on the raw values: wrong relation, silent pass on error operands, proxy-dependent outcome and "
                "non-complementary pairs are findings. The equality family is tabulated over equality outcome x error "
                "operand with argument order checked; equality_test itself is executed abstractly on 18 value pairs "
                "in both orders plus 11 pairs with documented outcomes; the wrapper's treatment of a raising condition "
                "and unit_test's accounting (child filing by status, group condition, counts, once-per-case loop) are "
                "decided on the code.",
        'note': _NOTE + "Known finding: the wrapper swallows condition errors (unevaluable relation -> silent pass). "
                        "Not decided: value-level behaviour of equality_test beyond the tabulated pairs, assert_type's "
                        "subtype relation (C19 covers its inputs), the output-assertion family beyond the errors() "
                        "disjunct.",
        'technique': 'static analysis: finite-domain decision tables by abstract interpretation of every assertion '
                     'condition and of equality_test vs CPython operator oracle (ast only)',
    },
}

# Rules added after the third round of seeded changes (DESIGN.md 10.7); appended to the claim texts above.
_ADDENDA = {
    'C01': "The merge table includes feedback whose rendered message is blank.",
    'C02': "The correctness table includes triggered negative feedback with a blank message (alone, in pairs and "
           "triples).",
    'C04': "runtime_error.__init__ is executed abstractly for the message texts a student exception can have "
           "(empty, one character, ordinary, failing __str__); ExpandedTraceback.__init__ is executed on a 12-frame "
           "model traceback with CPython's extract_tb(limit) semantics, the location having to be the innermost "
           "entry's raising line plus that file's offset.",
    'C05': "Acquisition is all-or-nothing: _start_patches is executed with the k-th patch failing to start "
           "(block_module('time')) and must leave nothing started or tracked; _start_mocking must push exactly the "
           "buffer it patches in and none when _start_patches fails; the cross-thread release is also run with a "
           "grader that is not the main thread.",
    'C07': "The six output assertions are executed abstractly on call-result, sandbox and error operands: the "
           "relation must be applied to the asserted execution's own output (R10).",
    'C08': "ensure_import / prevent_import are executed abstractly on model programs with aliased, multi-alias and "
           "from-imports (complementary, and keyed on the module name).",
    'C09': "TifaCore._issue is executed on issue sequences and must record every issue under its label; the quick "
           "tier's curated programs include names known to an enclosing path and touched on one side only.",
    'C10': "__expr__ placeholders: merging an inherited match with the match in progress (AstMap and "
           "binflex_helper, both operands) must leave the placeholder bound to the subtree at its position.",
    'C13': "Override sequences include the same field twice, interleaved classes and calls failing half-way.",
    'C14': "timeout() is executed abstractly against three model threads (finishes in time, dies when terminated, "
           "never dies) with an operation budget: timed join of the allowed duration, terminate, TimeoutError.",
    'C15': "run() and call() are executed abstractly for inputs in {None, [], '', list, str, ()}: an explicit inputs "
           "argument reaches set_input before the student code runs.",
    'C17': "The traceback line rule of C04 (deep model traceback) is shared.",
    'C18': "Sibling rule over every TIFA issue constructor (executed abstractly): the location handed in is the "
           "location Feedback.__init__ receives.",
    'C19': "Tables built through helper functions and ** spreads are evaluated by interpreting the helpers.",
    'C20': "Override sequences include the same field twice, interleaved classes and calls failing half-way "
           "(restoration must still be complete).",
}
# Rules added after the fourth round (DESIGN.md 10.8).
_ADDENDA4 = {
    'C01': "The resolver is executed as callers get it: resolve() wrapped by its own decorators.",
    'C02': "Feedback._get_message is executed for templates rendering to text, blanks or nothing (a triggered "
           "feedback always has a message, R8) and Feedback.__init__ for explicit falsy correct/muted/kind (R9); the "
           "resolver is executed through its decorators (a second resolve sees feedback added in between).",
    'C03': "Suppression tables built by executing Report.suppress itself are checked against a call-level oracle; "
           "Feedback.__init__ is executed for explicit falsy valence/score/unscored/muted (R8).",
    'C04': "wrap_fields executed on a hostile value must not convert it; format_line is executed with and without "
           "column information under every interpreter-version switch.",
    'C05': "The coverage style is modelled (coverage's collector stack and the patch of its source reader) and run "
           "through the same enter/exit sequences; what _start_mocking hands to _start_patches must be objects made "
           "by unittest.mock's patch/patch.dict, one per borrowed target.",
    'C07': "The documented options explanation=/context=/assertion= must not reach condition() (R11); delta=None / "
           "omitted / explicit is executed through constructor and condition with the real equality_test (R12); "
           "dictionary keys equal only after normalisation, and output ending in a blank line, are in the tables.",
    'C08': "reparse_if_needed is executed (with the real _parse_source and the tool's own reset()) over sequences that "
           "include explicit code CPython rejects; find_all is run on a program whose operator instance is shared.",
    'C10': "Lists of identifiers (global/nonlocal names) are content: shallow_match_main is tabulated on them.",
    'C12': "The parse must be made in CPython's default mode; Submission.get_lines must split like the fallback "
           "tables built next to it.",
    'C13': "Every registered builtin-module loader is executed twice and must share no type object; every Type "
           "subclass's effective constructor must leave the instance with its own fields table; lazy tool reset, "
           "environment set-up and contextualize_report are executed instead of pattern-matched.",
    'C14': "timeout() interprets the real terminate(); the grader may be inside an except block.",
    'C15': "Queue commands, clear_input/clear_output and the tracker installation are executed on a model sandbox.",
    'C16': "Exact conversions are executed on a value without dunders and with the builtin rejecting the value; any "
           "in-place dunder must not rebind what the proxy wraps (R9).",
    'C17': "After stop_sections() or a section past the end no line offset stays in force; the TIFA cache must "
           "distinguish identical text under different offsets; TIFA's offset is followed through process_ast, "
           "reset() and locate().",
    'C18': "Container literal visitors (R1d), fresh copies per builtin look-up (R5b), issue constructors recording "
           "their location and position-less nodes (R6), cache keyed with the line offset (R2).",
    'C20': "Feedback.__init__ per attribute with falsy explicit values (R8), add_feedback/add_ignored_feedback "
           "agreement over parent kinds (R9), log()/debug() forwarding their message (R10).",
}
# Rules added after the eighth round (DESIGN.md 10.11).
_ADDENDA8 = {
    'C02': "The correctness table includes visible positive-valence feedback that declares nothing and visible negative "
           "feedback marked unscored; resolve() is re-run in the plain call form scripts use (result caches keyed on "
           "list lengths are stale after un-muting).",
    'C03': "Untriggered feedback carrying an else-message scores like any other.",
    'C04': "The import replacement is executed (refusal of pedal.*, eleven import forms, a submission file that fails "
           "at import on every execution); SystemExit is modelled with exit status None / 0 / a message.",
    'C07': "equality_test is run with pedal's own strip_punctuation (module-level definition interpreted) and with one "
           "or both operands proxied (isinstance sees the wrapped value, type() does not).",
    'C08': "The program-identity histories include source.verify() on the submission or on explicit code (the real "
           "verify is executed) and the submission's text being replaced under the same file name.",
    'C09': "While loops whose test reads the variable the body assigns are in the flow table.",
    'C12': "syntax_error.__init__ is executed with CPython lines past the end of the split text; the frame-line bounds "
           "rule is shared with C17; Submission.__init__/replace_main keep the submitted text character for character.",
    'C13': "The reset-twice rule sees recycled objects (constructed objects keep their keyword arguments and accept "
           "method calls).",
    'C14': "With a stale buffer of an abandoned execution on the stack, the next execution records its own output (R6).",
    'C15': "append_output with trailing blank-only lines; clear_output leaves the executions' own records alone; "
           "set_input given the queue itself, or after a function was set.",
    'C16': "Comparisons of a proxy with itself go through the value's own operator; membership is executed (True, "
           "False, and the TypeError the value raises).",
    'C17': "stop_any_sections with the prologue (section 0) active; a comprehension clause borrowing a position is "
           "located with the offset applied once.",
    'C18': "Result functions of the operator table are executed on model container operands: a container result keeps "
           "an element type (R4c).",
    'C19': "The operator table's result functions are executed instead of abstracted by their return expressions; "
           "pedal's own type classes are executed for value typing, is_subtype and string membership (R6).",
    'C20': "Templates reaching fields by index, key, attribute or inside a format specification are rendered through "
           "the real wrap_fields; two classes sharing a __name__ are both restored after overrides.",
}
for _k, _v in _ADDENDA8.items():
    CLAIMS[_k]['text'] = CLAIMS[_k]['text'].rstrip() + ' ' + _v
# Rules added after the tenth round (DESIGN.md 10.13).
_ADDENDA10 = {
    'C01': "Field values compare by content: every @dataclass of pedal.core declares the attributes its __init__ sets or "
           "defines __eq__ itself, and a hand-written __eq__ answers (does not raise) for values of other kinds (R7).",
    'C02': "A template naming a missing field surfaces its KeyError (a triggered feedback never has message None); "
           "Report.clear() is executed and leaves no suppression of an earlier grading in force (R10).",
    'C03': "Feedback.__init__ keeps a string score's meaning ('+12.5%' stays 0.125).",
    'C04': "The feedback object built from the exception is tainted on the filing path (Report.add_feedback / "
           "add_ignored_feedback / _handle_condition): converting it converts the student's exception; format_line is "
           "executed for pedal's own multi-line frames.",
    'C05': "The stdlib base class's trace-touching methods (bdb.Bdb.set_quit ...) are modelled as CPython defines them.",
    'C06': "The submission holds the text given, character for character (tabs inside string literals included); the "
           "value handed back is the object just produced also when the same code is observed twice.",
    'C08': "Location.from_ast reports a node's own line and column, decorated definitions included (R9).",
    'C10': "Every CaitNode.find_matches call builds a pattern tree of its own (R6).",
    'C13': "register_builtin_module / reset_builtin_modules are executed with a model loader: every reset rebuilds the "
           "module types (a memoised loader shares one mutable ModuleType).",
    'C14': "The frames a timeout shows under full_traceback can be rendered (R7); sandbox code never writes "
           "sys.modules / sys.stdout / time.sleep outside tracked patches, so an abandoned thread cannot alter later "
           "executions through them (R8).",
    'C15': "PrintingStringIO.write records the text the student wrote whatever the console can display.",
    'C16': "What the proxy wraps is the object the student code produced, also for a repeated observation whose value "
           "merely compares equal to the previous one (R10).",
    'C18': "get_builtin_name is run on instances of pedal's real constructor types (R5c); every *_definition typing "
           "rule of pedal.types.builtin is executed on plain-typed arguments and must not raise (R4d).",
    'C19': "singular_name / plural_name of every core type, the empty tuple included, can be computed (R7); a variable "
           "assigned twice carries the type of the last value (R8).",
    'C20': "The same format spec rendered for two formatter instances of one class uses each report's own formatter; no "
           "Feedback subclass constructor re-runs the base constructor after it failed (R11).",
}
_ADDENDA11 = {
    'C01': "The resolver is also called as resolve(report=r) with another report in scope as MAIN_REPORT.",
    'C02': "resolve(report=r) answers for r (shared driver rule).",
    'C03': "A second resolve after a suppression or flag change reflects the current state (shared driver rule).",
    'C04': "A compile error whose SyntaxError carries no position, text or file name (null byte) is rendered by pedal's "
           "real traceback classes under every version switch and every shipped formatter without raising (R7); no "
           "tracer's __exit__ swallows a student exception, bdb.BdbQuit included (R8); the helper that words the "
           "exception's class name accepts every name a class can have, the empty one included.",
    'C05': "An execution that starts while another is active builds patch objects of its own (class-level objects are "
           "evaluated once per modelled process).",
    'C06': "Trace callbacks only store the values they take from the student's frames (R10); timeout() returns what "
           "the function returned, so a student file imported in threaded mode is the module (R11); Sandbox.call / "
           "evaluate hand back the student's own object in every threading mode.",
    'C07': "Sandbox.get_context(id) ends with that execution's own context whatever groups are open.",
    'C08': "The submission's main code is the text submitted, character for character (R10, shared with C12.R8); the "
           "program-identity histories use texts a tidying step would alter.",
    'C09': "The end-of-scope unused report is decided by executing witness programs; a second analysis by the same TIFA "
           "object records all of its issues; the section text and offset rules of C17 are claimed as R7/R8.",
    'C10': "No function of pedal.cait writes module- or class-level state, directly, through a local alias or by a "
           "shallow copy of a template (R7).",
    'C11': "find_matches itself is run across verify/replace histories: what it returns was matched against the tree of "
           "the code asked for now.",
    'C12': "A SyntaxError without a file name is carried from verify() through the real syntax_error / "
           "ExpandedTraceback / formatter chain without raising (R9); the frame pedal makes up for a SyntaxError is "
           "built by executing build_traceback for errors with and without a position.",
    'C13': "The who-writes inventory follows local aliases of module-level objects and flags shallow copies of "
           "module-level templates whose entries are mutable.",
    'C14': "EXCEPTION_FF_MAP, whatever kind of table it is, answers for TimeoutError with the class registered for "
           "TimeoutError (R9).",
    'C15': "commands.run / commands.call hand the sandbox the inputs object they were given, empty ones included (R6).",
    'C16': "Sandbox.call / evaluate hand back a proxy of the student's own object in every threading mode (R10).",
    'C17': "make_resolver triggers the resolve event on every call, also after a call whose resolver function raised.",
    'C18': "The section offset rule of C17.R3 is claimed as R6s; the issue for a call statement whose caller has no name "
           "is constructed without raising under every shipped formatter (R7).",
    'C19': "TifaCore._issue records every issue, also in a second analysis by the same object (R9, shared with C09.R6).",
    'C20': "FeedbackFieldWrapper.__getattr__ / __getitem__ forward to the value's own attribute or item whatever its "
           "name (R12).",
}
_ADDENDA14 = {
    'C02': "No kind constant other than COMPLIMENT evaluates to the value merge() sets compliments aside by (R11).",
    'C06': "R7 also runs one import replacement over histories - the same dotted module as `import a.b` and as "
           "`from a.b import c`, in both orders - against a real __import__ that answers per form.",
    'C09': "R4's witnesses include programs in which an enclosing branch re-assigns a name whose module-path state is "
           "older (search_parents must answer with the nearest path's state); tifa_analysis, executed for several "
           "programs on one report, asks process_code for a fresh analysis record every time, and process_code "
           "replaces the record (R9).",
    'C11': "AstMap.add_func_to_sym_table is executed for the student nodes a function placeholder can stand for "
           "(FunctionDef, the Name of a plain call, the Attribute of a method call): the symbol recorded carries the "
           "student's identifier (R9).",
}
for _k, _v in _ADDENDA14.items():
    CLAIMS[_k]['text'] = CLAIMS[_k]['text'].rstrip() + ' ' + _v
for _k, _v in _ADDENDA11.items():
    CLAIMS[_k]['text'] = CLAIMS[_k]['text'].rstrip() + ' ' + _v
for _k, _v in _ADDENDA10.items():
    CLAIMS[_k]['text'] = CLAIMS[_k]['text'].rstrip() + ' ' + _v
for _k, _v in _ADDENDA4.items():
    CLAIMS[_k]['text'] = CLAIMS[_k]['text'].rstrip() + ' ' + _v
for _k, _v in _ADDENDA.items():
    CLAIMS[_k]['text'] = CLAIMS[_k]['text'].rstrip() + ' ' + _v
CLAIMS['C07']['note'] = CLAIMS['C07']['note'].replace(", the output-assertion family beyond the errors() disjunct", "; equality_test's normalisation is taken as given by the output-assertion rule")
CLAIMS['C10']['note'] = CLAIMS['C10']['note'].replace("; __expr__ rebinding", "")
