"""Statement-level control-flow graph with exception edges (DESIGN.md appendix A).

* Nodes are simple statements, tests, handler entries, with-enter/exit points and join points.
* Exception edges carry a *set of atoms*; an atom is a builtin exception class standing for
  "this class or a user subclass whose nearest builtin ancestor it is".
* Raise points are designated by the rule (`raises(ast_node) -> set of atoms`); undesignated
  statements do not raise. Explicit `raise` statements raise the atom(s) of their operand, a bare
  `raise` re-raises the atoms the enclosing handler caught.
* `finally` bodies are duplicated per continuation kind (normal, return, break, continue, exception).
"""
import ast
import builtins

from .astutil import dotted, walk_local
from .loader import AnalysisError, norm

ALL_EXC = frozenset(v for v in vars(builtins).values()
                    if isinstance(v, type) and issubclass(v, BaseException))


def down(cls):
    """All atoms at or below a builtin exception class."""
    return frozenset(c for c in ALL_EXC if issubclass(c, cls))


EXCEPTION_DOWN = down(Exception)
NON_EXCEPTION = ALL_EXC - EXCEPTION_DOWN


def describe(atoms):
    """Readable grouping of a set of atoms."""
    atoms = set(atoms)
    if not atoms:
        return 'nothing'
    parts = []
    if EXCEPTION_DOWN <= atoms:
        parts.append('Exception and its subclasses')
        atoms -= EXCEPTION_DOWN
    if len(atoms) > 12 and atoms <= EXCEPTION_DOWN:
        missing = sorted(c.__name__ for c in EXCEPTION_DOWN - atoms
                         if not any(o is not c and issubclass(c, o) for o in EXCEPTION_DOWN - atoms))
        return 'every Exception subclass except ' + ', '.join(missing) + ' (and their subclasses)'
    for c in sorted(atoms, key=lambda c: c.__name__):
        if c is BaseException:
            parts.append('other direct BaseException subclasses')
        else:
            parts.append(c.__name__)
    return ', '.join(parts)


class Node:
    __slots__ = ('id', 'kind', 'ast', 'label')

    def __init__(self, id, kind, ast_node=None, label=''):
        self.id = id
        self.kind = kind
        self.ast = ast_node
        self.label = label

    def __repr__(self):
        return "<%d %s %s>" % (self.id, self.kind, self.label or (norm(self.ast)[:50] if self.ast is not None else ''))


class _K:
    """Continuation context."""

    def __init__(self, exc, ret, brk=None, cont=None, inflight=frozenset()):
        self.exc = exc          # fn(preds, atoms)
        self.ret = ret          # fn(preds)
        self.brk = brk
        self.cont = cont
        self.inflight = inflight  # atoms caught by the enclosing handler (for bare raise)

    def replace(self, **kw):
        k = _K(self.exc, self.ret, self.brk, self.cont, self.inflight)
        for a, v in kw.items():
            setattr(k, a, v)
        return k


class CFG:
    def __init__(self, fn, raises=None, handler_type=None, swallows=None, raise_atoms=None, flatten=None):
        """
        fn: FunctionDef.  raises(ast_node) -> iterable of atoms raised by that simple statement / test /
        with-item (None or empty: does not raise).  handler_type(expr) -> builtin exception class (or tuple
        of classes) for handler type expressions that are not builtin names.  swallows(withitem) -> atoms
        the context manager's __exit__ may swallow.  raise_atoms(raise_stmt) -> atoms for explicit raises of
        non-builtin classes.
        """
        self.fn = fn
        # flatten=(class_node, stop_names): a call self._helper(...) counts as making the calls of the helper's
        # body as well (private helpers a refactoring extracted), except for the named primitives
        self.flatten = flatten
        self.raises = raises or (lambda n: ())
        self.handler_type = handler_type
        self.swallows = swallows or (lambda item: frozenset())
        self.raise_atoms = raise_atoms
        self.nodes = []
        self.succ = {}
        self.pred = {}
        self.entry = self._node('entry', None, 'ENTRY')
        self.exit = self._node('exit', None, 'EXIT')
        self.xexit = self._node('xexit', None, 'XEXIT')
        self.stmt_nodes = {}    # id(ast stmt) -> [nodes] (several for duplicated finally bodies)
        k = _K(exc=lambda preds, atoms: self._connect(preds, self.xexit, frozenset(atoms)),
               ret=lambda preds: self._connect(preds, self.exit, 'return'))
        out = self._seq(fn.body, [(self.entry, 'next')], k)
        self._connect(out, self.exit, 'fallthrough')

    # -- construction --------------------------------------------------------------------------
    def _node(self, kind, ast_node=None, label=''):
        n = Node(len(self.nodes), kind, ast_node, label)
        self.nodes.append(n)
        self.succ[n.id] = []
        self.pred[n.id] = []
        return n

    def _edge(self, a, b, label):
        self.succ[a.id].append((b.id, label))
        self.pred[b.id].append((a.id, label))

    def _connect(self, preds, node, label=None):
        for p, l in preds:
            self._edge(p, node, label if label is not None else l)

    def _stmt_node(self, st, kind='stmt', label=''):
        n = self._node(kind, st, label)
        self.stmt_nodes.setdefault(id(st), []).append(n)
        return n

    def _raise_from(self, node, ast_node, k):
        atoms = frozenset(self.raises(ast_node) or ())
        if atoms:
            k.exc([(node, 'exc')], atoms)

    def _seq(self, stmts, preds, k):
        for st in stmts:
            if not preds:
                break  # unreachable tail
            preds = self._stmt(st, preds, k)
        return preds

    def _stmt(self, st, preds, k):
        if isinstance(st, ast.If):
            t = self._stmt_node(st, 'test', 'if ' + norm(st.test)[:60])
            self._connect(preds, t)
            self._raise_from(t, st.test, k)
            out = self._seq(st.body, [(t, 'true')], k)
            out2 = self._seq(st.orelse, [(t, 'false')], k) if st.orelse else [(t, 'false')]
            return out + out2
        if isinstance(st, (ast.While, ast.For, ast.AsyncFor)):
            t = self._stmt_node(st, 'test', ('while ' + norm(st.test)[:50]) if isinstance(st, ast.While)
                                else ('for ' + norm(st.target) + ' in ' + norm(st.iter)[:40]))
            self._connect(preds, t)
            self._raise_from(t, st.test if isinstance(st, ast.While) else st.iter, k)
            breaks = []
            k2 = k.replace(brk=lambda ps: breaks.extend(ps), cont=lambda ps: self._connect(ps, t, 'continue'))
            body_out = self._seq(st.body, [(t, 'true')], k2)
            self._connect(body_out, t, 'loop')
            infinite = isinstance(st, ast.While) and isinstance(st.test, ast.Constant) and bool(st.test.value)
            after = [] if infinite else [(t, 'false')]
            if st.orelse:
                after = self._seq(st.orelse, after, k)
            return after + breaks
        if isinstance(st, ast.Break):
            n = self._stmt_node(st)
            self._connect(preds, n)
            if k.brk is None:
                raise AnalysisError("break outside loop")
            k.brk([(n, 'break')])
            return []
        if isinstance(st, ast.Continue):
            n = self._stmt_node(st)
            self._connect(preds, n)
            k.cont([(n, 'continue')])
            return []
        if isinstance(st, ast.Return):
            n = self._stmt_node(st)
            self._connect(preds, n)
            self._raise_from(n, st, k)
            k.ret([(n, 'return')])
            return []
        if isinstance(st, ast.Raise):
            n = self._stmt_node(st)
            self._connect(preds, n)
            atoms = self._atoms_of_raise(st, k)
            k.exc([(n, 'exc')], atoms)
            return []
        if isinstance(st, (ast.With, ast.AsyncWith)):
            return self._with(st, preds, k)
        if isinstance(st, ast.Try) or type(st).__name__ == 'TryStar':
            return self._try(st, preds, k)
        if isinstance(st, ast.Match):
            raise AnalysisError("match statements are not modelled by the CFG")
        # simple statement (incl. nested def/class, assert, assign, expr, pass, import, global, delete)
        n = self._stmt_node(st)
        self._connect(preds, n)
        if isinstance(st, ast.Assert):
            k.exc([(n, 'exc')], frozenset([AssertionError]))
        self._raise_from(n, st, k)
        return [(n, 'next')]

    def _atoms_of_raise(self, st, k):
        if st.exc is None:
            if not k.inflight:
                return frozenset([RuntimeError])
            return k.inflight
        target = st.exc.func if isinstance(st.exc, ast.Call) else st.exc
        name = dotted(target)
        if name and hasattr(builtins, name) and isinstance(getattr(builtins, name), type) \
                and issubclass(getattr(builtins, name), BaseException):
            return frozenset([getattr(builtins, name)])
        if self.raise_atoms is not None:
            r = self.raise_atoms(st)
            if r:
                return frozenset(r)
        if isinstance(st.exc, ast.Name) and k.inflight:
            # `raise e` of the caught exception variable
            return k.inflight
        # an unknown class: assume an Exception subclass (pedal defines no BaseException-only classes)
        return frozenset([Exception])

    def _handler_atoms(self, type_expr, depth=0):
        if type_expr is None:
            return ALL_EXC
        exprs = type_expr.elts if isinstance(type_expr, ast.Tuple) else [type_expr]
        out = set()
        for e in exprs:
            name = dotted(e)
            cls = getattr(builtins, name, None) if name and '.' not in name else None
            if isinstance(cls, type) and issubclass(cls, BaseException):
                out |= down(cls)
                continue
            if self.handler_type is not None:
                r = self.handler_type(e)
                if r is not None:
                    out |= frozenset(r)
                    continue
            # a class-level constant naming the classes: except self._REPORTED: ...
            if name and name.startswith('self.') and name.count('.') == 1 and depth < 3 and \
                    isinstance(getattr(self.fn, '_parent', None), ast.ClassDef):
                value = None
                for st in self.fn._parent.body:
                    if isinstance(st, ast.Assign) and any(isinstance(t, ast.Name) and t.id == name[5:]
                                                          for t in st.targets):
                        value = st.value
                if value is not None:
                    out |= self._handler_atoms(value, depth + 1)
                    continue
            # a module-level constant naming the classes: _REPORTED = (Exception, SystemExit)
            mod = getattr(self.fn, '_module', None)
            if mod is not None and name and '.' not in name and depth < 3:
                try:
                    value = mod.top_assign(name)
                except AnalysisError:
                    value = None
                if value is not None:
                    out |= self._handler_atoms(value, depth + 1)
                    continue
            raise AnalysisError("handler type %s does not resolve to a builtin exception class" % norm(e))
        return frozenset(out)

    def _try(self, st, preds, k):
        has_finally = bool(st.finalbody)
        pend = {'exc': [], 'ret': [], 'brk': [], 'cont': []}
        if has_finally:
            k_out = _K(exc=lambda ps, atoms: pend['exc'].append((ps, frozenset(atoms))),
                       ret=lambda ps: pend['ret'].extend(ps),
                       brk=(lambda ps: pend['brk'].extend(ps)) if k.brk else None,
                       cont=(lambda ps: pend['cont'].extend(ps)) if k.cont else None,
                       inflight=k.inflight)
        else:
            k_out = k
        # body: exceptions go to the handlers
        handler_in = [[] for _ in st.handlers]   # per handler: list of (preds, atoms)
        handler_sets = [self._handler_atoms(h.type) for h in st.handlers]

        def body_exc(ps, atoms):
            rest = frozenset(atoms)
            for i, hs in enumerate(handler_sets):
                caught = rest & hs
                if caught:
                    handler_in[i].append((ps, caught))
                    rest = rest - caught
            if rest:
                k_out.exc(ps, rest)
        k_body = k_out.replace(exc=body_exc)
        out = self._seq(st.body, preds, k_body)
        if st.orelse:
            out = self._seq(st.orelse, out, k_out)
        for h, incoming in zip(st.handlers, handler_in):
            hn = self._node('handler', h, 'except ' + (norm(h.type) if h.type is not None else ''))
            self.stmt_nodes.setdefault(id(h), []).append(hn)
            caught_all = frozenset()
            for ps, atoms in incoming:
                self._connect(ps, hn, atoms)
                caught_all |= atoms
            if not incoming:
                continue  # handler unreachable under the designated raise points
            k_h = k_out.replace(inflight=caught_all)
            out = out + self._seq(h.body, [(hn, 'next')], k_h)
        if not has_finally:
            return out
        # finally copies
        result = []
        if out:
            result = self._seq(st.finalbody, out, k)
        if pend['ret']:
            o = self._seq(st.finalbody, pend['ret'], k)
            k.ret(o)
        if pend['brk']:
            o = self._seq(st.finalbody, pend['brk'], k)
            k.brk(o)
        if pend['cont']:
            o = self._seq(st.finalbody, pend['cont'], k)
            k.cont(o)
        if pend['exc']:
            atoms = frozenset().union(*[a for _, a in pend['exc']])
            ps = [p for pl, _ in pend['exc'] for p in pl]
            # edges into the finally copy carry their own atom sets
            fin_entry = self._node('join', st, 'finally(exc)')
            for pl, a in pend['exc']:
                self._connect(pl, fin_entry, a)
            o = self._seq(st.finalbody, [(fin_entry, 'next')], k.replace(inflight=atoms))
            k.exc([(p, 'exc') for p, _ in o], atoms)
        return result

    def _with(self, st, preds, k):
        item = st.items[0]
        rest_items = st.items[1:]
        enter = self._stmt_node(st, 'with_enter', 'with ' + norm(item.context_expr)[:50])
        self._connect(preds, enter)
        self._raise_from(enter, item, k)
        swallow = frozenset(self.swallows(item) or ())
        pend = {'exc': [], 'ret': [], 'brk': [], 'cont': []}
        k2 = _K(exc=lambda ps, atoms: pend['exc'].append((ps, frozenset(atoms))),
                ret=lambda ps: pend['ret'].extend(ps),
                brk=(lambda ps: pend['brk'].extend(ps)) if k.brk else None,
                cont=(lambda ps: pend['cont'].extend(ps)) if k.cont else None,
                inflight=k.inflight)
        if rest_items:
            inner = ast.With(items=rest_items, body=st.body, lineno=st.lineno, col_offset=st.col_offset)
            out = self._with(inner, [(enter, 'next')], k2)
        else:
            out = self._seq(st.body, [(enter, 'next')], k2)

        def exit_node(tag):
            n = self._node('with_exit', st, 'exit(%s) %s' % (tag, norm(item.context_expr)[:40]))
            self.stmt_nodes.setdefault(id(st), []).append(n)
            return n
        result = []
        if out:
            n = exit_node('normal')
            self._connect(out, n)
            self._raise_from(n, item, k)
            result.append((n, 'next'))
        for kind, target in (('ret', k.ret), ('brk', k.brk), ('cont', k.cont)):
            if pend[kind]:
                n = exit_node(kind)
                self._connect(pend[kind], n)
                target([(n, kind)])
        if pend['exc']:
            n = exit_node('exc')
            atoms = frozenset()
            for pl, a in pend['exc']:
                self._connect(pl, n, a)
                atoms |= a
            swallowed = atoms & swallow
            if swallowed:
                result.append((n, 'swallowed'))
            if atoms - swallow:
                k.exc([(n, 'exc')], atoms - swallow)
            elif swallowed and not (atoms - swallow):
                pass
        return result

    # -- queries -------------------------------------------------------------------------------
    def nodes_where(self, pred):
        return [n for n in self.nodes if n.ast is not None and n.kind in ('stmt', 'test', 'with_enter', 'with_exit')
                and pred(n)]

    def nodes_calling(self, match, kinds=('stmt', 'test', 'with_enter')):
        """Nodes whose own expression(s) contain a Call for which match(call) is true."""
        out = []
        for n in self.nodes:
            if n.kind not in kinds or n.ast is None:
                continue
            for c in self.own_calls(n):
                if match(c):
                    out.append(n)
                    break
        return out

    def own_exprs(self, n):
        a = n.ast
        if n.kind == 'test':
            if isinstance(a, ast.If) or isinstance(a, ast.While):
                return [a.test]
            return [a.iter, a.target]
        if n.kind in ('with_enter',):
            return [a.items[0].context_expr]
        if n.kind == 'with_exit':
            return []
        if n.kind == 'handler':
            return []
        if isinstance(a, (ast.FunctionDef, ast.AsyncFunctionDef, ast.ClassDef)):
            return list(a.decorator_list)
        return [a]

    def own_calls(self, n):
        for e in self.own_exprs(n):
            for x in walk_local(e):
                if isinstance(x, ast.Call):
                    yield x
                    if self.flatten is not None:
                        from .astutil import flat_self_calls
                        cls, stop = self.flatten
                        f = x.func
                        if isinstance(f, ast.Attribute) and isinstance(f.value, ast.Name) and f.value.id == 'self' \
                                and f.attr not in stop:
                            for m in cls.body:
                                if isinstance(m, ast.FunctionDef) and m.name == f.attr:
                                    for y in flat_self_calls(m.body, cls, stop=stop, _seen={f.attr}):
                                        yield y

    def reachable(self, sources, avoid=(), edge_ok=None):
        avoid = {a.id if isinstance(a, Node) else a for a in avoid}
        seen = set()
        stack = [s.id if isinstance(s, Node) else s for s in sources]
        while stack:
            n = stack.pop()
            if n in seen:
                continue
            seen.add(n)
            for m, label in self.succ[n]:
                if m in avoid or m in seen:
                    continue
                if edge_ok is not None and not edge_ok(n, m, label):
                    continue
                stack.append(m)
        return seen

    def successors_avoiding(self, src, avoid):
        """Nodes reachable from src's successors (src itself excluded unless on a cycle) avoiding `avoid`."""
        avoid = {a.id if isinstance(a, Node) else a for a in avoid}
        starts = [m for m, _ in self.succ[src.id] if m not in avoid]
        return self.reachable(starts, avoid)

    def path(self, src, dst, avoid=()):
        """One path src -> dst avoiding nodes (BFS), as a list of (node, label-taken)."""
        avoid = {a.id if isinstance(a, Node) else a for a in avoid}
        from collections import deque
        prev = {src.id: None}
        dq = deque([src.id])
        while dq:
            n = dq.popleft()
            if n == dst.id and n != src.id or (n == dst.id and prev[n] is not None):
                break
            for m, label in self.succ[n]:
                if m in avoid or m in prev:
                    continue
                prev[m] = (n, label)
                dq.append(m)
        if dst.id not in prev:
            return None
        out = []
        cur = dst.id
        while prev[cur] is not None:
            p, label = prev[cur]
            out.append((self.nodes[cur], label))
            cur = p
        out.append((self.nodes[src.id], None))
        return list(reversed(out))

    def must_pass(self, src, dst, via):
        """True when every path from src (exclusive) to dst passes through a node of `via`."""
        return dst.id not in self.successors_avoiding(src, via)

    def dominates(self, a_nodes, b):
        """Every path ENTRY -> b passes through one of a_nodes."""
        ids = {a.id for a in a_nodes}
        if b.id in ids:
            return True
        return b.id not in self.reachable([self.entry], ids)

    def describe_path(self, path):
        parts = []
        for n, label in path:
            txt = n.label or (norm(n.ast).split('\n')[0][:70] if n.ast is not None else n.kind)
            if isinstance(label, frozenset):
                lab = 'raises ' + describe(label)
            else:
                lab = label
            line = getattr(n.ast, 'lineno', None)
            parts.append(("-[%s]-> " % lab if lab else '') + ("L%s " % line if line else '') + txt)
        return ' '.join(parts)

    def exc_exit_atoms(self):
        """Atoms that can leave the function through XEXIT, with one witness predecessor each."""
        out = {}
        for p, label in self.pred[self.xexit.id]:
            if isinstance(label, frozenset):
                for a in label:
                    out.setdefault(a, self.nodes[p])
        return out
