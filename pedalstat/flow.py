"""Small intraprocedural dataflow helpers: Optional-value uses, reaching assignments."""
import ast

from .astutil import walk_local
from .loader import norm

ARITH = (ast.Add, ast.Sub, ast.Mult, ast.Div, ast.FloorDiv, ast.Mod, ast.Pow, ast.LShift, ast.RShift)
ORDER = (ast.Lt, ast.LtE, ast.Gt, ast.GtE)


def _none_test(test):
    """('is_none', expr) / ('not_none', expr) / None for a test expression."""
    if isinstance(test, ast.Compare) and len(test.ops) == 1 and isinstance(test.comparators[0], ast.Constant) \
            and test.comparators[0].value is None:
        if isinstance(test.ops[0], ast.Is):
            return 'is_none', norm(test.left)
        if isinstance(test.ops[0], ast.IsNot):
            return 'not_none', norm(test.left)
    if isinstance(test, ast.UnaryOp) and isinstance(test.op, ast.Not):
        return 'is_none', norm(test.operand)   # `if not x:` also covers None
    if isinstance(test, (ast.Name, ast.Attribute)):
        return 'not_none', norm(test)
    return None


def _defaulting(value, opt):
    """Does the expression turn an Optional into a definite value?  x or d / x if x is not None else d / ..."""
    if isinstance(value, ast.BoolOp) and isinstance(value.op, ast.Or) and norm(value.values[0]) in opt:
        return True
    if isinstance(value, ast.IfExp):
        t = _none_test(value.test)
        if t is not None and t[1] in opt:
            kept = value.body if t[0] == 'not_none' else value.orelse
            other = value.orelse if t[0] == 'not_none' else value.body
            if norm(kept) == t[1] and norm(other) not in opt:
                return True
    return False


class OptionalFlow:
    """Tracks which names/attribute chains may be None and reports arithmetic / ordering uses of them.

    seeds: expression texts that are Optional on entry (parameter names) ; sources: predicate on an
    expression node saying "this read yields an Optional" (e.g. e.lineno of a caught SyntaxError)."""

    def __init__(self, fn, seeds=(), source=None):
        self.fn = fn
        self.source = source or (lambda e: False)
        self.uses = []        # (node, text, description)
        self.passes = []      # (call node, arg index or keyword, expr text)
        self._block(fn.body, set(seeds))

    def _is_opt(self, e, opt):
        return norm(e) in opt or self.source(e)

    def _scan_expr(self, e, opt):
        for n in walk_local(e):
            if isinstance(n, ast.BinOp) and isinstance(n.op, ARITH):
                for side in (n.left, n.right):
                    if isinstance(side, (ast.Name, ast.Attribute)) and self._is_opt(side, opt):
                        self.uses.append((n, norm(side), 'arithmetic `%s`' % norm(n)))
            elif isinstance(n, ast.Compare) and any(isinstance(o, ORDER) for o in n.ops):
                for side in [n.left] + n.comparators:
                    if isinstance(side, (ast.Name, ast.Attribute)) and self._is_opt(side, opt):
                        self.uses.append((n, norm(side), 'ordering comparison `%s`' % norm(n)))
            elif isinstance(n, ast.Call):
                for i, a in enumerate(n.args):
                    if isinstance(a, (ast.Name, ast.Attribute)) and self._is_opt(a, opt):
                        self.passes.append((n, i, norm(a)))
                for k in n.keywords:
                    if k.arg and isinstance(k.value, (ast.Name, ast.Attribute)) and self._is_opt(k.value, opt):
                        self.passes.append((n, k.arg, norm(k.value)))

    def _block(self, stmts, opt):
        for st in stmts:
            self._stmt(st, opt)
        return opt

    def _stmt(self, st, opt):
        if isinstance(st, ast.Assign):
            v = st.value
            if isinstance(v, ast.IfExp):
                # scan the arms under the knowledge of the test
                t = _none_test(v.test)
                self._scan_expr(v.test, opt)
                if t is not None and (t[1] in opt or t[1] in self._src_set(v)):
                    body_opt = opt - {t[1]} if t[0] == 'not_none' else opt
                    else_opt = opt - {t[1]} if t[0] == 'is_none' else opt
                    self._scan_expr(v.body, body_opt)
                    self._scan_expr(v.orelse, else_opt)
                else:
                    self._scan_expr(v.body, opt)
                    self._scan_expr(v.orelse, opt)
            else:
                self._scan_expr(v, opt)
            for t in st.targets:
                name = norm(t)
                if isinstance(v, (ast.Name, ast.Attribute)) and self._is_opt(v, opt):
                    opt.add(name)
                elif isinstance(v, ast.IfExp) and not _defaulting(v, opt | self._src_set(v)) and \
                        any(self._is_opt(x, opt) for x in (v.body, v.orelse)
                            if isinstance(x, (ast.Name, ast.Attribute))):
                    opt.add(name)
                else:
                    opt.discard(name)
            return
        if isinstance(st, ast.AugAssign):
            self._scan_expr(st.value, opt)
            if self._is_opt(st.target, opt) and isinstance(st.op, ARITH):
                self.uses.append((st, norm(st.target), 'augmented assignment `%s`' % norm(st)))
            return
        if isinstance(st, ast.If):
            self._scan_expr(st.test, opt)
            t = _none_test(st.test)
            body_opt, else_opt = set(opt), set(opt)
            if t is not None:
                if t[0] == 'not_none':
                    body_opt.discard(t[1])
                else:
                    else_opt.discard(t[1])
            self._block(st.body, body_opt)
            self._block(st.orelse, else_opt)
            terminates = lambda b: bool(b) and isinstance(b[-1], (ast.Return, ast.Raise, ast.Continue, ast.Break))
            if terminates(st.body) and not terminates(st.orelse):
                merged = else_opt
            elif terminates(st.orelse) and not terminates(st.body):
                merged = body_opt
            else:
                merged = body_opt | else_opt
            opt.clear()
            opt.update(merged)
            return
        if isinstance(st, (ast.For, ast.While)):
            self._scan_expr(st.iter if isinstance(st, ast.For) else st.test, opt)
            self._block(st.body, opt)
            self._block(st.orelse, opt)
            return
        if isinstance(st, ast.With):
            for i in st.items:
                self._scan_expr(i.context_expr, opt)
            self._block(st.body, opt)
            return
        if isinstance(st, ast.Try):
            self._block(st.body, opt)
            for h in st.handlers:
                self._block(h.body, set(opt))
            self._block(st.orelse, opt)
            self._block(st.finalbody, opt)
            return
        if isinstance(st, (ast.FunctionDef, ast.ClassDef, ast.AsyncFunctionDef)):
            return
        for child in ast.iter_child_nodes(st):
            if isinstance(child, ast.expr):
                self._scan_expr(child, opt)

    def _src_text(self, text):
        return False

    def _src_set(self, e):
        return {norm(x) for x in walk_local(e) if isinstance(x, (ast.Name, ast.Attribute)) and self.source(x)}
