"""Findings, obligations, known-findings matching, evidence and replay files."""
import json
import os
import time

from .loader import AnalysisError, norm

VERIF_DIR = os.path.dirname(os.path.dirname(os.path.abspath(__file__)))
KNOWN_FINDINGS = os.path.join(VERIF_DIR, 'known_findings.json')


class Finding:
    def __init__(self, prop, rule, key, file, line, function, construct, explanation, witness):
        self.prop = prop
        self.rule = rule
        self.key = key
        self.file = file
        self.line = line
        self.function = function
        self.construct = construct
        self.explanation = explanation
        self.witness = witness
        self.known = None

    def ident(self):
        return (self.prop, self.rule, self.key)

    def to_json(self):
        return {
            'property': self.prop, 'rule': self.rule, 'key': self.key, 'file': self.file,
            'line': self.line, 'function': self.function, 'construct': self.construct,
            'explanation': self.explanation, 'witness': self.witness,
        }


class Ctx:
    """Collector handed to every rule of one property run."""

    def __init__(self, prop, repo, tier='quick', quiet=False):
        self.prop = prop
        self.repo = repo
        self.tier = tier
        self.quiet = quiet
        self.findings = []
        self.obligations = []     # (rule, key, ok)
        self.infos = []
        self.samples = []
        self.rules = {}           # rule -> description
        self.assumptions = []
        self.nontrivial = set()
        self.analysed = {'functions': set(), 'call_sites': 0, 'cfgs': 0}
        self.exhaustive = True
        self.instances = {}

    # -- bookkeeping -------------------------------------------------------------------
    def rule(self, rule, description):
        self.rules[rule] = description

    def assume(self, text):
        if text not in self.assumptions:
            self.assumptions.append(text)

    def info(self, text):
        self.infos.append(text)
        if not self.quiet:
            print("  info: " + text)

    def analysed_function(self, module, fn):
        self.analysed['functions'].add("%s:%s" % (module.relpath, getattr(fn, '_qualname', fn.name)))

    def ok(self, rule, key, sample=None, nontrivial=True):
        """One rule instance (obligation) that was found, analysed and satisfied."""
        self.obligations.append((rule, key, True))
        if nontrivial:
            self.nontrivial.add((rule, key))
        if sample is not None and len(self.samples) < 40:
            self.samples.append({'rule': rule, 'instance': key, 'verdict': 'holds', 'detail': sample})

    def fail(self, rule, key, module, node, explanation, witness, function=None, construct=None):
        """One rule instance that is violated by a named construct."""
        self.obligations.append((rule, key, False))
        self.nontrivial.add((rule, key))
        if function is None and node is not None:
            from .loader import enclosing_function
            f = node if hasattr(node, '_qualname') else enclosing_function(node)
            while f is not None and not hasattr(f, '_qualname'):
                f = enclosing_function(f)
            function = getattr(f, '_qualname', '<module>') if f is not None else '<module>'
        if construct is None and node is not None:
            construct = norm(node)
            if len(construct) > 300:
                construct = construct[:300] + ' …'
        fnd = Finding(self.prop, rule, key,
                      module.relpath if module is not None else None,
                      getattr(node, 'lineno', None), function, construct, explanation, witness)
        self.findings.append(fnd)
        if len(self.samples) < 60:
            self.samples.append({'rule': rule, 'instance': key, 'verdict': 'VIOLATED',
                                 'where': '%s:%s' % (fnd.file, fnd.line), 'construct': construct})
        return fnd

    def check(self, cond, rule, key, module, node, explanation, witness, sample=None, **kw):
        if cond:
            self.ok(rule, key, sample)
        else:
            self.fail(rule, key, module, node, explanation, witness, **kw)
        return cond

    def floor(self, rule, what, count, minimum):
        """Vacuity guard: fewer instances than confirmed by hand means the analysis is broken."""
        self.instances['%s %s' % (rule, what)] = count
        if count < minimum:
            raise AnalysisError("%s %s: only %d instance(s) of %s found, floor is %d"
                                % (self.prop, rule, count, what, minimum))

    def require(self, cond, message):
        if not cond:
            raise AnalysisError("%s: %s" % (self.prop, message))


def load_known():
    if not os.path.exists(KNOWN_FINDINGS):
        return {'known': [], 'fixed': []}
    with open(KNOWN_FINDINGS) as f:
        return json.load(f)


def finish(ctx, t0, seed=0, write=True):
    """Match against known findings, print lines, write evidence/replays, return exit code."""
    known = load_known()
    table = {(k['property'], k['rule'], k['key']): k for k in known.get('known', [])}
    new, listed = [], []
    seen_keys = set()
    for f in ctx.findings:
        k = table.get(f.ident())
        seen_keys.add(f.ident())
        if k is not None:
            f.known = k
            listed.append(f)
        else:
            new.append(f)
    stale = [k for ident, k in table.items() if ident[0] == ctx.prop and ident not in seen_keys]

    replay_dir = os.path.join(VERIF_DIR, 'evidence', 'replays')
    lines = []
    for f in listed:
        lines.append("KNOWN-FINDING: property=%s rule=%s %s [%s:%s %s]" % (
            f.prop, f.rule, f.known.get('what', f.explanation), f.file, f.line, f.key))
    for k in stale:
        lines.append("STALE-KNOWN-FINDING: property=%s rule=%s key=%s no longer occurs" % (
            k['property'], k['rule'], k['key']))
    if write:
        os.makedirs(replay_dir, exist_ok=True)
        for fn in os.listdir(replay_dir):
            if fn.startswith(ctx.prop + '_'):
                os.unlink(os.path.join(replay_dir, fn))
    for i, f in enumerate(new):
        path = os.path.join(replay_dir, "%s_%s_%d.json" % (f.prop, f.rule.replace('.', '_'), i))
        if write:
            with open(path, 'w') as fh:
                json.dump(f.to_json(), fh, indent=1)
        lines.append("%s:%s: [%s %s] %s: %s\n    construct: %s\n    witness: %s" % (
            f.file, f.line, f.prop, f.rule, f.function, f.explanation, f.construct, f.witness))
        lines.append("VIOLATION property=%s replay=%s" % (f.prop, path))
    if not ctx.quiet:
        for line in lines:
            print(line)

    n_ob = len(ctx.obligations)
    n_ok = sum(1 for o in ctx.obligations if o[2])
    wall = time.time() - t0
    evidence = {
        'property_id': ctx.prop,
        'tier': ctx.tier,
        'seed': seed,
        'level': 'other',
        'coverage': {
            'explanation': "static analysis of /repo's working tree (ast only; pedal is never "
                           "imported or run). Rules applied: " +
                           ' | '.join('%s: %s' % kv for kv in sorted(ctx.rules.items())),
            'obligations': n_ob,
            'discharged': n_ok,
            'evaluations': max(n_ob, sum(ctx.instances.values()), 1),
            'instances_enumerated': ctx.instances,
            'distinct_nontrivial': len(ctx.nontrivial),
            'rule': 'one obligation per (rule, construct) instance extracted from the source; '
                    'non-trivial = the rule had a fact to decide for that construct; distinct by '
                    '(rule, instance key)',
            'samples': ctx.samples[:60] or [{'note': 'no instances'}],
            'exhaustive': bool(ctx.exhaustive),
            'rules': ctx.rules,
            'modules_parsed': len(ctx.repo.modules),
            'tree_digest': ctx.repo.hexdigest(),
            'functions_analysed': sorted(ctx.analysed['functions']),
            'known_findings_matched': [f.key for f in listed],
            'new_findings': [f.to_json() for f in new],
            'information': ctx.infos[:80],
        },
        'assumptions': ctx.assumptions,
        'wall_s': round(wall, 3),
        'violations': len(new),
    }
    if write:
        os.makedirs(os.path.join(VERIF_DIR, 'evidence'), exist_ok=True)
        with open(os.path.join(VERIF_DIR, 'evidence', ctx.prop + '.json'), 'w') as fh:
            json.dump(evidence, fh, indent=1, default=str)
    if not ctx.quiet:
        print("%s %s: %d obligations, %d discharged, %d known finding(s), %d new violation(s), "
              "%d functions analysed, %.2fs" % (ctx.prop, ctx.tier, n_ob, n_ok, len(listed),
                                                len(new), len(ctx.analysed['functions']), wall))
    return (1 if new else 0), evidence
