"""Small AST helpers shared by the rules."""
import ast


def dotted(node):
    """'a.b.c' for Name/Attribute chains, else None."""
    parts = []
    while isinstance(node, ast.Attribute):
        parts.append(node.attr)
        node = node.value
    if isinstance(node, ast.Name):
        parts.append(node.id)
        return '.'.join(reversed(parts))
    return None


def call_name(call):
    return dotted(call.func) if isinstance(call, ast.Call) else None


def walk_local(node, include_self=True):
    """ast.walk that does not descend into nested function/class/lambda definitions."""
    stack = [node] if include_self else list(ast.iter_child_nodes(node))
    first = True
    while stack:
        n = stack.pop()
        yield n
        for c in ast.iter_child_nodes(n):
            if isinstance(c, (ast.FunctionDef, ast.AsyncFunctionDef, ast.ClassDef, ast.Lambda)):
                continue
            stack.append(c)


def body_walk(fn):
    """Walk the body of a function (not nested defs), excluding the def node itself."""
    for st in fn.body:
        for n in walk_local(st):
            yield n


def calls(node, name=None, local=True):
    it = walk_local(node) if local else ast.walk(node)
    for n in it:
        if isinstance(n, ast.Call):
            if name is None:
                yield n
            else:
                cn = call_name(n)
                if cn == name or (cn and cn.split('.')[-1] == name):
                    yield n


def method_calls(node, attr, local=True):
    """Calls of the form <anything>.attr(...)."""
    it = walk_local(node) if local else ast.walk(node)
    for n in it:
        if isinstance(n, ast.Call) and isinstance(n.func, ast.Attribute) and n.func.attr == attr:
            yield n


def is_self_attr(node, attr=None):
    return (isinstance(node, ast.Attribute) and isinstance(node.value, ast.Name)
            and node.value.id == 'self' and (attr is None or node.attr == attr))


def names_in(node):
    return {n.id for n in ast.walk(node) if isinstance(n, ast.Name)}


def stmts_of(fn_or_list):
    return fn_or_list.body if hasattr(fn_or_list, 'body') else fn_or_list


def docstring_stripped(body):
    if body and isinstance(body[0], ast.Expr) and isinstance(body[0].value, ast.Constant) \
            and isinstance(body[0].value.value, str):
        return body[1:]
    return body


def assigned_targets(st):
    if isinstance(st, ast.Assign):
        out = []
        for t in st.targets:
            if isinstance(t, (ast.Tuple, ast.List)):
                out.extend(t.elts)
            else:
                out.append(t)
        return out
    if isinstance(st, (ast.AugAssign, ast.AnnAssign)):
        return [st.target]
    return []


def kw(call, name):
    for k in call.keywords:
        if k.arg == name:
            return k.value
    return None


def const_value(node, default=None):
    if isinstance(node, ast.Constant):
        return node.value
    return default


def param_names(fn):
    a = fn.args
    return [x.arg for x in a.posonlyargs + a.args] + ([a.vararg.arg] if a.vararg else []) + \
        [x.arg for x in a.kwonlyargs] + ([a.kwarg.arg] if a.kwarg else [])


def flat_self_calls(stmts, class_node, stop=(), depth=3, _seen=None):
    """Call nodes of the statements in source order, with calls to private helper methods of the same class
    (`self._helper(...)`, not in `stop`) followed by the calls of the helper's body, recursively. Lets ordering and
    who-calls rules look through helpers a refactoring extracted."""
    _seen = _seen or set()
    methods = {n.name: n for n in class_node.body if isinstance(n, (ast.FunctionDef, ast.AsyncFunctionDef))}
    out = []
    for st in (stmts if isinstance(stmts, list) else [stmts]):
        for c in calls(st):
            out.append(c)
            f = c.func
            if isinstance(f, ast.Attribute) and isinstance(f.value, ast.Name) and f.value.id == 'self' \
                    and f.attr in methods and f.attr not in stop and f.attr not in _seen and depth > 0:
                out += flat_self_calls(methods[f.attr].body, class_node, stop, depth - 1, _seen | {f.attr})
    return out


def only_called_from(class_node, name, allowed_callers, module_tree=None):
    """True when every call `self.<name>(...)` in the class (and no other reference in the module) sits in one of the
    allowed caller methods."""
    sites = []
    for m in class_node.body:
        if isinstance(m, (ast.FunctionDef, ast.AsyncFunctionDef)):
            for n in ast.walk(m):
                if isinstance(n, ast.Attribute) and n.attr == name:
                    sites.append(m.name)
    return bool(sites) and all(s in allowed_callers for s in sites)


def root_caller(class_node, method_name, depth=4, anchors=()):
    """Follow single-caller chains of private helpers upwards: a private method referenced from exactly one other
    method of the class is attributed to that method (helpers extracted by a refactoring keep their old identity)."""
    name = method_name
    for _ in range(depth):
        if not name.startswith('_') or name.startswith('__') or name in anchors:
            break
        users = set()
        for m in class_node.body:
            if isinstance(m, (ast.FunctionDef, ast.AsyncFunctionDef)) and m.name != name:
                if any(isinstance(n, ast.Attribute) and n.attr == name for n in ast.walk(m)):
                    users.add(m.name)
        if len(users) != 1:
            break
        name = users.pop()
    return name
