"""Resolution completeness: global names, self attributes and call arities, decided with Python's own
`symtable` scoping (source text only; nothing is imported from pedal)."""
import ast
import importlib
import symtable
import warnings

from .astutil import dotted, walk_local
from .callgraph import resolve_call, class_of_function
from .loader import enclosing_function, enclosing_class
from .symbols import BUILTIN_NAMES, ClassInfo


def unresolved_globals(mod, sym):
    """(name, lineno, scope name) for global names referenced in function scopes that bind nowhere."""
    with warnings.catch_warnings():
        warnings.simplefilter('ignore')
        top = symtable.symtable(mod.source, mod.relpath, 'exec')
    module_names = {s.get_name() for s in top.get_symbols() if s.is_assigned() or s.is_imported()
                    or s.is_namespace()}
    out = []
    checked = 0

    def visit(tab):
        nonlocal checked
        for child in tab.get_children():
            visit(child)
        if tab.get_type() == 'module':
            return
        for s in tab.get_symbols():
            if s.is_referenced() and s.is_global() and not s.is_assigned():
                checked += 1
                name = s.get_name()
                if name in module_names or name in BUILTIN_NAMES:
                    continue
                if sym.lookup(mod.name, name) is not None:
                    continue
                out.append((name, tab.get_lineno(), tab.get_name()))
    visit(top)
    return out, checked


def first_use_line(mod, scope_line, name):
    best = None
    for n in ast.walk(mod.tree):
        if isinstance(n, ast.Name) and n.id == name and isinstance(n.ctx, ast.Load) and n.lineno >= scope_line:
            if best is None or n.lineno < best.lineno:
                best = n
    return best


def external_class(text):
    """Real class object for an external base such as 'ast.NodeVisitor' (stdlib only)."""
    parts = text.split('.')
    if parts[0].startswith('pedal'):
        return None
    try:
        if len(parts) == 1:
            import builtins
            return getattr(builtins, parts[0], None)
        m = importlib.import_module('.'.join(parts[:-1]))
        return getattr(m, parts[-1], None)
    except Exception:
        return None


def class_namespace(sym, ci, include_subclasses=True):
    """All attribute names an instance of ci may legitimately have, or None when an external base is unknown."""
    names = set()
    unknown_external = False
    classes = list(sym.mro(ci))
    if include_subclasses:
        for sub in sym.subclasses(ci, strict=True):
            for c in sym.mro(sub):
                if c not in classes:
                    classes.append(c)
    for c in classes:
        names |= set(c.attrs) | set(c.methods) | set(c.self_attrs)
        for st in c.node.body:
            if isinstance(st, ast.AnnAssign) and isinstance(st.target, ast.Name):
                names.add(st.target.id)
            if isinstance(st, ast.ClassDef):
                names.add(st.name)
        for b in c.bases:
            if not isinstance(b, ClassInfo):
                real = external_class(b[1])
                if real is None:
                    unknown_external = True
                else:
                    names |= set(dir(real))
        # setattr(self, 'x', ...) / self.__dict__ tricks make the namespace open
        for m in c.methods.values():
            for n in ast.walk(m):
                if isinstance(n, ast.Call) and dotted(n.func) == 'setattr' and n.args and \
                        isinstance(n.args[0], ast.Name) and n.args[0].id == 'self':
                    unknown_external = True
        if '__getattr__' in c.methods or '__getattribute__' in c.methods:
            unknown_external = True
    return None if unknown_external else names


def self_attr_misses(sym, ci):
    """(method, Attribute node) for `self.X` loads where X exists nowhere in the class's namespace."""
    ns = class_namespace(sym, ci)
    if ns is None:
        return [], 0
    out = []
    n = 0
    for m in ci.methods.values():
        if not m.args.args or m.args.args[0].arg != 'self':
            continue
        if any(dotted(d) in ('staticmethod', 'classmethod') for d in m.decorator_list):
            continue
        for node in walk_local(m):
            if isinstance(node, ast.Attribute) and isinstance(node.value, ast.Name) and node.value.id == 'self' \
                    and isinstance(node.ctx, ast.Load):
                n += 1
                if node.attr not in ns and not (node.attr.startswith('__') and node.attr.endswith('__')):
                    out.append((m, node))
    return out, n


def signature_of(callee):
    """(min_positional, max_positional or None, keyword names or None, required kw-only) as seen by the caller."""
    fn = callee.fn
    a = fn.args
    decos = [dotted(d) for d in fn.decorator_list]
    if any(d not in ('staticmethod', 'classmethod') for d in decos):
        return None
    pos = [x.arg for x in a.posonlyargs + a.args]
    drop_self = callee.kind in ('method', 'init') and 'staticmethod' not in decos
    if callee.kind == 'func' and callee.cls is not None and 'staticmethod' not in decos and 'classmethod' not in decos:
        drop_self = False   # Cls.method(self, ...) unbound
    if 'classmethod' in decos:
        drop_self = True
    if drop_self and pos:
        pos = pos[1:]
    n_default = len(a.defaults)
    min_pos = len(pos) - n_default
    max_pos = None if a.vararg else len(pos)
    kws = None if a.kwarg else set(pos[len(a.posonlyargs) - (1 if drop_self and a.posonlyargs else 0):]) | \
        {x.arg for x in a.kwonlyargs}
    req_kwonly = {x.arg for x, d in zip(a.kwonlyargs, a.kw_defaults) if d is None}
    return min_pos, max_pos, kws, req_kwonly, pos


def arity_mismatches(sym, mod):
    """Calls in `mod` whose resolved pedal callee cannot accept the arguments. Returns (findings, n_checked)."""
    out = []
    n = 0
    for call in ast.walk(mod.tree):
        if not isinstance(call, ast.Call):
            continue
        if any(isinstance(x, ast.Starred) for x in call.args) or any(k.arg is None for k in call.keywords):
            continue
        fn = enclosing_function(call)
        while fn is not None and not hasattr(fn, '_qualname'):
            fn = enclosing_function(fn)
        if isinstance(fn, ast.Lambda):
            fn = None
        # local names shadow globals: skip calls through a local variable / parameter
        if isinstance(call.func, ast.Name) and fn is not None:
            local = {x.arg for x in fn.args.args + fn.args.kwonlyargs} | \
                {t.id for t in ast.walk(fn) if isinstance(t, ast.Name) and isinstance(t.ctx, ast.Store)}
            if call.func.id in local:
                continue
        callee = resolve_call(sym, mod, call, within=fn)
        if callee is None or not callee.module.name.startswith('pedal'):
            continue
        if isinstance(call.func, ast.Attribute) and isinstance(call.func.value, ast.Name) and \
                call.func.value.id in ('self', 'cls') and callee.kind == 'method':
            pass
        sig = signature_of(callee)
        if sig is None:
            continue
        min_pos, max_pos, kws, req_kwonly, pos = sig
        n += 1
        npos = len(call.args)
        given_kw = {k.arg for k in call.keywords}
        why = None
        if max_pos is not None and npos > max_pos:
            why = "%d positional argument(s) given, at most %d accepted" % (npos, max_pos)
        elif kws is not None and given_kw - kws:
            why = "unexpected keyword argument(s) %s" % sorted(given_kw - kws)
        else:
            covered = set(pos[:npos]) | given_kw
            missing = [p for p in pos[:min_pos] if p not in covered]
            if missing:
                why = "missing required argument(s) %s" % missing
            elif req_kwonly - given_kw:
                why = "missing keyword-only argument(s) %s" % sorted(req_kwonly - given_kw)
            else:
                dup = [p for p in pos[:npos] if p in given_kw]
                if dup:
                    why = "multiple values for argument(s) %s" % dup
        if why:
            out.append((call, callee, why))
    return out, n
