"""Finite-domain table extraction: a whitelist abstract interpreter for tiny pure fragments.

This is constant propagation carried to the end over an enumerated finite domain. Nothing from
pedal is imported, compiled or eval'ed: the interpreter walks the AST of the fragment and only
understands the node kinds listed here. Anything else raises Inconclusive (-> ANALYSIS-ERROR).

Abstract values: ordinary Python constants; ERR (an exception instance); UNKNOWN; Opaque(tag)
(a value of which only the truthiness may be known); Obj (a record of attributes).
"""
import ast
import operator

from .loader import AnalysisError


class Inconclusive(AnalysisError):
    pass


class _Unknown:
    def __repr__(self):
        return 'UNKNOWN'


class _Err:
    """An exception instance produced by student code (abstract)."""

    def __repr__(self):
        return 'ERR'


UNKNOWN = _Unknown()
ERR = _Err()
_MISSING = object()
_ACTIVE_FD = []        # interpreters currently executing a function, innermost last
CURRENT_SYM = [None]   # set by Symbols(): the table of the repository under analysis


class Opaque:
    def __init__(self, tag, truth=None):
        self.tag = tag
        self.truth = truth

    def __repr__(self):
        return 'Opaque(%s)' % self.tag


class Obj:
    def __init__(self, _name='obj', **attrs):
        self._name = _name
        self.attrs = dict(attrs)

    def __repr__(self):
        return '<%s>' % self._name


class _ClassAttrs:
    """Attribute view of a model class: reads follow the bases, writes go to the class's own namespace."""

    def __init__(self, cls):
        self.cls = cls

    def _find(self, key):
        for c in self.cls.mro():
            if key in c.own:
                return c.own
        return None

    def __contains__(self, key):
        return key == '__dict__' or self._find(key) is not None

    def __getitem__(self, key):
        if key == '__dict__':
            return self.cls.own
        d = self._find(key)
        if d is None:
            raise KeyError(key)
        return d[key]

    def get(self, key, default=None):
        return self[key] if key in self else default

    def __setitem__(self, key, value):
        self.cls.own[key] = value

    def setdefault(self, key, value):
        if key not in self:
            self.cls.own[key] = value
        return self[key]

    def items(self):
        seen = {}
        for c in reversed(self.cls.mro()):
            seen.update(c.own)
        return seen.items()


class ClassObj(Obj):
    """A model class object: own namespace + bases; `classmethod:<name>` entries hold FunctionDefs that the
    interpreter calls with the receiving class bound as `cls`."""

    def __init__(self, name, bases=(), **own):
        self._name = name
        self.own = dict(own)
        self.own.setdefault('__name__', name)
        self.own.setdefault('__qualname__', name)
        self.bases = list(bases)
        self.attrs = _ClassAttrs(self)

    def mro(self):
        out = [self]
        for b in self.bases:
            for c in b.mro():
                if c not in out:
                    out.append(c)
        return out

    def __repr__(self):
        return '<class %s>' % self._name


class Raised(Exception):
    def __init__(self, kind, detail='', payload=None):
        self.kind = kind
        self.detail = detail
        self.node = None
        self.payload = payload


class _Break(Exception):
    pass


class _Continue(Exception):
    pass


class _Return(Exception):
    def __init__(self, value):
        self.value = value


def _is_generator_function(fn):
    cached = getattr(fn, '_fd_is_generator', None)
    if cached is None:
        cached = False
        stack = list(getattr(fn, 'body', []))
        while stack:
            n = stack.pop()
            if isinstance(n, (ast.Yield, ast.YieldFrom)):
                cached = True
                break
            if isinstance(n, (ast.FunctionDef, ast.AsyncFunctionDef, ast.Lambda, ast.ClassDef)):
                continue
            stack.extend(ast.iter_child_nodes(n))
        try:
            fn._fd_is_generator = cached
        except AttributeError:
            pass
    return cached


def _dict_method(data, name, args, kwargs):
    """A method of builtin dict applied to the data of an instance of a pedal class that derives dict."""
    if any(isinstance(a, Opaque) or a is UNKNOWN for a in args):
        raise Inconclusive('fdeval: dict.%s on a non-concrete operand' % name)
    try:
        out = getattr(data, name)(*args, **kwargs)
    except KeyError as ex:
        raise Raised('KeyError', str(ex))
    except TypeError as ex:
        raise Raised('TypeError', str(ex))
    if name in ('keys', 'values', 'items'):
        return list(out)
    return out


def truth(v):
    """True / False / None (unknown)."""
    if v is UNKNOWN:
        return None
    if v is ERR:
        return True   # exception instances are truthy (no __bool__/__len__ on BaseException)
    if isinstance(v, Opaque):
        return v.truth
    if isinstance(v, Obj):
        if '__truth__' in v.attrs:
            return v.attrs['__truth__']
        return True
    try:
        return bool(v)
    except Exception as ex:
        raise Raised(type(ex).__name__, str(ex))


_CMP = {
    ast.Eq: operator.eq, ast.NotEq: operator.ne, ast.Lt: operator.lt, ast.LtE: operator.le,
    ast.Gt: operator.gt, ast.GtE: operator.ge,
}
_BIN = {
    ast.Add: operator.add, ast.Sub: operator.sub, ast.Mult: operator.mul, ast.Div: operator.truediv,
    ast.Mod: operator.mod, ast.FloorDiv: operator.floordiv,
}


class FD:
    def __init__(self, calls=None, methods=None, attr_hook=None, max_steps=20000, functions=None,
                 resolver=None):
        self.calls = calls or {}        # dotted name -> callable(*abstract values)
        self.methods = methods or {}    # method name -> callable(receiver, *args)
        self.functions = functions or {}  # dotted name -> FunctionDef interpreted inline
        self.resolver = resolver        # dotted name -> constant (raises KeyError)
        self.attr_hook = attr_hook
        self.binop_hook = None
        self.compare_hook = None
        self.steps = 0
        self.max_steps = max_steps
        self.sym = CURRENT_SYM[0]   # symbol table of the analysed repository (module-aware fallbacks)
        self._mods = []             # stack of the modules of the functions being interpreted
        self._modcache = {}

    # -- expressions -------------------------------------------------------------------------
    def eval(self, e, env):
        self.steps += 1
        if self.steps > self.max_steps:
            raise Inconclusive('fdeval step bound')
        m = getattr(self, 'e_' + type(e).__name__, None)
        if m is None:
            raise Inconclusive('fdeval: unsupported expression %s' % type(e).__name__)
        try:
            return m(e, env)
        except Raised as r:
            if getattr(r, 'node', None) is None:
                r.node = e
            raise

    def e_Constant(self, e, env):
        return e.value

    def e__Lit(self, e, env):
        return e.value

    def e_Name(self, e, env):
        if e.id in env:
            return env[e.id]
        if e.id in ('True', 'False', 'None'):
            return {'True': True, 'False': False, 'None': None}[e.id]
        if e.id == 'NotImplemented' and (self.resolver is None or not _resolves(self.resolver, 'NotImplemented')):
            return NotImplemented
        if self.resolver is not None:
            try:
                return self.resolver(e.id)
            except KeyError:
                pass
        if e.id in self.calls and e.id not in _BUILTINS and e.id not in _BUILTIN_TYPES:
            # a callable the harness models (a class or function), used as a value: `cls = A if flag else B; cls()`
            # (resolver constants come first; the module's own definition of the name comes after the harness's model)
            return self._callable_value(e.id)
        v = self.module_name(e.id)
        if v is not _MISSING:
            return v
        if e.id in _BUILTIN_TYPES:
            return _BUILTIN_TYPES[e.id]
        import builtins as _b
        bt = getattr(_b, e.id, None)
        if isinstance(bt, type) and issubclass(bt, BaseException):
            return bt     # builtin exception classes are data for handler matching / isinstance hooks
        if e.id in _BUILTINS:
            return _BUILTINS[e.id]     # a modelled builtin used as a value (key=len)
        if e.id in self.calls:
            # a callable the harness models (a class or function), used as a value: `cls = A if flag else B; cls()`
            # (only when nothing else gives the name a value: resolver constants and module bindings come first)
            return self._callable_value(e.id)
        raise Inconclusive('fdeval: unbound name %s' % e.id)

    def _super_proxy(self, cls, obj):
        """super() inside a method of pedal class `cls`: methods are looked up in cls's pedal base classes; a base class
        outside pedal (io.StringIO, Exception, ...) has an __init__ that is taken to do nothing a model needs."""
        def info(c):
            return self.sym.classes.get((getattr(c, '_module', None).name if getattr(c, '_module', None) else None,
                                         getattr(c, '_qualname', c.name)))
        ci = info(cls)
        # cooperative super(): continue in the MRO of the *instance's* class after `cls` (a mixin's super() reaches
        # the next class of the concrete type, not the mixin's own base)
        inst_cls = obj.attrs.get('__classdef__') if isinstance(obj, Obj) else None
        ici = info(inst_cls) if inst_cls is not None else None
        bases = []
        if ici is not None:
            chain = self.sym.mro(ici)
            for i, k in enumerate(chain):
                if getattr(k, 'node', None) is cls:
                    bases = chain[i + 1:]
                    break
        if not bases and ci is not None:
            bases = self.sym.mro(ci)[1:]
        external = ci is None or any(not hasattr(b, 'node') for b in getattr(ci, 'bases', [])) or not bases
        proxy = Obj('super(%s)' % cls.name)

        def lookup(name, *a, **k):
            for b in bases:
                fn = b.methods.get(name) if hasattr(b, 'methods') else None
                if fn is not None:
                    return self.call_function(fn, list(a), k, bound_self=obj)
            if isinstance(obj, Obj) and '__dictdata__' in obj.attrs and hasattr(dict, name):
                return _dict_method(obj.attrs['__dictdata__'], name, a, k)
            if name == '__init__' and external:
                return None
            raise Inconclusive('fdeval: super().%s of %s' % (name, cls.name))
        proxy.attrs['__unknown_method__'] = lookup
        return proxy

    def _callable_value(self, name):
        cache = self.__dict__.setdefault('_callable_values', {})
        if name not in cache:
            target = self.calls[name]

            def standin(*a, **k):
                return target(*a, **k)
            standin._fd_callable = True
            standin._fd_name = name
            cache[name] = standin
        return cache[name]

    def module_name(self, name):
        """Value of a global name as seen from the module of the function being interpreted: a module-level constant
        (evaluated by this interpreter, cached so that mutable module state is shared like at run time) or a pedal
        function (interpreted inline when called). Classes are left to the harness."""
        if self.sym is None or not self._mods or self._mods[-1] is None:
            return _MISSING
        mod = self._mods[-1]
        key = (mod.name, name)
        if key in self._modcache:
            return self._modcache[key]
        b = self.sym.lookup(mod.name, name)
        seen = 0
        while b is not None and b.kind == 'importfrom' and b.target in self.sym.repo.modules and seen < 6:
            sub = '%s.%s' % (b.target, b.attr)
            if sub in self.sym.repo.modules and self.sym.lookup(b.target, b.attr) is None:
                # `from pedal.sandbox import mocked`: a sub-module
                v = ModRef(self.sym.repo.modules[sub])
                self._modcache[key] = v
                return v
            mod = self.sym.repo.modules[b.target]
            b = self.sym.lookup(b.target, b.attr)
            seen += 1
        if b is None:
            return _MISSING
        if b.kind == 'importfrom' and (b.target, b.attr) in _PURE_STDLIB:
            f = _PURE_STDLIB[(b.target, b.attr)]
            v = f if getattr(f, '_fd_callable', False) else _pure(f, '%s.%s' % (b.target, b.attr))
            self._modcache[key] = v
            return v
        if b.kind == 'importfrom' and b.target == 'operator' and b.attr:
            import operator as _op
            f = getattr(_op, b.attr, None)
            if f is not None:
                # `from operator import iadd`: pure functions of their (concrete) operands
                def opfn(*a, _f=f, _n=b.attr):
                    if any(isinstance(x, (Obj, Opaque)) or x is UNKNOWN for x in a):
                        raise Inconclusive('fdeval: operator.%s on a non-concrete operand' % _n)
                    try:
                        return _f(*a)
                    except (TypeError, ZeroDivisionError, ValueError) as ex:
                        raise Raised(type(ex).__name__, str(ex))
                opfn._fd_callable = True
                self._modcache[key] = opfn
                return opfn
        if b.kind == 'import' and b.target in self.sym.repo.modules and getattr(b.node, 'names', None) and any(
                a.asname == name and a.name == b.target for a in b.node.names):
            v = ModRef(self.sym.repo.modules[b.target])     # `import pedal.sandbox.mocked as mocked`
            self._modcache[key] = v
            return v
        if b.kind == 'class' and isinstance(b.node, ast.ClassDef):
            cls, cmod = b.node, b.module

            def construct(*args, **kwargs):
                # a pedal class the harness did not stub: an instance whose methods are the class's own,
                # initialised by interpreting its constructor
                from .astutil import dotted as _dotted
                modelled = [_dotted(b_) for b_ in cls.bases if _dotted(b_) in self.calls]
                # an external base class the harness models (ast.NodeVisitor): the instance starts as that model
                o = self.calls[modelled[0]]() if modelled else Obj(cls.name)
                if not isinstance(o, Obj):
                    o = Obj(cls.name)
                o.attrs['__classdef__'] = cls
                init = self.class_method(o, '__init__')
                if init is None and any(_dotted(b_) == 'dict' for b_ in cls.bases) and 'dict' not in self.calls:
                    # a table class deriving builtin dict without a constructor of its own: its entries
                    try:
                        o.attrs['__dictdata__'] = dict(*args, **kwargs)
                    except (TypeError, ValueError) as ex:
                        raise Raised(type(ex).__name__, str(ex))
                if init is not None:
                    self._mods.append(cmod)
                    try:
                        init(*args, **kwargs)
                    finally:
                        self._mods.pop()
                return o
            construct._fd_callable = True
            construct._fd_class = cls
            self._modcache[key] = construct
            return construct
        if b.kind == 'func' and isinstance(b.node, ast.FunctionDef):
            fn = b.node

            def call(*args, **kwargs):
                return self.call_function(fn, list(args), kwargs)
            call._fd_callable = True
            call._fd_def = fn
            self._modcache[key] = call
            return call
        if b.kind == 'assign' and b.node is not None:
            self._mods.append(b.module)
            try:
                v = self.eval(b.node, {})
            except (Inconclusive, Raised):
                # a module-level object the interpreter cannot build (MAIN_REPORT = Report()): an opaque value,
                # distinct from everything else
                v = Obj('%s.%s' % (b.module.name, name))
                v.attrs['__open__'] = True
            finally:
                self._mods.pop()
            self._modcache[key] = v
            return v
        return _MISSING

    def e_Attribute(self, e, env):
        from .astutil import dotted
        d = dotted(e)
        if d is not None and d in env:
            return env[d]
        if d is not None and self.resolver is not None and d.split('.')[0] not in env:
            try:
                return self.resolver(d)
            except KeyError:
                pass
        if d is not None and d in self.calls and d.split('.')[0] not in env:
            # a dotted callable the harness models (io.StringIO), used as a value: `cls = io.StringIO if ... else Other`
            return self._callable_value(d)
        if d is not None and d.count('.') == 1 and self.sym is not None and self._mods and self._mods[-1] is not None \
                and d.split('.')[0] not in env:
            # `import operator as _operator`: canonical name of a stdlib module imported under an alias
            b = self.sym.lookup(self._mods[-1].name, d.split('.')[0])
            if b is not None and b.kind == 'import' and b.target in ('operator', 're', 'math', 'ast', 'sys'):
                d = b.target + '.' + e.attr
        if d is not None and d.count('.') == 1 and self.sym is not None and self._mods and self._mods[-1] is not None \
                and d.split('.')[0] not in env:
            # ClassName.attr for a pedal class: the class-level assignment, evaluated in the class's module
            from .symbols import ClassInfo as _CI
            try:
                ci = self.sym.resolve_name(self._mods[-1], d.split('.')[0])
            except Exception:
                ci = None
            if isinstance(ci, _CI):
                for k in self.sym.mro(ci):
                    expr = k.attrs.get(e.attr)
                    if expr is not None:
                        self._mods.append(k.module)
                        try:
                            return self.eval(expr, {})
                        except Inconclusive:
                            break
                        finally:
                            self._mods.pop()
                    fn_ = k.methods.get(e.attr) if hasattr(k, 'methods') else None
                    if fn_ is not None:
                        # ClassName.method used as a value: the plain function (self is the first argument)
                        decos = [dotted(x) for x in fn_.decorator_list]
                        if 'staticmethod' in decos:
                            unbound = (lambda f: (lambda *a, **kw: self.call_function(f, list(a), kw)))(fn_)
                        elif 'classmethod' in decos or 'property' in decos:
                            break
                        else:
                            unbound = (lambda f: (lambda *a, **kw: self.call_function(f, list(a[1:]), kw,
                                                                                      bound_self=a[0])))(fn_)
                        unbound._fd_callable = True
                        unbound._fd_def = fn_
                        return unbound
        if d is not None and d.startswith('ast.') and d.count('.') == 1 and 'ast' not in env:
            import ast as _ast
            if isinstance(getattr(_ast, e.attr, None), type):
                return d    # an ast class, kept symbolic ('ast.Lt'); isinstance hooks of the harness interpret it
        if d is not None and d.startswith('operator.') and d.count('.') == 1 and 'operator' not in env:
            import operator as _op
            f = getattr(_op, e.attr, None)
            if callable(f):
                def opfn(*a, _f=f):
                    if any(x is UNKNOWN or isinstance(x, (Opaque, Obj)) for x in a):
                        raise Inconclusive('fdeval: operator.%s on a non-concrete operand' % e.attr)
                    try:
                        return _f(*a)
                    except ZeroDivisionError:
                        raise Raised('ZeroDivisionError')
                    except TypeError as ex:
                        raise Raised('TypeError', str(ex))
                opfn._fd_callable = True
                return opfn
        if d in ('sys.version_info', 'sys.platform') and 'sys' not in env:
            # the platform the analysis (and the pinned suite) runs on: CPython of /venv, not Skulpt
            import sys as _sys
            return tuple(_sys.version_info) if d == 'sys.version_info' else _sys.platform
        if d is not None and d.count('.') == 1 and d.split('.')[0] in ('re', 'math', 'string') and \
                d.split('.')[0] not in env:
            # plain constants of a few stdlib modules (re.MULTILINE, math.inf, string.punctuation): data, not code
            import importlib
            v = getattr(importlib.import_module(d.split('.')[0]), e.attr, _MISSING)
            if isinstance(v, (int, float, str)):
                return v
        base = self.eval(e.value, env)
        if isinstance(base, ModRef):
            return self.modref_attr(base, e.attr)
        if isinstance(base, Obj):
            if e.attr in base.attrs:
                return base.attrs[e.attr]
            if ('method:' + e.attr) in base.attrs:
                bound = base.attrs['method:' + e.attr]      # a bound method used as a value
                if not getattr(bound, '_fd_callable', False):
                    bound = (lambda f: (lambda *a, **k: f(*a, **k)))(bound)
                    bound._fd_callable = True
                return bound
            if '__classdef__' in base.attrs and e.attr == '__class__':
                # the class of a model instance of a pedal class: that class as a value (its constructor stand-in)
                cd_ = base.attrs['__classdef__']
                if getattr(cd_, '_module', None) is not None and self.sym is not None:
                    self._mods.append(cd_._module)
                    try:
                        v = self.module_name(cd_.name)
                    finally:
                        self._mods.pop()
                    if v is not _MISSING and getattr(v, '_fd_class', None) is cd_:
                        return v
            if '__classdef__' in base.attrs and not (e.attr.startswith('__') and e.attr.endswith('__')):
                pv = self.class_property(base, e.attr)
                if pv is not _MISSING:
                    return pv
                bm = self.class_method(base, e.attr)
                if bm is not None:
                    bm = (lambda f: (lambda *a, **k: f(*a, **k)))(bm)
                    bm._fd_callable = True
                    return bm
                cv = self.class_constant(base, e.attr)
                if cv is not _MISSING:
                    return cv
                ga = self.class_method(base, '__getattr__')
                if ga is not None:
                    return ga(e.attr)   # the class's own __getattr__, interpreted
            if '__unknown_attr__' in base.attrs:
                # a stand-in that knows how to look further (a module stand-in evaluating the module's own tables)
                v = base.attrs['__unknown_attr__'](e.attr)
                if v is not _MISSING:
                    base.attrs[e.attr] = v
                    return v
            if base.attrs.get('__closed__'):
                raise Raised('AttributeError', '%r object has no attribute %r' % (base._name, e.attr))
            if base.attrs.get('__open__'):
                # open-world object of a symbolic harness: an attribute the harness did not model is some other,
                # distinct value (it is never equal to any marker the rule looks for)
                v = Obj('%s.%s' % (base._name, e.attr))
                v.attrs['__open__'] = True
                base.attrs[e.attr] = v
                return v
            raise Inconclusive('fdeval: %r has no modelled attribute %s' % (base, e.attr))
        if isinstance(getattr(base, '_fd_class', None), ast.ClassDef):
            # a pedal class used as a value: its class-level constants (through the MRO)
            probe = Obj('class-probe')
            probe.attrs['__classdef__'] = base._fd_class
            cv = self.class_constant(probe, e.attr)
            if cv is not _MISSING:
                return cv
            if e.attr in ('__name__', '__qualname__'):
                return base._fd_class.name
        if isinstance(base, type) and e.attr in ('__name__', '__qualname__'):
            return base.__name__
        if (base is None or isinstance(base, (int, float, str, bytes, bool, complex))) and not hasattr(base, e.attr) \
                and self.attr_hook is None:
            # a concrete value that simply has no such attribute: CPython's answer is AttributeError
            raise Raised('AttributeError', "'%s' object has no attribute '%s'" % (type(base).__name__, e.attr))
        if self.attr_hook is not None:
            return self.attr_hook(base, e.attr)
        if base is UNKNOWN:
            return UNKNOWN
        raise Inconclusive('fdeval: attribute %s of %r' % (e.attr, base))

    def e_JoinedStr(self, e, env):
        parts = []
        concrete = True
        for v in e.values:
            if isinstance(v, ast.Constant):
                parts.append(str(v.value))
            elif isinstance(v, ast.FormattedValue) and v.conversion == -1 and v.format_spec is None:
                x = self.eval(v.value, env)
                if isinstance(x, (str, int, float, bool)) or x is None:
                    parts.append(str(x))
                else:
                    concrete = False
            else:
                concrete = False
        if concrete:
            return ''.join(parts)
        return Opaque('fstring', truth=True if any(isinstance(v, ast.Constant) and v.value
                                                   for v in e.values) else None)

    def iterate(self, it, what='iteration'):
        """Items of an iterable value: concrete containers directly; model objects through their class's own
        __iter__ or (legacy protocol) __getitem__ with 0, 1, 2, ... until IndexError."""
        if isinstance(it, Obj):
            m = it.attrs.get('method:__iter__') or self.class_method(it, '__iter__')
            if m is not None:
                return self.iterate(m(), what)
            if '__dictdata__' in it.attrs:
                return list(it.attrs['__dictdata__'])
            g = it.attrs.get('method:__getitem__') or self.class_method(it, '__getitem__')
            if g is not None and '__classdef__' in it.attrs:
                out = []
                for i in range(10000):
                    try:
                        out.append(g(i))
                    except Raised as r:
                        if r.kind == 'IndexError':
                            return out
                        raise
                raise Inconclusive('fdeval: unbounded __getitem__ iteration')
            raise Inconclusive('fdeval: %s over a non-concrete iterable' % what)
        if it is UNKNOWN or isinstance(it, Opaque) or it is ERR:
            raise Inconclusive('fdeval: %s over a non-concrete iterable' % what)
        try:
            return list(it)
        except TypeError as ex:
            raise Raised('TypeError', str(ex))

    def _comprehend(self, generators, env, emit):
        """Run the generator clauses (possibly several) and call emit(inner_env) for every binding."""
        if any(g.is_async for g in generators):
            raise Inconclusive('fdeval: async comprehension')

        def go(i, inner):
            if i == len(generators):
                emit(inner)
                return
            g = generators[i]
            items = self.iterate(self.eval(g.iter, inner), 'comprehension')
            for item in items:
                self.assign(g.target, item, inner)
                if all(truth(self.eval(c, inner)) for c in g.ifs):
                    go(i + 1, inner)
        go(0, dict(env))

    def e_ListComp(self, e, env):
        out = []
        self._comprehend(e.generators, env, lambda inner: out.append(self.eval(e.elt, inner)))
        return out

    def e_DictComp(self, e, env):
        out = {}

        def emit(inner):
            out[self.eval(e.key, inner)] = self.eval(e.value, inner)
        self._comprehend(e.generators, env, emit)
        return out

    def e_SetComp(self, e, env):
        return set(self.e_ListComp(e, env))

    def e_Set(self, e, env):
        return {self.eval(x, env) for x in e.elts}

    def e_Lambda(self, e, env):
        params = [a.arg for a in e.args.args]
        vararg = e.args.vararg.arg if e.args.vararg else None

        def f(*args):
            inner = dict(env)
            for p, a in zip(params, args):
                inner[p] = a
            if vararg:
                inner[vararg] = tuple(args[len(params):])
            # a lambda stored in a module-level table was built by the interpreter that evaluated the table; it runs
            # under the interpreter that calls it (whose harness models isinstance, type, ...)
            runner = _ACTIVE_FD[-1] if _ACTIVE_FD else self
            return runner.eval(e.body, inner)
        return f

    def e_GeneratorExp(self, e, env):
        return self.e_ListComp(e, env)

    def e_Tuple(self, e, env):
        return tuple(self.eval(x, env) for x in e.elts)

    def e_List(self, e, env):
        return [self.eval(x, env) for x in e.elts]

    def e_Dict(self, e, env):
        out = {}
        for k, v in zip(e.keys, e.values):
            if k is None:
                inner = self.eval(v, env)
                if not isinstance(inner, dict):
                    raise Inconclusive('fdeval: ** of a non-dict')
                out.update(inner)
            else:
                out[self.eval(k, env)] = self.eval(v, env)
        return out

    def e_UnaryOp(self, e, env):
        v = self.eval(e.operand, env)
        if isinstance(e.op, ast.Not):
            t = truth(v)
            return UNKNOWN if t is None else (not t)
        if v is UNKNOWN:
            return UNKNOWN
        if v is ERR:
            raise Raised('TypeError', 'unary op on exception')
        if isinstance(e.op, ast.USub):
            return -v
        if isinstance(e.op, ast.UAdd):
            return +v
        raise Inconclusive('fdeval: unary %s' % type(e.op).__name__)

    def e_BoolOp(self, e, env):
        is_and = isinstance(e.op, ast.And)
        unknown_seen = False
        last = None
        for sub in e.values:
            v = self.eval(sub, env)
            t = truth(v)
            last = v
            if t is None:
                unknown_seen = True
                continue
            if is_and and not t:
                return UNKNOWN if unknown_seen else v
            if not is_and and t:
                return UNKNOWN if unknown_seen else v
        return UNKNOWN if unknown_seen else last

    def e_IfExp(self, e, env):
        t = truth(self.eval(e.test, env))
        if t is None:
            a = self.eval(e.body, env)
            b = self.eval(e.orelse, env)
            return a if _same(a, b) else UNKNOWN
        return self.eval(e.body if t else e.orelse, env)

    def e_Compare(self, e, env):
        left = self.eval(e.left, env)
        result = True
        for op, rnode in zip(e.ops, e.comparators):
            right = self.eval(rnode, env)
            r = self.compare(op, left, right)
            if len(e.ops) == 1 and self.compare_hook is not None and not isinstance(r, bool) and r is not UNKNOWN:
                return r    # symbolic comparison result supplied by the rule
            t = truth(r)
            if t is None:
                result = UNKNOWN
            elif not t:
                return False
            left = right
        return result

    def compare(self, op, left, right):
        if self.compare_hook is not None and (isinstance(left, Obj) or isinstance(right, Obj)):
            r = self.compare_hook(op, left, right)
            if r is not NotImplemented:
                return r
        return self._compare(op, left, right)

    def _compare(self, op, left, right):
        if isinstance(op, (ast.Is, ast.IsNot)):
            if left is UNKNOWN or right is UNKNOWN:
                return UNKNOWN
            if left is ERR or right is ERR:
                same = left is right and False  # an exception instance is no other operand
                if left is ERR and right is ERR:
                    return UNKNOWN
                return same if isinstance(op, ast.Is) else not same
            if isinstance(left, (Opaque, Obj)) or isinstance(right, (Opaque, Obj)):
                if left is None or right is None:
                    same = False
                else:
                    same = left is right
                return same if isinstance(op, ast.Is) else not same
            if getattr(type(left), '_fd_identity', False) or getattr(type(right), '_fd_identity', False) or \
                    isinstance(left, (list, dict, set)) or isinstance(right, (list, dict, set)):
                same = left is right
            else:
                same = (left is right) if (left is None or right is None or isinstance(left, bool)
                                           or isinstance(right, bool)) else (type(left) is type(right)
                                                                              and left == right)
                if same and left is not right and not _cached_by_cpython(left):
                    # two separately created equal numbers / texts are two objects
                    same = False
            return same if isinstance(op, ast.Is) else not same
        if isinstance(op, (ast.In, ast.NotIn)):
            if right is UNKNOWN or left is UNKNOWN:
                return UNKNOWN
            if right is ERR:
                raise Raised('TypeError', 'exception is not iterable')
            if isinstance(right, Opaque):
                if right.tag in ('container',):
                    return (left is not ERR and UNKNOWN) if left is not ERR else \
                        (False if isinstance(op, ast.In) else True)
                return UNKNOWN
            if left is ERR:
                if isinstance(right, str):
                    raise Raised('TypeError', "'in <string>' requires string as left operand")
                found = False
            elif isinstance(right, Obj):
                cm = right.attrs.get('method:__contains__') or self.class_method(right, '__contains__')
                if cm is not None:
                    found = truth(cm(left))
                else:
                    found = any(x is left or (not isinstance(x, (Obj, Opaque)) and not isinstance(left, (Obj, Opaque))
                                              and x == left) for x in self.iterate(right, 'membership test'))
            elif isinstance(left, Opaque):
                return UNKNOWN
            elif isinstance(left, Obj):
                # a model object without a modelled __eq__: membership in a concrete container is by identity
                if isinstance(right, dict):
                    found = any(k is left for k in right)
                elif isinstance(right, (list, tuple, set, frozenset)):
                    found = any(x is left for x in right)
                else:
                    return UNKNOWN
            else:
                try:
                    found = left in right
                except TypeError:
                    raise Raised('TypeError', 'in')
            return found if isinstance(op, ast.In) else not found
        if left is UNKNOWN or right is UNKNOWN:
            return UNKNOWN
        if isinstance(op, (ast.Eq, ast.NotEq)):
            if left is ERR or right is ERR:
                if left is ERR and right is ERR:
                    return UNKNOWN
                eq = False
            elif isinstance(left, (Opaque, Obj)) or isinstance(right, (Opaque, Obj)):
                if left is right:
                    eq = True
                else:
                    return UNKNOWN
            else:
                try:
                    eq = bool(left == right)
                except Exception as ex:
                    raise Raised(type(ex).__name__, str(ex))
            return eq if isinstance(op, ast.Eq) else not eq
        # ordering
        if left is ERR or right is ERR:
            raise Raised('TypeError', 'ordering comparison with an exception instance')
        if isinstance(left, (Opaque, Obj)) or isinstance(right, (Opaque, Obj)):
            return UNKNOWN
        try:
            return _CMP[type(op)](left, right)
        except TypeError:
            raise Raised('TypeError', 'ordering')

    def e_BinOp(self, e, env):
        a = self.eval(e.left, env)
        b = self.eval(e.right, env)
        if self.binop_hook is not None and (isinstance(a, Obj) or isinstance(b, Obj)):
            return self.binop_hook(e.op, a, b)
        if a is UNKNOWN or b is UNKNOWN:
            return UNKNOWN
        if a is ERR or b is ERR:
            raise Raised('TypeError', 'arithmetic on exception')
        if isinstance(a, (Opaque, Obj)) or isinstance(b, (Opaque, Obj)):
            return UNKNOWN
        f = _BIN.get(type(e.op))
        if f is None:
            raise Inconclusive('fdeval: binop %s' % type(e.op).__name__)
        try:
            return f(a, b)
        except ZeroDivisionError:
            raise Raised('ZeroDivisionError')
        except TypeError:
            raise Raised('TypeError')

    def e_Subscript(self, e, env):
        base = self.eval(e.value, env)
        if isinstance(e.slice, ast.Slice):
            lo = self.eval(e.slice.lower, env) if e.slice.lower else None
            hi = self.eval(e.slice.upper, env) if e.slice.upper else None
            if base is UNKNOWN or lo is UNKNOWN or hi is UNKNOWN:
                return UNKNOWN
            if isinstance(base, (str, bytes, list, tuple)):
                try:
                    return base[lo:hi]
                except TypeError as ex:
                    raise Raised('TypeError', str(ex))
            if isinstance(base, (set, frozenset, int, float, bool, type(None), dict)):
                raise Raised('TypeError', "%r object is not subscriptable" % type(base).__name__)
            if isinstance(base, Obj) and 'method:__getitem__' in base.attrs:
                return base.attrs['method:__getitem__'](slice(lo, hi))
            raise Inconclusive('fdeval: slice of %r' % (base,))
        idx = self.eval(e.slice, env)
        if base is UNKNOWN or idx is UNKNOWN:
            return UNKNOWN
        if base is ERR:
            raise Raised('TypeError', 'subscript of exception')
        if isinstance(base, (dict, list, tuple, str)):
            try:
                return base[idx]
            except KeyError:
                raise Raised('KeyError', repr(idx))
            except IndexError:
                raise Raised('IndexError', repr(idx))
            except TypeError:
                raise Raised('TypeError', repr(idx))
        if isinstance(base, Obj):
            if 'method:__getitem__' in base.attrs:
                return base.attrs['method:__getitem__'](idx)
            if '__classdef__' in base.attrs and '__dictdata__' in base.attrs:
                m_ = self.class_method(base, '__getitem__')
                if m_ is not None:
                    return m_(idx)
                return _dict_method(base.attrs['__dictdata__'], '__getitem__', (idx,), {})
            raise Raised('TypeError', "%r object is not subscriptable" % base._name)
        if isinstance(base, (set, frozenset, int, float, bool, type(None))):
            raise Raised('TypeError', "%r object is not subscriptable" % type(base).__name__)
        raise Inconclusive('fdeval: subscript of %r' % (base,))

    def e_Call(self, e, env):
        from .astutil import dotted
        name = dotted(e.func)
        star_kwargs = {}
        if e.keywords and any(k.arg is None for k in e.keywords):
            for k in e.keywords:
                if k.arg is None:
                    v = self.eval(k.value, env)
                    if not isinstance(v, dict):
                        raise Inconclusive('fdeval: **kwargs of a non-concrete value')
                    star_kwargs.update(v)
            e = ast.Call(func=e.func, args=e.args, keywords=[k for k in e.keywords if k.arg is not None])
        if any(isinstance(a, ast.Starred) for a in e.args):
            flat = []
            for a in e.args:
                if isinstance(a, ast.Starred):
                    v = self.eval(a.value, env)
                    if not isinstance(v, (tuple, list)):
                        raise Inconclusive('fdeval: *args of a non-concrete value')
                    flat.extend(ast.Constant(value=x) if isinstance(x, (int, float, str, bool, type(None)))
                                else _Lit(x) for x in v)
                else:
                    flat.append(a)
            e = ast.Call(func=e.func, args=flat, keywords=e.keywords)
        if name in self.calls:
            args = [self.eval(a, env) for a in e.args]
            kwargs = {k.arg: self.eval(k.value, env) for k in e.keywords}
            kwargs.update(star_kwargs)
            return self.calls[name](*args, **kwargs)
        if name == 'super' and not e.args and '__super_of__' in env and self.sym is not None:
            return self._super_proxy(*env['__super_of__'])
        if name in ('setattr', 'getattr', 'hasattr', 'delattr') and name not in env and len(e.args) >= 2:
            # reflection on model objects with a concrete attribute name
            args = [self.eval(a, env) for a in e.args]
            o, attr = args[0], args[1]
            if isinstance(o, Obj) and isinstance(attr, str):
                if name == 'setattr':
                    o.attrs[attr] = args[2]
                    return None
                if name == 'hasattr':
                    return attr in o.attrs or ('method:' + attr) in o.attrs or (
                        '__classdef__' in o.attrs and self.class_method(o, attr) is not None)
                if name == 'delattr':
                    if isinstance(o, ClassObj):
                        o.own.pop(attr, None)
                    else:
                        o.attrs.pop(attr, None)
                    return None
                try:
                    return self.eval(ast.Attribute(value=_Lit(o), attr=attr, ctx=ast.Load()), env)
                except Raised as r:
                    if r.kind == 'AttributeError' and len(args) >= 3:
                        return args[2]
                    raise
            raise Inconclusive('fdeval: %s on %r' % (name, o))
        if name in ('len', 'bool', 'str', 'repr', 'iter') and name not in env and len(e.args) == 1 and not e.keywords:
            # a builtin applied to a model instance of a pedal class that defines the corresponding dunder
            v = self.eval(e.args[0], env)
            if isinstance(v, Obj) and '__classdef__' in v.attrs and ('method:__%s__' % name) not in v.attrs:
                m = self.class_method(v, '__%s__' % name)
                if m is not None:
                    return m()
            e = ast.Call(func=e.func, args=[_Lit(v)], keywords=[])
        if name in self.functions:
            args = [self.eval(a, env) for a in e.args]
            kwargs = {k.arg: self.eval(k.value, env) for k in e.keywords}
            kwargs.update(star_kwargs)
            return self.call_function(self.functions[name], args, kwargs)
        if name in _BUILTINS and '.' in name:
            return _BUILTINS[name](*[self.eval(a, env) for a in e.args])
        if isinstance(e.func, ast.Name) and e.func.id in env and (
                env[e.func.id] is None or isinstance(env[e.func.id], (int, float, str, list, dict, tuple, set))):
            raise Raised('TypeError', "'%s' object is not callable" % type(env[e.func.id]).__name__)
        if isinstance(e.func, ast.Name) and e.func.id in env and callable(env[e.func.id]):
            args = [self.eval(a, env) for a in e.args]
            kwargs = {k.arg: self.eval(k.value, env) for k in e.keywords}
            kwargs.update(star_kwargs)
            return env[e.func.id](*args, **kwargs)
        if isinstance(e.func, ast.Attribute) and isinstance(e.func.value, ast.Name) and e.func.value.id not in env \
                and e.func.value.id in self.calls and self.sym is not None and self._mods and self._mods[-1] is not None:
            # Stub.classmethod(...): the class is modelled by the harness (its constructor is a stub), the classmethod
            # is pedal's own - interpreted with `cls` bound to the stub, so that `cls(...)` constructs through it
            from .symbols import ClassInfo as _CI0
            try:
                ci0 = self.sym.resolve_name(self._mods[-1], e.func.value.id)
            except Exception:
                ci0 = None
            if isinstance(ci0, _CI0):
                for k in self.sym.mro(ci0):
                    fn0 = k.methods.get(e.func.attr) if hasattr(k, 'methods') else None
                    if fn0 is not None and 'classmethod' in [dotted(x) for x in fn0.decorator_list]:
                        args = [self.eval(a, env) for a in e.args]
                        kwargs = {kk.arg: self.eval(kk.value, env) for kk in e.keywords}
                        kwargs.update(star_kwargs)
                        return self.call_function(fn0, args, kwargs, bound_self=self._callable_value(e.func.value.id))
        if isinstance(e.func, ast.Attribute) and isinstance(e.func.value, ast.Name) and e.func.value.id not in env \
                and self.sym is not None and self._mods and self._mods[-1] is not None:
            # ClassName.method(obj, ...): the plain function of a pedal class, called unbound
            from .symbols import ClassInfo as _CI
            try:
                ci = self.sym.resolve_name(self._mods[-1], e.func.value.id)
            except Exception:
                ci = None
            if isinstance(ci, _CI):
                for k in self.sym.mro(ci):
                    fn = k.methods.get(e.func.attr) if hasattr(k, 'methods') else None
                    if fn is not None:
                        args = [self.eval(a, env) for a in e.args]
                        kwargs = {kk.arg: self.eval(kk.value, env) for kk in e.keywords}
                        kwargs.update(star_kwargs)
                        decos = [dotted(d) for d in fn.decorator_list]
                        if 'staticmethod' in decos:
                            return self.call_function(fn, args, kwargs)
                        if 'classmethod' in decos:
                            break
                        if not args:
                            break
                        return self.call_function(fn, args[1:], kwargs, bound_self=args[0])
        if name and name.count('.') == 1 and name.split('.')[0] in ('math', 'operator', 're', 'itertools', 'functools') \
                and name.split('.')[0] not in env:
            import importlib
            if not hasattr(importlib.import_module(name.split('.')[0]), name.split('.')[1]):
                # a function the standard module simply does not have (math.truncate): CPython raises AttributeError
                raise Raised('AttributeError', "module '%s' has no attribute '%s'" % tuple(name.split('.')))
        if name in _PURE_DOTTED and name.split('.')[0] not in env and name not in self.calls:
            # a pure text function of the standard library on concrete operands: its value is what the library says
            args = [self.eval(a, env) for a in e.args]
            kwargs = {k.arg: self.eval(k.value, env) for k in e.keywords}
            return _pure(_PURE_DOTTED[name], name)(*args, **kwargs)
        if isinstance(e.func, ast.Attribute):
            recv = self.eval(e.func.value, env)
            args = [self.eval(a, env) for a in e.args]
            kwargs = {k.arg: self.eval(k.value, env) for k in e.keywords}
            kwargs.update(star_kwargs)
            return self.call_method(recv, e.func.attr, args, kwargs)
        if name in _BUILTINS:
            args = [self.eval(a, env) for a in e.args]
            kw = {k.arg: self.eval(k.value, env) for k in e.keywords}
            return _BUILTINS[name](*args, **kw)
        if name is None:
            f = self.eval(e.func, env)
            if callable(f):
                return f(*[self.eval(a, env) for a in e.args])
        if isinstance(e.func, ast.Name):
            # a first-class callable stand-in supplied by the resolver (class or function used as a value)
            try:
                f = self.eval(e.func, env)
            except Inconclusive:
                f = None
            if getattr(f, '_fd_callable', False):
                kwargs = {k.arg: self.eval(k.value, env) for k in e.keywords}
                kwargs.update(star_kwargs)
                return f(*[self.eval(a, env) for a in e.args], **kwargs)
        if name in ('isinstance', 'issubclass') and len(e.args) == 2 and not e.keywords:
            return self._default_isinstance(name, self.eval(e.args[0], env), self.eval(e.args[1], env))
        raise Inconclusive('fdeval: call of %s' % (name or ast.unparse(e.func)))

    def _default_isinstance(self, name, o, t):
        """isinstance / issubclass where the harness models neither: decided for concrete values against builtin types
        and for instances of pedal classes against pedal classes; anything else is outside the fragment."""
        ts = t if isinstance(t, tuple) else (t,)
        ts = tuple(type if x is _BUILTINS.get('type') else x for x in ts)     # the name `type` used as a class
        py = tuple(x for x in ts if isinstance(x, type))
        pedal = [x for x in ts if isinstance(getattr(x, '_fd_class', None), ast.ClassDef)]
        if len(py) + len(pedal) != len(ts):
            raise Inconclusive('fdeval: %s against %r' % (name, t))
        if name == 'issubclass':
            if isinstance(o, type):
                return bool(py) and issubclass(o, py)
            raise Inconclusive('fdeval: issubclass of %r' % (o,))
        if o is UNKNOWN or isinstance(o, Opaque) or o is ERR:
            raise Inconclusive('fdeval: isinstance of a non-concrete value')
        if isinstance(o, Obj):
            cd = o.attrs.get('__classdef__')
            if cd is None or self.sym is None or getattr(cd, '_module', None) is None:
                raise Inconclusive('fdeval: isinstance of a model object of no known class')
            ci = self.sym.classes.get((cd._module.name, getattr(cd, '_qualname', cd.name)))
            if ci is None:
                raise Inconclusive('fdeval: isinstance of a model object of no known class')
            mro = list(self.sym.mro(ci))
            if any(getattr(k, 'node', None) is x._fd_class for k in mro for x in pedal):
                return True
            if py and not all(getattr(k, 'node', None) is not None for k in mro):
                # a builtin ancestor (dict, Exception, ...): not followed
                raise Inconclusive('fdeval: isinstance of a pedal object against builtin types')
            return object in py
        return bool(py) and isinstance(o, py)

    def call_function(self, fn, args, kwargs=None, bound_self=None, closure_env=None):
        params = [a.arg for a in fn.args.args]
        env = dict(closure_env) if closure_env is not None else {}
        for p in params:
            env.pop(p, None)
        if bound_self is not None:
            env[params[0]] = bound_self
            params = params[1:]
        defaults = fn.args.defaults
        for p, a in zip(params, args):
            env[p] = a
        if fn.args.vararg is not None:
            env[fn.args.vararg.arg] = tuple(args[len(params):])
        extra_kw = {}
        known = set(params) | {a.arg for a in fn.args.kwonlyargs} | {a.arg for a in fn.args.posonlyargs}
        for k, v in (kwargs or {}).items():
            if k in known or fn.args.kwarg is None:
                env[k] = v
            else:
                extra_kw[k] = v
        if fn.args.kwarg is not None:
            env[fn.args.kwarg.arg] = extra_kw
        self._mods.append(getattr(fn, '_module', None) or (self._mods[-1] if self._mods else None))
        self._default_class = fn._parent if isinstance(getattr(fn, '_parent', None), ast.ClassDef) else None
        try:
            for p, d in zip(params[len(params) - len(defaults):], defaults):
                if p not in env:
                    env[p] = self._default(d, p)
            for a, d in zip(fn.args.kwonlyargs, fn.args.kw_defaults):
                if a.arg not in env and d is not None:
                    env[a.arg] = self._default(d, a.arg)
        finally:
            self._mods.pop()
        for p in params:
            if p not in env:
                raise Inconclusive('fdeval: missing argument %s' % p)
        if bound_self is not None and isinstance(getattr(fn, '_parent', None), ast.ClassDef):
            env['__super_of__'] = (fn._parent, bound_self)      # for a zero-argument super() in this method
        if bound_self is not None and isinstance(bound_self, Obj) and '__classdef__' not in bound_self.attrs \
                and isinstance(getattr(fn, '_parent', None), ast.ClassDef):
            bound_self.attrs['__classdef__'] = fn._parent
        self._mods.append(getattr(fn, '_module', None) or (self._mods[-1] if self._mods else None))
        _ACTIVE_FD.append(self)
        generator = _is_generator_function(fn)
        if generator:
            # a generator function is run to exhaustion when it is called and its values handed over as a list (the
            # way generator expressions and every `for` of this interpreter consume their iterable before the body)
            env['__yields__'] = []
        try:
            r = self.run(fn.body, env)
        finally:
            _ACTIVE_FD.pop()
            self._mods.pop()
        if generator:
            return env['__yields__']
        return None if r is NO_RETURN else r

    def e_Yield(self, e, env):
        if '__yields__' not in env:
            raise Inconclusive('fdeval: yield outside a generator function')
        env['__yields__'].append(self.eval(e.value, env) if e.value is not None else None)
        return None

    def e_YieldFrom(self, e, env):
        if '__yields__' not in env:
            raise Inconclusive('fdeval: yield from outside a generator function')
        env['__yields__'].extend(self.iterate(self.eval(e.value, env), 'yield from'))
        return None

    def _default(self, d, name):
        """Value of a parameter default; a default the interpreter cannot evaluate (MAIN_REPORT = Report()) is an
        opaque object distinct from everything else."""
        try:
            return self.eval(d, {})
        except Inconclusive:
            cls = getattr(self, '_default_class', None)
            if isinstance(d, ast.Name) and cls is not None:
                # a default naming a class-level constant (`def __init__(self, delta=DELTA)`): defaults are evaluated
                # in the class body's scope
                for st in cls.body:
                    if isinstance(st, ast.Assign) and any(isinstance(t, ast.Name) and t.id == d.id for t in st.targets):
                        try:
                            return self.eval(st.value, {})
                        except Inconclusive:
                            break
            o = Obj('default of %s' % name)
            o.attrs['__open__'] = True
            return o

    def class_constant(self, obj, attr):
        """Value of a class-level assignment `attr = <expr>` in the class the object was bound to."""
        cd0 = obj.attrs.get('__classdef__')
        chain = [cd0] if cd0 is not None else []
        if cd0 is not None and self.sym is not None and getattr(cd0, '_module', None) is not None:
            ci = self.sym.classes.get((cd0._module.name, getattr(cd0, '_qualname', cd0.name)))
            if ci is not None:
                chain = [k.node for k in self.sym.mro(ci) if hasattr(k, 'node')]   # inherited class attributes
        for cd, st in [(c, st_) for c in chain for st_ in c.body]:
            if isinstance(st, ast.Assign) and any(isinstance(t, ast.Name) and t.id == attr for t in st.targets):
                # (a class body runs once: the value of a class-level assignment is one object for the process this
                #  interpreter models, shared by every instance)
                values = self.__dict__.setdefault('_class_values', {})
                if (id(cd), attr) in values:
                    return values[(id(cd), attr)]
                self._mods.append(getattr(cd, '_module', None) or (self._mods[-1] if self._mods else None))
                try:
                    # the class body is a scope of its own: names bound by earlier class-level assignments
                    scope = {}
                    for earlier in cd.body:
                        if earlier is st:
                            break
                        if isinstance(earlier, ast.Assign) and len(earlier.targets) == 1 and \
                                isinstance(earlier.targets[0], ast.Name) and \
                                any(isinstance(n_, ast.Name) and n_.id == earlier.targets[0].id
                                    for n_ in ast.walk(st.value)):
                            try:
                                scope[earlier.targets[0].id] = self.eval(earlier.value, dict(scope))
                            except (Inconclusive, Raised):
                                pass
                    values[(id(cd), attr)] = self.eval(st.value, scope)
                    return values[(id(cd), attr)]
                except Inconclusive:
                    # a class-level object the interpreter cannot build (`_ORIGINAL_STDOUT = sys.stdout`): an opaque
                    # value distinct from everything else, one per class attribute
                    cache = self.__dict__.setdefault('_class_opaque', {})
                    key = (id(cd), attr)
                    if key not in cache:
                        v = Obj('%s.%s' % (cd.name, attr))
                        v.attrs['__open__'] = True
                        cache[key] = v
                    return cache[key]
                finally:
                    self._mods.pop()
        return _MISSING

    def class_method(self, obj, attr):
        """A method of the class the object was bound to (or of its pedal base classes) that the harness did not
        bind explicitly - e.g. a private helper a refactoring extracted."""
        cd = obj.attrs.get('__classdef__')
        if cd is None:
            return None
        from .astutil import dotted
        todo, seen = [cd], set()
        while todo:
            c = todo.pop(0)
            if id(c) in seen:
                continue
            seen.add(id(c))
            for st in c.body:
                if isinstance(st, ast.FunctionDef) and st.name == attr:
                    decos = [dotted(d) for d in st.decorator_list]
                    if 'property' in decos:
                        return None
                    if 'staticmethod' in decos:
                        return lambda *a, **k: self.call_function(st, list(a), k)
                    return lambda *a, **k: self.call_function(st, list(a), k, bound_self=obj)
            if self.sym is not None and getattr(c, '_module', None) is not None:
                ci = self.sym.classes.get((c._module.name, getattr(c, '_qualname', c.name)))
                if ci is not None:
                    for k in self.sym.mro(ci)[1:]:
                        todo.append(k.node)
        return None

    def _class_fully_known(self, cd):
        """Every ancestor of the class is a pedal class (or object): its methods are all visible to the interpreter."""
        if self.sym is None or getattr(cd, '_module', None) is None:
            return False
        ci = self.sym.classes.get((cd._module.name, getattr(cd, '_qualname', cd.name)))
        if ci is None:
            return False
        for k in self.sym.mro(ci):
            for b in getattr(k, 'bases', []):
                if isinstance(b, tuple) and b and b[0] == 'external' and b[1] not in ('object',):
                    return False
        return True

    def class_property(self, obj, attr):
        """Value of a @property of the object's class (or of its pedal base classes), computed by interpreting the
        getter; _MISSING if the class defines no such property."""
        cd = obj.attrs.get('__classdef__')
        if cd is None:
            return _MISSING
        from .astutil import dotted
        chain = [cd]
        if self.sym is not None and getattr(cd, '_module', None) is not None:
            ci = self.sym.classes.get((cd._module.name, getattr(cd, '_qualname', cd.name)))
            if ci is not None:
                chain = [k.node for k in self.sym.mro(ci) if hasattr(k, 'node')]
        for c in chain:
            for st in c.body:
                if isinstance(st, ast.FunctionDef) and st.name == attr:
                    decos = [dotted(d) for d in st.decorator_list]
                    if 'property' in decos or 'cached_property' in decos or 'functools.cached_property' in decos:
                        return self.call_function(st, [], {}, bound_self=obj)
                    return _MISSING
        return _MISSING

    def bind_methods(self, obj, methods, skip=()):
        """Attach the given {name: FunctionDef} as abstractly-executed bound methods of obj."""
        from .astutil import dotted
        for name, fn in methods.items():
            if name in skip or ('method:' + name) in obj.attrs:
                continue
            decos = [dotted(d) for d in fn.decorator_list]
            if 'property' in decos:
                continue
            if 'staticmethod' in decos:
                obj.attrs['method:' + name] = (lambda f: (lambda *a, **k: self.call_function(f, list(a), k)))(fn)
            else:
                obj.attrs['method:' + name] = (lambda f: (lambda *a, **k: self.call_function(
                    f, list(a), k, bound_self=obj)))(fn)
        return obj

    def instantiate(self, name, methods, args=(), kwargs=None, closed=True):
        obj = Obj(name)
        if closed:
            obj.attrs['__closed__'] = True
        self.bind_methods(obj, methods)
        if '__init__' in methods:
            self.call_function(methods['__init__'], list(args), kwargs or {}, bound_self=obj)
        return obj

    def modref_attr(self, ref, attr):
        self._mods.append(ref.mod)
        try:
            v = self.module_name(attr)
        finally:
            self._mods.pop()
        if v is _MISSING:
            raise Inconclusive('fdeval: %s.%s' % (ref.mod.name, attr))
        return v

    def call_method(self, recv, attr, args, kwargs=None):
        kwargs = kwargs or {}
        if attr in self.methods:
            return self.methods[attr](recv, *args, **kwargs)
        if callable(recv) and not isinstance(recv, Obj) and self.sym is not None and self._mods and \
                self._mods[-1] is not None:
            # a harness-modelled class (its constructor is a stub) asked for one of pedal's own classmethods:
            # interpreted with `cls` bound to the stub
            name = getattr(recv, '_fd_name', None) or next((k for k, v in self.calls.items() if v is recv), None)
            if name is not None and '.' not in name:
                from .symbols import ClassInfo as _CI1
                from .astutil import dotted as _d1
                try:
                    ci1 = self.sym.resolve_name(self._mods[-1], name)
                except Exception:
                    ci1 = None
                if not isinstance(ci1, _CI1):
                    ci1 = next((c for (mn, q), c in self.sym.classes.items() if q == name), None)
                if isinstance(ci1, _CI1):
                    for k in self.sym.mro(ci1):
                        fn1 = k.methods.get(attr) if hasattr(k, 'methods') else None
                        if fn1 is not None and 'classmethod' in [_d1(x) for x in fn1.decorator_list]:
                            return self.call_function(fn1, list(args), kwargs, bound_self=recv)
        ci0 = getattr(recv, '_fd_class', None)
        if isinstance(ci0, ast.ClassDef) and self.sym is not None and getattr(ci0, '_module', None) is not None:
            ci0 = self.sym.classes.get((ci0._module.name, getattr(ci0, '_qualname', ci0.name)))
        if ci0 is not None and self.sym is not None and hasattr(ci0, 'methods'):
            # a pedal class used as a value (its generic constructor stand-in): class- and static methods are pedal's own
            from .astutil import dotted as _d0
            for k in self.sym.mro(ci0):
                fn0 = k.methods.get(attr) if hasattr(k, 'methods') else None
                if fn0 is not None:
                    decos = [_d0(x) for x in fn0.decorator_list]
                    if 'classmethod' in decos:
                        return self.call_function(fn0, list(args), kwargs, bound_self=recv)
                    if 'staticmethod' in decos:
                        return self.call_function(fn0, list(args), kwargs)
                    break
        if isinstance(recv, ModRef):
            f = self.modref_attr(recv, attr)
            if callable(f):
                self._mods.append(recv.mod)
                try:
                    return f(*args, **kwargs)
                finally:
                    self._mods.pop()
            raise Raised('TypeError', '%s.%s is not callable' % (recv.mod.name, attr))
        if attr == '__class__' and isinstance(recv, Obj) and '__classdef__' in recv.attrs and self.sym is not None:
            # self.__class__(...): a new instance of the same pedal class
            cd_ = recv.attrs['__classdef__']
            if getattr(cd_, '_module', None) is not None:
                self._mods.append(cd_._module)
                try:
                    v = self.module_name(cd_.name)
                finally:
                    self._mods.pop()
                if v is not _MISSING and getattr(v, '_fd_class', None) is cd_:
                    return v(*args, **kwargs)
        if isinstance(recv, ClassObj) and ('classmethod:' + attr) in recv.attrs:
            return self.call_function(recv.attrs['classmethod:' + attr], list(args), kwargs, bound_self=recv)
        if isinstance(recv, Obj):
            if ('method:' + attr) in recv.attrs:
                return recv.attrs['method:' + attr](*args, **kwargs)
            if attr in recv.attrs and getattr(recv.attrs[attr], '_fd_callable', False):
                return recv.attrs[attr](*args, **kwargs)   # a callable stored in an instance attribute
            m = self.class_method(recv, attr)
            if m is not None:
                return m(*args, **kwargs)
            if '__unknown_method__' in recv.attrs:
                return recv.attrs['__unknown_method__'](attr, *args, **kwargs)
            if '__dictdata__' in recv.attrs and hasattr(dict, attr):
                return _dict_method(recv.attrs['__dictdata__'], attr, args, kwargs)
            if recv.attrs.get('__closed__'):
                raise Raised('AttributeError', '%r object has no attribute %r' % (recv._name, attr))
        if recv is UNKNOWN:
            return UNKNOWN
        if recv is None:
            raise Raised('AttributeError', "'NoneType' object has no attribute %r" % attr)
        if recv is ERR:
            raise Raised('AttributeError', 'exception has no attribute %r' % attr)
        if isinstance(recv, str) and attr in _PURE_STR_METHODS:
            if any(a is UNKNOWN for a in args):
                return UNKNOWN
            if any(isinstance(a, (Obj, Opaque)) for a in args) and attr != 'join':
                raise Inconclusive('fdeval: str.%s on a model object' % attr)
            try:
                return getattr(recv, attr)(*args, **kwargs)
            except (TypeError, ValueError, LookupError) as ex:
                raise Raised(type(ex).__name__, str(ex))
        if isinstance(recv, (bytes, bytearray)) and attr in ('decode', 'startswith', 'endswith', 'replace', 'split',
                                                             'strip', 'lstrip', 'rstrip', 'lower', 'upper', 'hex',
                                                             'count', 'find', 'splitlines'):
            try:
                return getattr(recv, attr)(*args, **kwargs)
            except (TypeError, ValueError, LookupError) as ex:
                raise Raised(type(ex).__name__, str(ex))
        if isinstance(recv, (_RE_PATTERN, _RE_MATCH)) and attr in _PURE_RE_METHODS:
            # compiled regular expressions and their matches: pure objects of the standard library
            if any(isinstance(a, (Obj, Opaque)) or a is UNKNOWN for a in list(args) + list(kwargs.values())):
                raise Inconclusive('fdeval: %s.%s on a non-concrete operand' % (type(recv).__name__, attr))
            try:
                out = getattr(recv, attr)(*args, **kwargs)
                return list(out) if attr == 'finditer' else out
            except (TypeError, ValueError, IndexError, KeyError) as ex:
                raise Raised(type(ex).__name__, str(ex))
        if isinstance(recv, _STRING_FORMATTER) and attr in ('parse', 'format', 'vformat'):
            # string.Formatter: a pure helper object of the standard library
            try:
                out = getattr(recv, attr)(*args, **kwargs)
                return list(out) if attr == 'parse' else out
            except (KeyError, IndexError, ValueError, TypeError) as ex:
                raise Raised(type(ex).__name__, str(ex))
        if isinstance(recv, str) and attr == 'format':
            try:
                return recv.format(*args, **kwargs)
            except (KeyError, IndexError, ValueError) as ex:
                raise Raised(type(ex).__name__, str(ex))
        if isinstance(recv, dict) and attr == 'get':
            if args[0] is UNKNOWN:
                return UNKNOWN
            try:
                return recv.get(*args)
            except TypeError:
                raise Raised('TypeError', 'unhashable key')
        if isinstance(recv, (list, tuple)) and attr == 'index':
            try:
                return recv.index(args[0])
            except ValueError:
                raise Raised('ValueError', 'not in list')
        if isinstance(recv, (list, tuple)) and attr == 'count':
            return recv.count(args[0])
        if isinstance(recv, list) and attr in ('sort', 'reverse'):
            try:
                getattr(recv, attr)(*args, **kwargs)
            except TypeError as ex:
                raise Raised('TypeError', str(ex))
            return None
        if isinstance(recv, list) and attr in ('append', 'extend', 'insert', 'clear'):
            getattr(recv, attr)(*args)
            return None
        if isinstance(recv, list) and attr == 'remove':
            for i, x in enumerate(recv):
                if x is args[0] or (not isinstance(x, (Obj, Opaque)) and not isinstance(args[0], (Obj, Opaque))
                                    and type(x) is type(args[0]) and x == args[0]):
                    del recv[i]
                    return None
            raise Raised('ValueError', 'list.remove(x): x not in list')
        if isinstance(recv, list) and attr == 'pop':
            try:
                return recv.pop(*args)
            except IndexError:
                raise Raised('IndexError', 'pop from empty list')
        if isinstance(recv, set) and attr in ('add', 'discard', 'remove', 'update', 'clear', 'pop'):
            try:
                return getattr(recv, attr)(*args)
            except KeyError:
                raise Raised('KeyError', 'set.%s' % attr)
            except TypeError as ex:
                raise Raised('TypeError', str(ex))
        if isinstance(recv, (dict, list, tuple, str, set, frozenset)) and attr in ('__getitem__', '__len__',
                                                                                  '__contains__', '__iter__'):
            try:
                if attr == '__getitem__':
                    return recv[args[0]]
                if attr == '__len__':
                    return len(recv)
                if attr == '__contains__':
                    return args[0] in recv
                return list(recv)
            except IndexError:
                raise Raised('IndexError', 'index out of range')
            except KeyError:
                raise Raised('KeyError', repr(args[0]))
            except TypeError as ex:
                raise Raised('TypeError', str(ex))
        if isinstance(recv, (dict, list, set)) and attr == 'copy' and not args:
            return recv.copy()
        if isinstance(recv, dict) and attr in ('items', 'keys', 'values'):
            return list(getattr(recv, attr)())
        if isinstance(recv, dict) and attr in ('update', 'setdefault', 'clear', 'pop'):
            return getattr(recv, attr)(*args)
        if isinstance(recv, Obj) and ('method:' + attr) in recv.attrs:
            return recv.attrs['method:' + attr](*args)
        if isinstance(recv, (str, int, float, bool, bytes, list, tuple, dict, set, frozenset)) and \
                not hasattr(recv, attr):
            # a concrete Python value that simply has no such method: CPython's answer is AttributeError
            raise Raised('AttributeError', "'%s' object has no attribute '%s'" % (type(recv).__name__, attr))
        if isinstance(recv, Obj) and '__classdef__' in recv.attrs and not recv.attrs.get('__open__') and \
                '__unknown_method__' not in recv.attrs and self._class_fully_known(recv.attrs['__classdef__']) and \
                self.class_method(recv, '__getattr__') is None:
            # an instance of a pedal class whose whole ancestry is pedal's own: the class simply has no such method
            raise Raised('AttributeError', "'%s' object has no attribute '%s'" % (recv.attrs['__classdef__'].name, attr))
        if getattr(recv, '_fd_plain_function', False) and not hasattr(recv, attr):
            # a harness value that stands for an ordinary Python function (nothing more): no such method
            raise Raised('AttributeError', "'function' object has no attribute '%s'" % attr)
        raise Inconclusive('fdeval: method %s on %r' % (attr, recv))

    # -- statements --------------------------------------------------------------------------
    def run(self, stmts, env):
        """Execute statements; returns the returned value, or the NO_RETURN marker."""
        try:
            self.block(stmts, env)
        except _Return as r:
            return r.value
        return NO_RETURN

    def block(self, stmts, env):
        for st in stmts:
            self.stmt(st, env)

    def stmt(self, st, env):
        self.steps += 1
        if isinstance(st, ast.Return):
            raise _Return(self.eval(st.value, env) if st.value is not None else None)
        if isinstance(st, ast.Expr):
            if isinstance(st.value, ast.Constant):
                return
            self.eval(st.value, env)
            return
        if isinstance(st, ast.Pass):
            return
        if isinstance(st, ast.Assign):
            v = self.eval(st.value, env)
            for t in st.targets:
                self.assign(t, v, env)
            return
        if isinstance(st, (ast.ImportFrom, ast.Import)):
            # a function-local import: pedal's own names are looked up in their module; a few pure stdlib functions
            # are modelled by themselves (applied to concrete operands only)
            for a in st.names:
                bound = a.asname or a.name.split('.')[0]
                target = st.module if isinstance(st, ast.ImportFrom) else a.name
                if isinstance(st, ast.ImportFrom) and self.sym is not None and target in self.sym.repo.modules:
                    ref = ModRef(self.sym.repo.modules[target])
                    env[bound] = self.modref_attr(ref, a.name)
                elif isinstance(st, ast.Import) and self.sym is not None and target in self.sym.repo.modules:
                    env[bound] = ModRef(self.sym.repo.modules[target])
                elif isinstance(st, ast.ImportFrom) and (target, a.name) in _PURE_STDLIB:
                    env[bound] = _pure(_PURE_STDLIB[(target, a.name)], '%s.%s' % (target, a.name))
                elif isinstance(st, ast.ImportFrom) and ('%s.%s' % (target, a.name)) in self.calls:
                    env[bound] = self._callable_value('%s.%s' % (target, a.name))
                else:
                    raise Inconclusive('fdeval: local import of %s' % ast.unparse(st))
            return
        if isinstance(st, ast.AnnAssign):
            # `name: Type = value` is an assignment (the annotation is not evaluated); a bare annotation binds nothing
            if st.value is None:
                return
            return self.stmt(ast.copy_location(ast.Assign(targets=[st.target], value=st.value), st), env)
        if isinstance(st, ast.AugAssign):
            cur = self.eval(st.target, env)
            rhs = self.eval(st.value, env)
            if cur is UNKNOWN or rhs is UNKNOWN:
                v = UNKNOWN
            else:
                f = _BIN.get(type(st.op))
                if f is None:
                    raise Inconclusive('fdeval: augassign op')
                if isinstance(cur, (Opaque, Obj)) or isinstance(rhs, (Opaque, Obj)):
                    if self.binop_hook is not None:
                        v = self.binop_hook(st.op, cur, rhs)
                    else:
                        v = UNKNOWN
                else:
                    try:
                        v = f(cur, rhs)
                    except ZeroDivisionError:
                        raise Raised('ZeroDivisionError')
                    except TypeError as ex:
                        raise Raised('TypeError', str(ex))
            self.assign(st.target, v, env)
            return
        if isinstance(st, ast.If):
            t = truth(self.eval(st.test, env))
            if t is None:
                # fork: both arms must agree on the outcome
                outcomes = []
                for arm in (st.body, st.orelse):
                    env2 = _copy_env(env)
                    try:
                        self.block(arm, env2)
                        outcomes.append(('fall', env2))
                    except _Return as r:
                        outcomes.append(('ret', r.value))
                    except Raised as r:
                        outcomes.append(('raise', r.kind))
                if outcomes[0][0] == outcomes[1][0] == 'ret' and _same(outcomes[0][1], outcomes[1][1]):
                    raise _Return(outcomes[0][1])
                if outcomes[0][0] == outcomes[1][0] == 'fall':
                    a, b = outcomes[0][1], outcomes[1][1]
                    for k in set(a) | set(b):
                        if k in a and k in b and _same(a[k], b[k]):
                            env[k] = a[k]
                        else:
                            env[k] = UNKNOWN
                    return
                if all(o[0] == 'ret' for o in outcomes):
                    raise _Return(UNKNOWN)
                raise Inconclusive('fdeval: unknown branch with diverging control flow')
            self.block(st.body if t else st.orelse, env)
            return
        if isinstance(st, ast.For):
            items = self.iterate(self.eval(st.iter, env), 'loop')
            broke = False
            for item in items:
                self.assign(st.target, item, env)
                try:
                    self.block(st.body, env)
                except _Break:
                    broke = True
                    break
                except _Continue:
                    continue
            if not broke:
                self.block(st.orelse, env)
            return
        if isinstance(st, ast.Delete):
            for t in st.targets:
                if isinstance(t, ast.Name):
                    env.pop(t.id, None)
                elif isinstance(t, ast.Attribute):
                    base = self.eval(t.value, env)
                    if isinstance(base, ClassObj):
                        base.own.pop(t.attr, None)
                    elif isinstance(base, Obj):
                        if t.attr not in base.attrs:
                            raise Raised('AttributeError', t.attr)
                        del base.attrs[t.attr]
                    else:
                        raise Inconclusive('fdeval: del of an attribute of %r' % (base,))
                elif isinstance(t, ast.Subscript):
                    base = self.eval(t.value, env)
                    if not isinstance(base, (list, dict)):
                        raise Inconclusive('fdeval: del of an item of %r' % (base,))
                    if isinstance(t.slice, ast.Slice):
                        lo = self.eval(t.slice.lower, env) if t.slice.lower else None
                        hi = self.eval(t.slice.upper, env) if t.slice.upper else None
                        del base[lo:hi]
                    else:
                        k = self.eval(t.slice, env)
                        try:
                            del base[k]
                        except KeyError:
                            raise Raised('KeyError', repr(k))
                        except IndexError:
                            raise Raised('IndexError', repr(k))
                else:
                    raise Inconclusive('fdeval: del target %s' % type(t).__name__)
            return
        if isinstance(st, ast.While):
            broke = False
            rounds = 0
            while True:
                t = truth(self.eval(st.test, env))
                if t is None:
                    raise Inconclusive('fdeval: while over an unknown condition')
                if not t:
                    break
                rounds += 1
                if rounds > 10000:
                    raise Inconclusive('fdeval: while loop bound')
                try:
                    self.block(st.body, env)
                except _Break:
                    broke = True
                    break
                except _Continue:
                    continue
            if not broke:
                self.block(st.orelse, env)
            return
        if isinstance(st, ast.Break):
            raise _Break()
        if isinstance(st, ast.Continue):
            raise _Continue()
        if isinstance(st, ast.Try):
            self.try_stmt(st, env)
            return
        if isinstance(st, ast.With):
            managers = []
            for item in st.items:
                cm = self.eval(item.context_expr, env)
                if not (isinstance(cm, Obj) and 'method:__enter__' in cm.attrs and 'method:__exit__' in cm.attrs):
                    raise Inconclusive('fdeval: with over a non-modelled context manager')
                v = cm.attrs['method:__enter__']()
                if item.optional_vars is not None:
                    self.assign(item.optional_vars, v, env)
                managers.append(cm)
            try:
                self.block(st.body, env)
            except Raised as r:
                for cm in reversed(managers):
                    cm.attrs['method:__exit__'](r.kind, r, None)
                raise
            except (_Return, _Break, _Continue):
                for cm in reversed(managers):
                    cm.attrs['method:__exit__'](None, None, None)
                raise
            for cm in reversed(managers):
                cm.attrs['method:__exit__'](None, None, None)
            return
        if isinstance(st, ast.Raise):
            from .astutil import dotted
            kind = 'Exception'
            if st.exc is None:
                cur = env.get('__inflight__')
                if cur is not None:
                    raise cur
                raise Raised('RuntimeError', 'No active exception to reraise')
            if isinstance(st.exc, ast.Call):
                kind = dotted(st.exc.func) or 'Exception'
                if kind in self.calls or kind in self.functions:
                    v = self.eval(st.exc, env)
                    if isinstance(v, Obj) and 'exc_kind' in v.attrs:
                        raise Raised(v.attrs['exc_kind'], payload=v)
                raise Raised(kind)
            v = None
            try:
                v = self.eval(st.exc, env)
            except Inconclusive:
                pass
            if isinstance(v, Obj) and 'exc_kind' in v.attrs:
                raise Raised(v.attrs['exc_kind'], payload=v)
            if v is None or v is UNKNOWN:
                raise Raised('TypeError', 'exceptions must derive from BaseException')
            raise Raised(dotted(st.exc) or 'Exception')
        if isinstance(st, ast.FunctionDef):
            # nested function: a closure over the defining environment (free variables are read at call time)
            if st.decorator_list:
                raise Inconclusive('fdeval: decorated nested function')
            outer = env

            def closure(*args, **kwargs):
                return self.call_function(st, list(args), kwargs, closure_env=outer)
            closure._fd_callable = True
            closure._fd_def = st
            env[st.name] = closure
            return
        if isinstance(st, ast.ClassDef):
            if any(not isinstance(b, (ast.Pass, ast.Expr)) for b in st.body):
                raise Inconclusive('fdeval: nested class with members')
            env[st.name] = Obj('class ' + st.name)
            return
        raise Inconclusive('fdeval: unsupported statement %s' % type(st).__name__)

    NON_EXCEPTION_KINDS = ('KeyboardInterrupt', 'SystemExit', 'GeneratorExit', 'BaseException')

    def handler_matches(self, h, raised, env=None):
        from .astutil import dotted
        import builtins
        if h.type is None:
            return True
        exprs = list(h.type.elts if isinstance(h.type, ast.Tuple) else [h.type])
        names = []
        for x in exprs:
            n = dotted(x)
            if n and '.' not in n and isinstance(getattr(builtins, n, None), type):
                names.append(n)
                continue
            # a constant naming the classes (module level, class level or local): evaluate it
            try:
                v = self.eval(x, env if env is not None else {})
            except Inconclusive:
                names.append(n)
                continue
            for c in (v if isinstance(v, (tuple, list)) else [v]):
                names.append(c.__name__ if isinstance(c, type) else (c if isinstance(c, str) else n))
        for n in names:
            if n == 'BaseException':
                return True
            if n == 'Exception' and raised.kind not in self.NON_EXCEPTION_KINDS:
                return True
            if n == raised.kind or (n and n.split('.')[-1] == raised.kind.split('.')[-1]):
                return True
            import builtins
            a, b = getattr(builtins, n or '', None), getattr(builtins, raised.kind, None)
            if isinstance(a, type) and isinstance(b, type) and issubclass(b, a):
                return True
        return False

    def try_stmt(self, st, env):
        try:
            try:
                self.block(st.body, env)
            except Raised as r:
                for h in st.handlers:
                    if self.handler_matches(h, r, env):
                        if h.name:
                            exc = r.payload if r.payload is not None else Obj('exception', exc_kind=r.kind,
                                                                             detail=r.detail)
                            r.payload = exc
                            env[h.name] = exc
                        saved = env.get('__inflight__')
                        env['__inflight__'] = r
                        try:
                            self.block(h.body, env)
                        finally:
                            env['__inflight__'] = saved
                        break
                else:
                    raise
            else:
                self.block(st.orelse, env)
        finally:
            if st.finalbody:
                self.block(st.finalbody, env)

    def assign(self, t, v, env):
        from .astutil import dotted
        if isinstance(t, ast.Name):
            env[t.id] = v
        elif isinstance(t, ast.Attribute):
            d = dotted(t)
            base = self.eval(t.value, env) if not (d and d in env) else None
            if isinstance(base, Obj):
                base.attrs[t.attr] = v
            elif d is not None:
                env[d] = v
            else:
                raise Inconclusive('fdeval: attribute store')
        elif isinstance(t, ast.Subscript) and isinstance(t.slice, ast.Slice):
            base = self.eval(t.value, env)
            lo = self.eval(t.slice.lower, env) if t.slice.lower else None
            hi = self.eval(t.slice.upper, env) if t.slice.upper else None
            if not isinstance(base, list) or v is UNKNOWN:
                raise Inconclusive('fdeval: slice store')
            base[lo:hi] = v
        elif isinstance(t, ast.Subscript):
            base = self.eval(t.value, env)
            idx = self.eval(t.slice, env)
            if isinstance(base, (dict, list)):
                base[idx] = v
            elif isinstance(base, Obj) and 'method:__setitem__' in base.attrs:
                base.attrs['method:__setitem__'](idx, v)
            elif isinstance(base, Obj) and self.class_method(base, '__setitem__') is not None:
                self.class_method(base, '__setitem__')(idx, v)
            else:
                raise Inconclusive('fdeval: subscript store on %r' % (base,))
        elif isinstance(t, (ast.Tuple, ast.List)):
            if v is UNKNOWN:
                for e in t.elts:
                    self.assign(e, UNKNOWN, env)
            else:
                vals = list(v)
                if len(vals) != len(t.elts):
                    raise Raised('ValueError', 'unpack')
                for e, x in zip(t.elts, vals):
                    self.assign(e, x, env)
        else:
            raise Inconclusive('fdeval: assignment target %s' % type(t).__name__)


_BUILTIN_TYPES = {'int': int, 'float': float, 'str': str, 'bool': bool, 'list': list, 'tuple': tuple,
                  'dict': dict, 'set': set, 'frozenset': frozenset, 'complex': complex, 'bytes': bytes, 'Ellipsis': Ellipsis}


_PURE_STR_METHODS = frozenset((
    'lower', 'upper', 'strip', 'rstrip', 'lstrip', 'replace', 'startswith', 'endswith', 'split', 'rsplit', 'count',
    'capitalize', 'splitlines', 'join', 'partition', 'rpartition', 'find', 'rfind', 'index', 'rindex', 'title',
    'isdigit', 'isidentifier', 'isalpha', 'isalnum', 'isspace', 'isupper', 'islower', 'isnumeric', 'isdecimal',
    'casefold', 'expandtabs', 'removeprefix', 'removesuffix', 'swapcase', 'zfill', 'ljust', 'rjust', 'center',
    'encode', 'translate'))
_STRING_FORMATTER = __import__('string').Formatter
_RE_PATTERN = type(__import__('re').compile(''))
_RE_MATCH = type(__import__('re').match('', ''))
_PURE_RE_METHODS = frozenset(('match', 'fullmatch', 'search', 'sub', 'subn', 'split', 'findall', 'finditer', 'group',
                              'groups', 'groupdict', 'start', 'end', 'span'))


def _resolves(resolver, name):
    try:
        resolver(name)
        return True
    except KeyError:
        return False
    except Exception:
        return False


def _cached_by_cpython(v):
    """Values of which CPython keeps one object: small ints, empty and one-character texts, identifier-like strings
    (interned when they appear as constants or names)."""
    if isinstance(v, int):
        return -5 <= v <= 256
    if isinstance(v, str):
        return len(v) <= 1 or v.isidentifier()
    if isinstance(v, (bytes, tuple, frozenset)):
        return len(v) <= 1
    return False


def _b_type(x):
    if isinstance(x, (Obj, Opaque)) or x is UNKNOWN:
        raise Inconclusive('fdeval: type() of a model object')
    return type(x)


def _pure(f, name):
    def call(*a, **k):
        if any(isinstance(x, (Obj, Opaque)) or x is UNKNOWN for x in list(a) + list(k.values())):
            raise Inconclusive('fdeval: %s on a non-concrete operand' % name)
        try:
            return f(*a, **k)
        except RecursionError:
            raise Raised('RecursionError', name)
        except MemoryError:
            raise Raised('MemoryError', name)
        except Exception as ex:
            raise Raised(type(ex).__name__, str(ex))
    call._fd_callable = True
    return call


def _lru_cache_model(*dargs, **dkw):
    """functools.lru_cache / functools.cache: the wrapped callable is called once per distinct argument tuple, later
    calls get the remembered result (the very same object)."""
    def wrap(f):
        memo = {}

        def cached(*a, **k):
            try:
                key = (a, tuple(sorted(k.items())))
                hash(key)
            except TypeError:
                raise Raised('TypeError', 'unhashable argument of a cached function')
            if key not in memo:
                memo[key] = f(*a, **k)
            return memo[key]
        cached._fd_callable = True
        cached.cache_clear = memo.clear
        return cached
    if len(dargs) == 1 and callable(dargs[0]) and not dkw and not isinstance(dargs[0], (int, type(None))):
        return wrap(dargs[0])
    wrap._fd_callable = True
    return wrap


_lru_cache_model._fd_callable = True
_PURE_STDLIB = {('functools', 'lru_cache'): _lru_cache_model, ('functools', 'cache'): _lru_cache_model,
                ('ast', 'literal_eval'): ast.literal_eval, ('math', 'isnan'): __import__('math').isnan,
                ('math', 'isinf'): __import__('math').isinf, ('math', 'isfinite'): __import__('math').isfinite,
                ('itertools', 'zip_longest'): lambda *a, **k: list(__import__('itertools').zip_longest(*a, **k))}


_PURE_DOTTED = {'textwrap.dedent': __import__('textwrap').dedent, 'textwrap.indent': __import__('textwrap').indent,
                'inspect.cleandoc': __import__('inspect').cleandoc, 'os.path.basename': __import__('os').path.basename,
                'os.path.splitext': __import__('os').path.splitext, 'os.path.normpath': __import__('os').path.normpath,
                'html.escape': __import__('html').escape, 'keyword.iskeyword': __import__('keyword').iskeyword,
                'string.capwords': __import__('string').capwords, 'unicodedata.normalize': __import__('unicodedata').normalize,
                # read-only queries of interpreter state: a representative value (nothing in pedal's logic may depend
                # on which)
                'functools.lru_cache': _lru_cache_model, 'functools.cache': _lru_cache_model,
                're.compile': __import__('re').compile, 're.escape': __import__('re').escape,
                're.match': __import__('re').match, 're.search': __import__('re').search,
                're.fullmatch': __import__('re').fullmatch, 're.sub': __import__('re').sub,
                're.split': __import__('re').split, 're.findall': __import__('re').findall,
                'string.Formatter': __import__('string').Formatter, 'types.ModuleType': __import__('types').ModuleType,
                'types.SimpleNamespace': __import__('types').SimpleNamespace, 'str.maketrans': str.maketrans,
                'sys.getrecursionlimit': lambda: 1000, 'os.getcwd': lambda: '/cwd', 'os.getpid': lambda: 4242,
                'sys.getswitchinterval': lambda: 0.005, 'threading.active_count': lambda: 1}



# `from textwrap import dedent`: the same pure functions bound by a from-import
for _dotted, _f in list(_PURE_DOTTED.items()):
    _m, _, _n = _dotted.rpartition('.')
    _PURE_STDLIB.setdefault((_m, _n), _f)

class ModRef:
    """A pedal module used as a value (`from pedal.sandbox import mocked`; mocked.X is looked up in that module)."""

    def __init__(self, mod):
        self.mod = mod

    def __repr__(self):
        return '<module %s>' % self.mod.name


class _Lit(ast.expr):
    """Carrier for an already-evaluated abstract value inside a synthesised call."""
    _fields = ()

    def __init__(self, value):
        super().__init__()
        self.value = value


class _NoReturn:
    def __repr__(self):
        return 'NO_RETURN'


NO_RETURN = _NoReturn()


def _copy_env(env):
    out = {}
    for k, v in env.items():
        if isinstance(v, dict):
            out[k] = dict(v)
        elif isinstance(v, list):
            out[k] = list(v)
        else:
            out[k] = v
    return out


def _same(a, b):
    if a is b:
        return True
    if a is UNKNOWN or b is UNKNOWN or a is ERR or b is ERR:
        return False
    if isinstance(a, (Opaque, Obj)) or isinstance(b, (Opaque, Obj)):
        return False
    try:
        return type(a) is type(b) and a == b
    except Exception:
        return False


def _b_len(x):
    if x is UNKNOWN:
        return UNKNOWN
    if x is ERR:
        raise Raised('TypeError', 'len() of exception')
    if isinstance(x, Obj) and 'method:__len__' in x.attrs:
        return x.attrs['method:__len__']()
    if isinstance(x, (Opaque, Obj)):
        return UNKNOWN
    try:
        return len(x)
    except TypeError:
        raise Raised('TypeError', 'len')


def _b_bool(x):
    t = truth(x)
    return UNKNOWN if t is None else t


def _b_round(x, n=None):
    if x is UNKNOWN or n is UNKNOWN:
        return UNKNOWN
    return round(x, n) if n is not None else round(x)


def _concrete_seq(f):
    def g(*args):
        for a in args:
            if a is UNKNOWN or a is ERR or isinstance(a, (Opaque, Obj)):
                raise Inconclusive('fdeval: builtin on a non-concrete value')
        return f(*args)
    return g


def _b_sorted(x, key=None, reverse=False):
    if x is UNKNOWN or isinstance(x, (Opaque, Obj)):
        raise Inconclusive('fdeval: sorted() of a non-concrete value')
    try:
        return sorted(x, key=key, reverse=bool(reverse))
    except TypeError as ex:
        raise Raised('TypeError', str(ex))


def _b_next(it, *default):
    """Generators are modelled as lists: next() takes (and consumes) the first element."""
    if not isinstance(it, list):
        raise Inconclusive('fdeval: next() of a non-concrete iterator')
    if it:
        return it.pop(0)
    if default:
        return default[0]
    raise Raised('StopIteration')


_BUILTINS = {
    'reversed': _concrete_seq(lambda x: list(reversed(x))),
    'sorted': _b_sorted,
    'next': _b_next,
    'iter': _concrete_seq(lambda x: list(x)),
    'list': _concrete_seq(lambda *x: list(*x)),
    'tuple': _concrete_seq(lambda *x: tuple(*x)),
    'enumerate': _concrete_seq(lambda x, start=0: list(enumerate(x, start))),
    'range': _concrete_seq(lambda *x: list(range(*x))),
    'zip': _concrete_seq(lambda *x: list(zip(*x))),
    'min': _concrete_seq(min), 'max': _concrete_seq(max), 'sum': _concrete_seq(sum),
    'map': lambda f, x: [f(i) for i in x],
    'dict.fromkeys': lambda keys, value=None: dict.fromkeys(keys, value),
    'dict': lambda *a, **k: dict(*a, **k),
    'frozenset': _concrete_seq(lambda *x: frozenset(*x)),
    'set': _concrete_seq(lambda *x: set(*x)),
    'any': lambda x: any(truth(i) for i in x),
    'all': lambda x: all(truth(i) for i in x),
    'len': _b_len,
    'bool': _b_bool,
    'round': _b_round,
    'abs': lambda x: UNKNOWN if x is UNKNOWN else abs(x),
    'str': lambda x: UNKNOWN if (x is UNKNOWN or x is ERR or isinstance(x, (Opaque, Obj))) else str(x),
    'int': lambda x: UNKNOWN if x is UNKNOWN else int(x),
    'float': lambda x: UNKNOWN if x is UNKNOWN else float(x),
    'id': lambda x: id(x),      # identity of a model object is its Python identity
    'type': lambda x: _b_type(x),
    'repr': lambda x: UNKNOWN if (x is UNKNOWN or x is ERR or isinstance(x, (Opaque, Obj))) else repr(x),
}


def module_resolver(sym, mod, fd=None, extra=None, symbolic=None):
    """Resolver for names used by a fragment: constants through the symbol table, otherwise the module-level binding
    evaluated by the interpreter itself (dict comprehensions over other tables, tuples of constants, ...).
    `symbolic(name)` may return a stand-in for classes/functions (e.g. the name itself)."""
    cache = {}
    extra = extra or {}

    def resolve(name):
        if name in extra:
            return extra[name]
        if name in cache:
            return cache[name]
        import ast as _ast
        try:
            node = _ast.parse(name, mode='eval').body
        except SyntaxError:
            raise KeyError(name)
        try:
            v = sym.const(mod, node)
            cache[name] = v
            return v
        except KeyError:
            pass
        if '.' not in name:
            b = sym.lookup(mod.name, name)
            if b is not None and b.kind == 'assign' and b.node is not None:
                inner = FD(resolver=module_resolver(sym, b.module, extra=extra, symbolic=symbolic))
                try:
                    v = inner.eval(b.node, {})
                    cache[name] = v
                    return v
                except Inconclusive:
                    pass
            if b is not None and b.kind == 'importfrom' and b.target in sym.repo.modules:
                return module_resolver(sym, sym.repo.modules[b.target], extra=extra, symbolic=symbolic)(b.attr)
        import builtins as _b
        if symbolic is not None and not hasattr(_b, name.split('.')[0]):
            v = symbolic(name)
            if v is not None:
                return v
        raise KeyError(name)
    return resolve
