"""Driver: python -m pedalstat check C05 [--tier quick|thorough] [--repo /repo]

Exit codes: 0 holds (known findings are printed) / 1 VIOLATION / 2 ANALYSIS-ERROR.
"""
import argparse
import importlib
import json
import os
import sys
import time
import traceback

from .loader import Repo, AnalysisError
from .report import Ctx, finish

from .claims import CLAIMS
CLAIMED = sorted(CLAIMS)


def run_property(prop, repo_root='/repo', tier='quick', overlay=None, quiet=False, write=True,
                 seed=0):
    """Run all rules of one property. Returns (exit_code, ctx, evidence)."""
    t0 = time.time()
    repo = Repo(repo_root, overlay=overlay)
    ctx = Ctx(prop, repo, tier=tier, quiet=quiet)
    mod = importlib.import_module('.rules.' + prop.lower(), __package__)
    try:
        mod.run(ctx)
    except AnalysisError as e:
        # A violation already established by a completed rule stands; the part of the analysis that could not be
        # completed is reported with it. Without such a violation the run is inconclusive (exit 2).
        from .report import load_known
        known = {(k['property'], k['rule'], k['key']) for k in load_known().get('known', [])}
        if not [f for f in ctx.findings if f.ident() not in known]:
            raise
        ctx.info("analysis incomplete after the violation(s) reported: %s" % e)
    code, evidence = finish(ctx, t0, seed=seed, write=write)
    return code, ctx, evidence


def main(argv=None):
    ap = argparse.ArgumentParser(prog='pedalstat')
    sub = ap.add_subparsers(dest='cmd', required=True)
    c = sub.add_parser('check')
    c.add_argument('prop')
    c.add_argument('--tier', default=os.environ.get('VERIF_TIER') or 'quick',
                   choices=['quick', 'thorough'])
    c.add_argument('--repo', default=os.environ.get('PEDALSTAT_REPO', '/repo'))
    c.add_argument('--no-write', action='store_true')
    r = sub.add_parser('replay')
    r.add_argument('path')
    r.add_argument('--repo', default=os.environ.get('PEDALSTAT_REPO', '/repo'))
    s = sub.add_parser('selftest')
    s.add_argument('props', nargs='*')
    s.add_argument('--jobs', type=int, default=16)
    s.add_argument('--repo', default=os.environ.get('PEDALSTAT_REPO', '/repo'))
    s.add_argument('-v', '--verbose', action='store_true')
    sub.add_parser('selfcheck')
    args = ap.parse_args(argv)

    try:
        seed = int(os.environ.get('VERIF_SEED', '0') or 0)
    except ValueError:
        seed = 0

    if args.cmd == 'selfcheck':
        for p in CLAIMED:
            importlib.import_module('.rules.' + p.lower(), __package__)
        print("pedalstat: %d rule modules import; nothing to build" % len(CLAIMED))
        return 0

    if args.cmd == 'check':
        prop = args.prop.upper()
        try:
            code, ctx, evidence = run_property(prop, args.repo, args.tier, seed=seed,
                                               write=not args.no_write)
            if args.tier == 'thorough' and code == 0:
                from . import selftest
                ok = selftest.run_for_property(prop, args.repo, jobs=16, evidence=evidence,
                                               write=not args.no_write)
                if not ok:
                    print("ANALYSIS-ERROR: %s checker validation failed (a mutant was missed or a "
                          "benign twin was flagged); the checker, not pedal, is broken" % prop)
                    return 2
            return code
        except AnalysisError as e:
            print("ANALYSIS-ERROR: %s" % e)
            return 2
        except Exception:
            traceback.print_exc()
            print("ANALYSIS-ERROR: internal error in the checker for %s" % prop)
            return 2

    if args.cmd == 'replay':
        with open(args.path) as f:
            rep = json.load(f)
        print(json.dumps(rep, indent=1))
        try:
            code, ctx, _ = run_property(rep['property'], args.repo, 'quick', quiet=True, write=False)
        except AnalysisError as e:
            print("ANALYSIS-ERROR: %s" % e)
            return 2
        hit = [f for f in ctx.findings if f.rule == rep['rule'] and f.key == rep['key']]
        if hit:
            print("REPRODUCED: %s %s %s at %s:%s" % (rep['property'], rep['rule'], rep['key'],
                                                     hit[0].file, hit[0].line))
            print("VIOLATION property=%s replay=%s" % (rep['property'], args.path))
            return 1
        print("not reproduced on the current tree")
        return 0

    if args.cmd == 'selftest':
        from . import selftest
        return selftest.main(args.props or CLAIMED, args.repo, args.jobs, args.verbose)


if __name__ == '__main__':
    sys.exit(main())
