"""C10 - every CAIT match is a genuine embedding of the pattern in the student's code (structural guards)."""
import ast
import itertools
import re

from ..astutil import dotted, calls, call_name, body_walk, walk_local, is_self_attr, kw
from ..fdeval import FD, Obj, Raised, Inconclusive, truth
from ..loader import AnalysisError, norm, ancestors
from ..symbols import Symbols
from .c08 import classify_typed_equality

MATCH = 'pedal.cait.stretchy_tree_matching'
ASTMAP = 'pedal.cait.ast_map'
CLS = 'StretchyTreeMatcher.'

# ignores that callers may pass to shallow_match_main, each with the reason it cannot hide content
ALLOWED_IGNORES = {
    'ctx': 'load/store context never distinguishes two occurrences of the same code',
    '_id': 'synthetic attribute pedal sets itself for the symbol tables',
    'name': 'definition names go through the symbol table (shallow_match_xDef compares or binds them)',
    'args': 'argument lists are matched as children (shallow_match_arg), not as a primitive field',
}


def r1_kind_equality(ctx, sym, mod):
    ctx.rule('R1', "a mapping is produced only for nodes of the same syntactic kind: shallow_match_main's is_match "
                   "starts from type(ins).__name__ == type(std).__name__ and equal field counts, and returns a mapping "
                   "only under is_match; handlers that build an AstMap themselves test kind/field/meta first; every "
                   "shallow_match_X / deep_find_match_X handler names a real ast class or is called explicitly")
    fn = mod.func(CLS + 'shallow_match_main')
    ctx.analysed_function(mod, fn)
    from .c08 import shallow_match_table
    table = list(shallow_match_table(ctx, sym))
    for tag, desc, got, want in table:
        if tag not in ('kind', 'meta', 'structure'):
            continue
        ctx.check(got is want, 'R1', 'shallow_match_main[%s]:%s' % (tag, desc), mod, fn,
                  "%s: %s, expected %s" % (desc, 'a mapping' if got is True else ('no mapping' if got is False else got),
                                           'a mapping' if want else 'no mapping'),
                  "a Compare pattern matches a node of another kind with the same number of fields",
                  construct='shallow_match_main')
    # self-built maps in other handlers
    for name in ('shallow_match_Module', 'shallow_match_Pass', 'shallow_match_Expr'):
        f = mod.func(CLS + name)
        ctx.analysed_function(mod, f)
        maps = [c for c in calls(f) if call_name(c) == 'AstMap']
        guarded = True
        for m in maps:
            stmt = m
            while not isinstance(stmt, ast.stmt):
                stmt = stmt._parent
            inside_if = any(isinstance(a, ast.If) for a in ancestors(m) if a is not f)
            early = [n for n in f.body if isinstance(n, ast.If) and isinstance(n.body[-1], ast.Return)
                     and f.body.index(n) < f.body.index(_top(stmt, f))]
            guarded = guarded and (inside_if or bool(early))
        ctx.check(bool(maps) and guarded, 'R1', name + ':guarded', mod, f,
                  "%s builds a mapping without first testing kind / field / meta" % name,
                  "this handler pairs the pattern node with any student node")
    # shallow_match_xDef executed abstractly: a definition pattern matches a student definition only if the generic
    # shallow match holds AND the name is equal, a _var_ placeholder (which is then bound) or the ___ wildcard
    xd = mod.func(CLS + 'shallow_match_xDef')
    ctx.analysed_function(mod, xd)
    from ..fdeval import module_resolver

    def run_xdef(ins_name, std_name, is_match, has_mapping, meta):
        bound = []
        mapping = Obj('AstMap')
        for t in ('add_func_to_sym_table', 'add_class_to_sym_table', 'add_var_to_sym_table'):
            mapping.attrs['method:' + t] = (lambda nm: (lambda i, s_: bound.append(nm)))(t)
        me = Obj('matcher')
        me.attrs['__classdef__'] = mod.cls('StretchyTreeMatcher')
        ins = Obj('ins', astNode=Obj('ast.FunctionDef', name=ins_name, __open__=True), ast_name='FunctionDef',
                  __open__=True)
        std = Obj('std', astNode=Obj('ast.FunctionDef', name=std_name, __open__=True), ast_name='FunctionDef',
                  __open__=True)
        fd = FD(max_steps=100000, resolver=module_resolver(sym, mod))

        def re_compile(pattern, flags=0):
            rx = re.compile(pattern, flags)
            o = Obj('pattern %r' % pattern)
            o.attrs['method:match'] = lambda text: (Obj('match') if rx.match(text) else None)
            return o
        fd.calls['re.compile'] = re_compile
        fd.calls['len'] = len

        def b_getattr(o, nm, *d):
            if isinstance(o, Obj) and ('method:' + nm) in o.attrs:
                f = o.attrs['method:' + nm]
                g = lambda *a, **k: f(*a, **k)
                g._fd_callable = True
                return g
            if d:
                return d[0]
            raise Raised('AttributeError', nm)
        fd.calls['getattr'] = b_getattr
        maps = [mapping] if has_mapping else []
        try:
            got = fd.call_function(xd, [is_match, maps, ins, std, meta, 'add_func_to_sym_table'], bound_self=me)
        except Raised as e:
            return 'raises %s' % e.kind, bound
        except Inconclusive as e:
            raise AnalysisError("C10 R1: shallow_match_xDef outside the decidable fragment: %s" % e)
        return (bool(got) if isinstance(got, list) else got), bound
    for ins_name, std_name in (('foo', 'foo'), ('foo', 'bar'), ('_f_', 'bar'), ('___', 'bar'), ('__f__', 'bar')):
        for is_match, has_mapping, meta in itertools.product((True, False), repeat=3):
            name_ok = ins_name == std_name or ins_name in ('_f_', '___')
            want = bool(is_match and has_mapping and meta and name_ok)
            want_bound = want and ins_name == '_f_'
            got, bound = run_xdef(ins_name, std_name, is_match, has_mapping, meta)
            ctx.check(got is want and bool(bound) == want_bound, 'R1',
                      'shallow_match_xDef[%s vs %s,match=%s,mapping=%s,meta=%s]' % (
                          ins_name, std_name, is_match, has_mapping, meta), mod, xd,
                      "pattern `def %s` against `def %s` (generic match %s, %s mapping, meta %s): result %s, symbol "
                      "bound %s; expected %s / %s" % (ins_name, std_name, is_match, 'a' if has_mapping else 'no', meta,
                                                      got, bool(bound), want, want_bound),
                      "pattern `def foo(): pass` matches `def bar(): pass`")
    # handler names
    explicit = {c.func.attr for c in ast.walk(mod.tree) if isinstance(c, ast.Call) and isinstance(c.func, ast.Attribute)}
    explicit |= {n.attr for n in ast.walk(mod.tree) if isinstance(n, ast.Attribute)}
    cls = mod.cls('StretchyTreeMatcher')
    n = 0
    for m in cls.body:
        if isinstance(m, ast.FunctionDef) and (m.name.startswith('shallow_match_') or m.name.startswith('deep_find_match_')):
            kind = m.name.split('_match_', 1)[1]
            n += 1
            ctx.check(hasattr(ast, kind) or m.name in explicit, 'R1', 'handler:' + m.name, mod, m,
                      "%s is neither named after an ast class nor referenced: it can never be dispatched to" % m.name,
                      "the node kind it was written for is matched by the generic rule instead")
    ctx.floor('R1', 'dispatch handlers', n, 15)


def _top(stmt, fn):
    while getattr(stmt, '_parent', None) is not fn:
        stmt = stmt._parent
    return stmt


def r2_content_equality(ctx, sym, mod):
    ctx.rule('R2', "non-ignored primitive fields are compared on every path: the comparison is type-aware (C08.R7), "
                   "the None-shortcut for absent optional children does not skip Constant.value, is_primitive covers "
                   "every value type a Constant can hold, and callers pass only the four reasoned ignores")
    fn = mod.func(CLS + 'shallow_match_main')
    from .c08 import shallow_match_table
    n_lit = 0
    for tag, desc, got, want in shallow_match_table(ctx, sym):
        if tag not in ('literal', 'content', 'optional', 'ignores'):
            continue
        n_lit += 1
        key = {'literal': 'shallow_match_main:typed-compare:', 'content': 'shallow_match_main:content:',
               'optional': 'shallow_match_main:none-shortcut:', 'ignores': 'shallow_match_main:ignores:'}[tag] + desc
        ctx.check(got is want, 'R2', key, mod, fn,
                  "%s: %s, expected %s" % (desc, 'a mapping' if got is True else ('no mapping' if got is False else got),
                                           'a mapping' if want else 'no mapping'),
                  "the pattern `x = 1` matches `x = True`; find_matches('None') matches `x = 5`; a pattern containing "
                  "a bytes/complex literal matches every literal", construct='shallow_match_main')
    ctx.floor('R2', 'content pairs', n_lit, 150)
    # ignores passed by callers
    n = 0
    for c in ast.walk(mod.tree):
        if isinstance(c, ast.Call) and isinstance(c.func, ast.Attribute) and c.func.attr in (
                'shallow_match_main', 'deep_find_match_generic', 'shallow_symbol_handler'):
            ig = kw(c, 'ignores')
            if ig is None or (isinstance(ig, ast.Constant) and ig.value is None) or isinstance(ig, ast.Name):
                continue
            n += 1
            names = [e.value for e in ig.elts] if isinstance(ig, (ast.List, ast.Tuple)) else None
            ok = names is not None and all(x in ALLOWED_IGNORES for x in names)
            ctx.check(ok, 'R2', 'ignores:%s' % norm(ig), mod, c,
                      "fields %s are excluded from the comparison; only %s may be ignored" % (
                          norm(ig), sorted(ALLOWED_IGNORES)),
                      "two nodes that differ in the ignored field match")
    ctx.floor('R2', 'ignores call sites', n, 3)


def r3_ordered_children(ctx, sym, mod):
    ctx.rule('R3', "map_merge extends a base map only with a strictly later sibling (runSib > base_sib) and only "
                   "without symbol conflicts; binflex_helper likewise checks conflicts; operand swapping is reached "
                   "only for Add and Mult")
    mm = mod.func(CLS + 'map_merge')
    ctx.analysed_function(mod, mm)
    # map_merge executed abstractly on model maps: every (base map, run map) pair it returns must pair a base map
    # with a run map whose sibling index is strictly greater than *that base map's own* index, without conflicts
    def model_map(name, conflicts_with=()):
        o = Obj(name)

        def merged(other):
            m = Obj('merged(%s,%s)' % (name, other._name), parts=(o, other))
            bad = other._name in conflicts_with
            m.attrs['method:has_conflicts'] = lambda: bad
            return m
        o.attrs['method:new_merged_map'] = merged
        o.attrs['method:has_conflicts'] = lambda: False
        return o
    cases = {
        'one-base': ([('B0', 0)], [('R0', 0), ('R1', 1), ('R2', 2)], {}),
        'two-bases-different-positions': ([('B0', 0), ('B2', 2)], [('R0', 0), ('R1', 1), ('R2', 2), ('R3', 3)], {}),
        'later-base-first': ([('B3', 3), ('B1', 1)], [('R2', 2), ('R4', 4)], {}),
        'conflicting-extension': ([('B0', 0)], [('R1', 1), ('R2', 2)], {'B0': ('R1',)}),
        'nothing-later': ([('B5', 5)], [('R1', 1), ('R5', 5)], {}),
    }
    for cname, (bases, runs, confl) in cases.items():
        bmaps = [model_map(n, confl.get(n, ())) for n, _ in bases]
        rmaps = [[model_map(n)] for n, _ in runs]
        fd = FD(max_steps=100000)
        fd.calls['len'] = lambda x: len(x)
        me = Obj('matcher')
        try:
            got = fd.call_function(mm, [bmaps, [i for _, i in bases], rmaps, [i for _, i in runs]], bound_self=me)
        except Raised as e:
            got = 'raises %s' % e.kind
        except Inconclusive as e:
            raise AnalysisError("C10 R3: map_merge outside the decidable fragment: %s" % e)
        want = [(bn, rn, ri) for (bn, bi) in bases for (rn, ri) in runs
                if ri > bi and rn not in confl.get(bn, ())]
        if isinstance(got, dict):
            pairs = [(m.attrs['parts'][0]._name, m.attrs['parts'][1]._name, sib)
                     for m, sib in zip(got.get('new_maps', []), got.get('new_sibs', []))]
        elif got is None:
            pairs = []
        else:
            pairs = got
        ctx.check(isinstance(pairs, list) and sorted(pairs) == sorted(want), 'R3', 'map_merge:' + cname, mod, mm,
                  "map_merge(%s, %s) extends %s; only %s pair a base map with a strictly later, conflict-free "
                  "sibling" % (bases, runs, pairs, want),
                  "pattern `a = 1\nb = 2` matches the program `b = 2\na = 1` (children out of order), both pattern "
                  "statements map to the same student statement, or `_x_ = 1\nprint(_x_)` matches `a = 1\nprint(b)`")
    bh = mod.func(CLS + 'binflex_helper')
    ctx.analysed_function(mod, bh)
    appends = [c for c in calls(bh) if isinstance(c.func, ast.Attribute) and c.func.attr == 'append']
    ok = bool(appends) and all(any('has_conflicts()' in norm(x.test) and norm(x.test).startswith('not ')
                                   for x in ancestors(a) if isinstance(x, ast.If)) for a in appends)
    ctx.check(ok, 'R3', 'binflex_helper:no-conflicts', mod, bh,
              "operand-swapped matches are kept although placeholder bindings conflict",
              "`_x_ + _x_` matches `a + b`")
    bo = mod.func(CLS + 'deep_find_match_BinOp')
    ctx.analysed_function(mod, bo)
    fd_ok = True
    for op, want in (('Add', 'flex'), ('Mult', 'flex'), ('Sub', 'generic'), ('Div', 'generic'), ('Pow', 'generic'),
                     ('Mod', 'generic'), ('MatMult', 'generic'), ('BitOr', 'generic')):
        fd = FD()
        me = Obj('matcher')
        me.attrs['method:deep_find_match_generic'] = lambda *a, **k: 'generic'
        me.attrs['method:deep_find_match_binflex'] = lambda *a, **k: 'flex'
        node = Obj('ins', astNode=Obj('binop', op=Obj(op, kindname=op)))
        fd.calls['type'] = lambda o: Obj('type', __name__=o.attrs['kindname'])
        try:
            got = fd.call_function(bo, [node, Obj('std')], bound_self=me)
        except (Raised, Inconclusive) as e:
            raise AnalysisError("C10 R3: deep_find_match_BinOp outside the decidable fragment: %s" % e)
        ctx.check(got == want, 'R3', 'BinOp[%s]' % op, mod, bo,
                  "operator %s is matched %s" % (op, 'with operand swapping' if got == 'flex' else 'in order only'),
                  "pattern `a - b` matches `b - a`" if got == 'flex' else "pattern `a + b` no longer matches `b + a`")


def astmap_session(sym, mod):
    """An interpreter in which AstMap / AstSymbol / AstSymbolList of pedal.cait.ast_map are built by executing their own
    constructors, and model CaitNodes pass the isinstance checks."""
    from ..fdeval import module_resolver
    map_cls, sym_cls = mod.cls('AstMap'), mod.cls('AstSymbol')
    sl = sym.find_class(ASTMAP, 'AstSymbolList')
    fd = FD(max_steps=400000, resolver=module_resolver(sym, mod))

    def new_obj(clsnode, name):
        def make(*a, **k):
            o = Obj(name)
            o.attrs['__classdef__'] = clsnode
            init = [m for m in clsnode.body if isinstance(m, ast.FunctionDef) and m.name == '__init__']
            if init:
                fd.call_function(init[0], list(a), k, bound_self=o)
            return o
        return make
    fd.calls['AstMap'] = new_obj(map_cls, 'AstMap')
    fd.calls['AstSymbol'] = new_obj(sym_cls, 'AstSymbol')
    fd.calls['AstSymbolList'] = new_obj(sl.node, 'AstSymbolList')

    def b_isinstance(o, t):
        ts = t if isinstance(t, tuple) else (t,)
        for x in ts:
            if x == 'CaitNode' and isinstance(o, Obj) and o._name.startswith('CaitNode'):
                return True
            if isinstance(x, str) and isinstance(o, Obj) and o._name == x:
                return True
            if isinstance(x, type) and not isinstance(o, Obj) and isinstance(o, x):
                return True
        return False
    fd.calls['isinstance'] = b_isinstance
    fd.calls['type'] = lambda o: o._name if isinstance(o, Obj) else type(o)
    fd.calls['getattr'] = lambda o, n, *d: o.attrs[n] if isinstance(o, Obj) and n in o.attrs else (
        d[0] if d else (_ for _ in ()).throw(Raised('AttributeError', n)))
    inner = fd.resolver
    fd.resolver = lambda n: 'CaitNode' if n == 'CaitNode' else inner(n)
    return fd


def r4_single_binding(ctx, sym):
    ctx.rule('R4', "add_x_to_sym_table (decision table by abstract interpretation) records a conflict whenever a "
                   "placeholder key is bound to symbols with different ids; merge_map_with re-adds every symbol of "
                   "the other map through the add_* functions; has_conflicts is len(conflict_keys) > 0")
    mod = ctx.repo.module(ASTMAP)
    fn = mod.func('AstMap.add_x_to_sym_table')
    ctx.analysed_function(mod, fn)
    sl = sym.find_class(ASTMAP, 'AstSymbolList')
    for ids, want in ((['a'], 0), (['a', 'a'], 0), (['a', 'b'], 1), (['a', 'a', 'b'], 1), (['a', 'b', 'a'], 1)):
        from ..fdeval import module_resolver
        fd = FD(max_steps=100000, resolver=module_resolver(sym, mod))

        def new_symbol_list():
            o = fd.instantiate('AstSymbolList', dict(sl.methods), closed=False)
            o.attrs['__classdef__'] = sl.node
            return o
        fd.calls['AstSymbolList'] = new_symbol_list
        fd.calls['len'] = lambda x: len(x)
        me = Obj('map', conflict_keys=[])
        table = {}

        def iter_list(o):
            return o
        last = None
        try:
            for i in ids:
                sym_obj = Obj('sym', id=i)
                # AstSymbolList is iterated / membership-tested: model it as a plain list holder
                fd2 = fd
                last = fd.call_function(fn, ['_x_', sym_obj, table], bound_self=me)
        except Inconclusive as e:
            raise AnalysisError("C10 R4: add_x_to_sym_table outside the decidable fragment: %s" % e)
        except Raised as e:
            last = ('raised', e.kind)
        ctx.check(last == want, 'R4', 'add_x_to_sym_table%s' % ids, mod, fn,
                  "binding _x_ to identifiers %s yields %r conflict(s), expected %d" % (ids, last, want),
                  "`_x_ = 1\\nprint(_x_)` against `%s = 1\\nprint(%s)`" % (ids[0], ids[-1]))
    # AstMap as a whole, executed abstractly: maps are built through add_var_to_sym_table / merge_map_with /
    # new_merged_map and asked has_conflicts(); a placeholder bound to two different names must be a conflict however
    # the two bindings came together, a conflict must survive later merges, and merging must not alias tables
    from ..fdeval import module_resolver
    map_cls, sym_cls = mod.cls('AstMap'), mod.cls('AstSymbol')
    for name in ('has_conflicts', 'merge_map_with', 'new_merged_map', 'add_var_to_sym_table'):
        ctx.analysed_function(mod, mod.func('AstMap.' + name))

    def session():
        return astmap_session(sym, mod)

    def student(name):
        return Obj('CaitNode<%s>' % name, ast_name='Name', astNode=Obj('ast.Name', _id=name, id=name), _id=name,
                   lineno=1)

    def run_map(fd, build):
        try:
            return build(fd)
        except Inconclusive as e:
            raise AnalysisError("C10 R4: AstMap outside the decidable fragment: %s" % e)
        except Raised as e:
            return 'raises %s (%s)' % (e.kind, e.detail)

    def bind(fd, m, key, name):
        fd.call_method(m, 'add_var_to_sym_table', [key, student(name)])

    def conflicts(fd, m):
        return truth(fd.call_method(m, 'has_conflicts', []))
    scenarios = {}

    def sc(name, want):
        def deco(f):
            scenarios[name] = (f, want)
            return f
        return deco

    @sc('same-key-different-names-merged', True)
    def _(fd):
        m1, m2 = fd.calls['AstMap'](), fd.calls['AstMap']()
        bind(fd, m1, '_x_', 'a')
        bind(fd, m2, '_x_', 'b')
        return conflicts(fd, fd.call_method(m1, 'new_merged_map', [m2]))

    @sc('same-key-same-name-merged', False)
    def _(fd):
        m1, m2 = fd.calls['AstMap'](), fd.calls['AstMap']()
        bind(fd, m1, '_x_', 'a')
        bind(fd, m2, '_x_', 'a')
        return conflicts(fd, fd.call_method(m1, 'new_merged_map', [m2]))

    @sc('different-keys-merged', False)
    def _(fd):
        m1, m2 = fd.calls['AstMap'](), fd.calls['AstMap']()
        bind(fd, m1, '_x_', 'a')
        bind(fd, m2, '_y_', 'b')
        return conflicts(fd, fd.call_method(m1, 'new_merged_map', [m2]))

    @sc('conflict-survives-a-later-merge', True)
    def _(fd):
        m1, m2 = fd.calls['AstMap'](), fd.calls['AstMap']()
        bind(fd, m1, '_x_', 'a')
        bind(fd, m1, '_x_', 'b')
        bind(fd, m2, '_y_', 'c')
        return conflicts(fd, fd.call_method(m1, 'new_merged_map', [m2]))

    @sc('conflict-in-the-other-map-survives', True)
    def _(fd):
        m1, m2 = fd.calls['AstMap'](), fd.calls['AstMap']()
        bind(fd, m1, '_y_', 'c')
        bind(fd, m2, '_x_', 'a')
        bind(fd, m2, '_x_', 'b')
        return conflicts(fd, fd.call_method(m1, 'new_merged_map', [m2]))

    @sc('in-place-merge-detects', True)
    def _(fd):
        m1, m2 = fd.calls['AstMap'](), fd.calls['AstMap']()
        bind(fd, m1, '_x_', 'a')
        bind(fd, m2, '_x_', 'b')
        fd.call_method(m1, 'merge_map_with', [m2])
        return conflicts(fd, m1)

    @sc('merged-map-does-not-alias-its-sources', False)
    def _(fd):
        m1, m2 = fd.calls['AstMap'](), fd.calls['AstMap']()
        bind(fd, m1, '_x_', 'a')
        bind(fd, m2, '_y_', 'c')
        merged = fd.call_method(m1, 'new_merged_map', [m2])
        bind(fd, merged, '_x_', 'b')        # extending the merged map ...
        return conflicts(fd, m1) or conflicts(fd, m2)   # ... must not change the maps it was built from

    @sc('expression-table-not-shared-with-sources', False)
    def _(fd):
        m1, m2 = fd.calls['AstMap'](), fd.calls['AstMap']()
        ins_a = Obj('CaitNode<__a__>', astNode=Obj('ast.Name', id='__a__', _id='__a__'))
        ins_b = Obj('CaitNode<__b__>', astNode=Obj('ast.Name', id='__b__', _id='__b__'))
        fd.call_method(m1, 'add_exp_to_sym_table', [ins_a, student('e1')])
        merged = fd.call_method(m2, 'new_merged_map', [m1])
        fd.call_method(merged, 'add_exp_to_sym_table', [ins_b, student('e2')])
        return '__b__' in m1.attrs['exp_table'] or '__b__' in m2.attrs['exp_table']

    @sc('merge-with-None-is-a-no-op', False)
    def _(fd):
        m1 = fd.calls['AstMap']()
        bind(fd, m1, '_x_', 'a')
        fd.call_method(m1, 'merge_map_with', [None])
        return conflicts(fd, m1)
    # __expr__ placeholders: the binding made by the match in progress stands at the placeholder's position; a map
    # inherited from an earlier match (use_previous) that bound the same placeholder name must not replace it
    def expr_node(name):
        return Obj('CaitNode<%s>' % name, astNode=Obj('ast.Name', id=name, _id=name))

    def expr_scenario(build, larger_current=False):
        fd = session()
        prev, cur = fd.calls['AstMap'](), fd.calls['AstMap']()
        old, new = student('earlier_subtree'), student('subtree_at_position')
        fd.call_method(prev, 'add_exp_to_sym_table', [expr_node('__a__'), old])
        fd.call_method(cur, 'add_exp_to_sym_table', [expr_node('__a__'), new])
        if larger_current:
            # the match in progress has paired more nodes than the inherited one
            for i in range(3):
                fd.call_method(cur, 'add_node_pairing', [expr_node('__n%d__' % i), student('node%d' % i)])
        merged = build(fd, prev, cur)
        got = [m.attrs['exp_table'].get('__a__') if isinstance(m, Obj) else 'not a map: %r' % (m,) for m in merged]
        return got, old, new
    tmod = ctx.repo.module(MATCH)
    bh = tmod.func('StretchyTreeMatcher.binflex_helper')
    ctx.analysed_function(tmod, bh)

    def via_binflex(fd, prev, cur):
        base, right = fd.calls['AstMap'](), fd.calls['AstMap']()
        out = []
        fd.call_function(bh, [[cur], [right], out, [base]], {'use_previous': prev},
                         bound_self=Obj('matcher', __open__=True))
        return out

    def via_binflex_right(fd, prev, cur):
        base, left = fd.calls['AstMap'](), fd.calls['AstMap']()
        out = []
        fd.call_function(bh, [[left], [cur], out, [base]], {'use_previous': prev},
                         bound_self=Obj('matcher', __open__=True))
        return out
    expr_cases = {
        'inherited-then-current(new_merged_map)': lambda fd, prev, cur: [fd.call_method(prev, 'new_merged_map', [cur])],
        'inherited-then-current(merge_map_with)': lambda fd, prev, cur: (fd.call_method(prev, 'merge_map_with', [cur]),
                                                                         [prev])[1],
        'binflex_helper(left operand)': via_binflex,
        'binflex_helper(right operand)': via_binflex_right,
    }
    expr_cases.update({k + '[current map larger]': v for k, v in list(expr_cases.items()) if 'binflex' not in k})
    for name, build in expr_cases.items():
        try:
            got, old, new = expr_scenario(build, larger_current='current map larger' in name)
        except Inconclusive as e:
            raise AnalysisError("C10 R4: %s outside the decidable fragment: %s" % (name, e))
        except Raised as e:
            got, old, new = ['raises %s' % e.kind], None, None
        where = bh if name.startswith('binflex') else mod.func('AstMap.merge_map_with')
        ctx.check(len(got) == 1 and got[0] is new, 'R4', 'AstMap:__expr__-bound-at-position[%s]' % name,
                  tmod if name.startswith('binflex') else mod, where,
                  "a match in progress binds __a__ to the subtree at its position while the inherited earlier match "
                  "bound __a__ elsewhere; after %s the placeholder is bound to %s" % (
                      name, ['the earlier subtree' if g is old else g for g in got]),
                  "m = find_match('for _i_ in ___:\\n    __expr__'); m['__expr__'].find_match('__expr__ + _i_')"
                  "['__expr__'] is the whole statement instead of the left operand")
    for name, (build, want) in scenarios.items():
        got = run_map(session(), build)
        ctx.check(got is want, 'R4', 'AstMap:' + name, mod, mod.func('AstMap.merge_map_with'),
                  "scenario %s: has_conflicts() is %r, expected %r" % (name, got, want),
                  "`_x_ + 1` in one statement and `_x_ * 2` in the next bind _x_ to different variables, and the "
                  "match is still returned")


def r5_placeholders(ctx, sym, mod):
    ctx.rule('R5', "placeholder classes: the three _name_regex patterns (regex ASTs and exhaustive short-string "
                   "enumeration) make ___ match only WILD and EXP-or-WILD consistently, VAR requires a non-underscore "
                   "second character; the three classes are pairwise disjoint, so the order in which the dispatchers "
                   "test them is immaterial")
    # (the classifier may live in another pedal module and be imported under this name)
    fn = mod.func('_name_regex')
    fmod = fn._module
    ctx.analysed_function(fmod, fn)
    # _name_regex executed abstractly; re.compile/match are the stdlib's own, applied to the literals found in pedal
    from ..fdeval import module_resolver

    def re_compile(pattern, flags=0):
        if not isinstance(pattern, str):
            raise Inconclusive('re.compile of a non-literal')
        rx = re.compile(pattern, flags)
        o = Obj('pattern %r' % pattern)
        o.attrs['method:match'] = lambda text: (Obj('match') if rx.match(text) else None)
        o.attrs['method:fullmatch'] = lambda text: (Obj('match') if rx.fullmatch(text) else None)
        o.attrs['method:search'] = lambda text: (Obj('match') if rx.search(text) else None)
        return o
    fd = FD(max_steps=10 ** 7, resolver=module_resolver(sym, fmod))
    fd.calls['re.compile'] = re_compile
    fd.calls['re.match'] = lambda p, t, flags=0: (Obj('match') if re.match(p, t, flags) else None)
    keys = {}
    for k in ('_VAR', '_EXP', '_WILD'):
        try:
            keys[k] = sym.const(mod, ast.parse(k, mode='eval').body)
        except KeyError:
            raise AnalysisError("C10 R5: placeholder key %s is not a constant" % k)

    class _Comp:
        def __init__(self, key):
            self.key = key

        def match(self, text):
            try:
                res = fd.call_function(fn, [text])
            except (Raised, Inconclusive) as e:
                raise AnalysisError("C10 R5: _name_regex outside the decidable fragment: %s" % e)
            if not isinstance(res, dict) or self.key not in res:
                raise AnalysisError("C10 R5: _name_regex no longer returns the three placeholder classes")
            return res[self.key]
    comp = {'var_match': _Comp(keys['_VAR']), 'exp_match': _Comp(keys['_EXP']), 'wild_card': _Comp(keys['_WILD'])}
    import itertools
    alphabet = '_ab'
    n = 0
    bad = []
    for L in range(1, 7):
        for chars in itertools.product(alphabet, repeat=L):
            s = ''.join(chars)
            n += 1
            v, e, w = (bool(comp[k].match(s)) for k in ('var_match', 'exp_match', 'wild_card'))
            # specification of the three placeholder classes (cait docs): ___ wildcard, __name__ expression (len>=5),
            # _name_ variable (starts with exactly one underscore, ends with underscore)
            want_w = s == '___'
            want_v = len(s) >= 3 and s[0] == '_' and s[1] != '_' and s[-1] == '_'
            if w != want_w or v != want_v or (v and (e or w)):
                bad.append((s, v, e, w))
            if e and not (s.startswith('__') and s.endswith('__') and len(s) >= 4):
                bad.append((s, v, e, w))
    ctx.check(not bad, 'R5', '_name_regex:classes', fmod, fn,
              "placeholder classes overlap or deviate: %s" % bad[:4],
              "an identifier like %r is treated as the wrong kind of placeholder" % (bad[0][0] if bad else ''),
              sample={'strings': n})
    # (the order in which the two dispatchers test the classes cannot matter once the classes are disjoint, which the
    # enumeration above establishes; how each dispatcher treats a name of each class is decided by execution under
    # C11.R2 and C11.R6)
    for name in ('deep_find_match_Name', 'shallow_symbol_handler'):
        ctx.analysed_function(mod, mod.func(CLS + name))


def r6_fresh_pattern_tree(ctx, sym):
    ctx.rule('R6', "CaitNode.find_matches executed abstractly twice with the same pattern text (the second time on a node "
                   "taken from a match of the first, inheriting that match): each call builds a pattern tree of its "
                   "own. Mappings are keyed by the pattern's node objects and the inherited map is merged over the new "
                   "root pairing, so a pattern tree shared between the two matches would let the earlier root "
                   "pairing replace the new one")
    from .. import symexec
    nmod = ctx.repo.module('pedal.cait.cait_node')
    fn = nmod.func('CaitNode.find_matches')
    ctx.analysed_function(nmod, fn)
    built = []

    # the matcher class is pedal's own (constructed for real, through whatever helper or classmethod builds it); only
    # parsing and tree wrapping are modelled, and the search itself is replaced by a recorder
    def parse(text, *a, **k):
        return Obj('ast-of-pattern', text=text)

    def wrap(tree, *a, **k):
        root = Obj('CaitNode', children=[Obj('CaitNode')], field='none', ast_name='Module', tree=tree)
        built.append(root)
        return root
    store = {}
    report = Obj('report', __open__=True)
    symexec.method(report, '__getitem__', lambda k: store.setdefault(k, {}))
    symexec.method(report, '__setitem__', lambda k, v: store.__setitem__(k, v))
    symexec.method(report, '__contains__', lambda k: k in store)
    outer = symexec.self_obj(nmod, 'CaitNode', report=report, map=None, children=[], ast_name='If')
    inner = symexec.self_obj(nmod, 'CaitNode', report=report, map=Obj('AstMap-of-first-match'), children=[],
                             ast_name='If')
    fd = symexec.new_fd(sym, nmod, calls={
        'ast.parse': parse, 'CaitNode': wrap,
        'isinstance': lambda o, t: isinstance(o, t) if isinstance(t, (type, tuple)) else (
            isinstance(o, Obj) and o._name == 'CaitNode' and 'tree' not in o.attrs and False)})
    fd.methods['find_matches'] = lambda recv, node, *a, **kw: [Obj('AstMap', root=recv.attrs.get('root_node'),
                                                                  searched=node)]
    results = []
    for node in (outer, inner):
        got, raised = symexec.run(fd, fn, ['if __cond__:\n    __inner__'], bound_self=node,
                                  what='CaitNode.find_matches')
        results.append((got, raised))
    roots = [r[0][0].attrs.get('root') for r in results if r[1] is None and isinstance(r[0], list) and r[0]]
    ok = len(roots) == 2 and roots[0] is not roots[1] and len(built) == 2
    ctx.check(ok, 'R6', 'CaitNode.find_matches:fresh-pattern-tree', nmod, fn,
              "two calls with the same pattern text built %d pattern tree(s)%s" % (
                  len(built), ''.join(' (raises %s)' % r[1].kind for r in results if r[1] is not None)),
              "descending nested `if a: if b: if c:` with the pattern `if __cond__:\\n    __inner__` level by level: at "
              "level 2 the match root is the level-1 statement")


def r7_no_state_between_matches(ctx, sym):
    ctx.rule('R7', "what a pattern matches does not depend on the patterns matched before it in the process: no function "
                   "of pedal.cait mutates a module-level or class-level object (directly, through a local alias of it, or "
                   "by sharing the entries of a module-level template) - who-writes sweep shared with C13.R1")
    from .c13 import inventory
    n = 0
    for key, m, fn, node, kind in inventory(ctx, sym):
        if not (m.name.startswith('pedal.cait') or key.startswith('pedal.cait')):
            continue
        n += 1
        q = getattr(fn, '_qualname', fn.name)
        ctx.fail('R7', 'state:%s@%s' % (key, q), m, node,
                 "%s changes the process-lifetime object %s (%s): later matches see what earlier ones left there" % (
                     q, key, kind),
                 "find_matches('def _f_(): pass', ...) first; afterwards find_matches('import math', 'import random') "
                 "returns a match", function=q)
    if not n:
        ctx.ok('R7', 'sweep', sample='no run-time write to module- or class-level state in pedal.cait', nontrivial=False)
    # (a rule whose expected count is zero: the sweep itself is exercised by C13.R1, which must find its known objects)


def run(ctx):
    sym = Symbols(ctx.repo)
    mod = ctx.repo.module(MATCH)
    r1_kind_equality(ctx, sym, mod)
    r2_content_equality(ctx, sym, mod)
    r3_ordered_children(ctx, sym, mod)
    r4_single_binding(ctx, sym)
    r5_placeholders(ctx, sym, mod)
    r6_fresh_pattern_tree(ctx, sym)
    r7_no_state_between_matches(ctx, sym)
    ctx.assume("that the composition of these guards over the recursion yields an embedding for every program/pattern "
               "pair is an inductive argument about the algorithm and is not decided; __expr__ rebinding "
               "(add_exp_to_sym_table overwrites without conflict, by its own docstring) is not decided")
