"""C04 - student-code failures are contained and reported, never raised into the grader."""
import ast
import string

from ..astutil import dotted, calls, call_name, body_walk, walk_local, is_self_attr, kw
from ..callgraph import resolve_call, bind_args, Callee, class_of_function
from ..cfg import CFG, ALL_EXC, EXCEPTION_DOWN, describe, down
from ..loader import AnalysisError, norm, enclosing_function, ancestors
from ..symbols import Symbols, ClassInfo
from ..tables import literal, Sym
from .c05 import is_self_call, STUDENT_EXEC

SANDBOX = 'pedal.sandbox.sandbox'
FEEDBACKS = 'pedal.sandbox.feedbacks'
MOCKED = 'pedal.sandbox.mocked'
TIMEOUT = 'pedal.sandbox.timeout'

CONTAINED = EXCEPTION_DOWN | down(SystemExit)


def exec_raises(n):
    if isinstance(n, ast.withitem):
        return ALL_EXC
    for c in walk_local(n):
        if isinstance(c, ast.Call) and call_name(c) in STUDENT_EXEC:
            return ALL_EXC
    return ()


def r1_sites_guarded(ctx, sym):
    ctx.rule('R1', "every exec/eval/compile call in pedal/sandbox is inside a try whose handlers keep every "
                   "Exception atom and SystemExit from reaching the caller, or lives in a function referenced only "
                   "from closures installed as student-visible builtins / from itself through timeout(...)")
    sites = []
    for m in ctx.repo.modules.values():
        if not m.name.startswith('pedal.sandbox'):
            continue
        for q, fn in m.all_functions:
            for c in calls(fn):
                if isinstance(c.func, ast.Name) and c.func.id in STUDENT_EXEC:
                    sites.append((m, fn, c))
    ctx.floor('R1', 'exec/eval/compile sites', len(sites), 4)
    by_fn = {}
    for m, fn, c in sites:
        by_fn.setdefault((m.name, fn._qualname), (m, fn, []))[2].append(c)
    for (mn, q), (m, fn, cs) in sorted(by_fn.items()):
        ctx.analysed_function(m, fn)
        g = CFG(fn, raises=exec_raises)
        ctx.analysed['cfgs'] += 1
        escaping = set()
        witness = None
        for p, label in g.pred[g.xexit.id]:
            node = g.nodes[p]
            if isinstance(label, frozenset) and label & CONTAINED:
                # ignore explicit re-raises that only carry non-contained atoms
                escaping |= (label & CONTAINED)
                witness = witness or node
        key = "%s:%s" % (q, '+'.join(sorted({call_name(c) for c in cs})))
        if not escaping:
            ctx.ok('R1', key, sample='guarded: no Exception/SystemExit atom leaves %s' % q)
            continue
        if q == 'Sandbox._execute' and m.name == SANDBOX:
            # the CFG is path-insensitive: a single `except BaseException as e:` that re-raises only what is neither an
            # Exception nor a SystemExit looks like an escape. Decide by execution: every contained kind, raised at
            # every raise point, must leave _execute normally (the scenarios of R2).
            import builtins as _b1
            from .c05 import execute_scenarios
            escaped_kinds, n_sc = [], 0
            for where, kind, ob in execute_scenarios(ctx, sym, m):
                if kind is None:
                    continue
                cls = getattr(_b1, kind)
                if issubclass(cls, Exception) or issubclass(cls, SystemExit):
                    n_sc += 1
                    if ob['raised'] is not None:
                        escaped_kinds.append((where, ob['label'], ob['raised'].kind))
            if n_sc >= 12 and not escaped_kinds:
                ctx.ok('R1', key, sample='guarded (decided by abstract execution of %d raise point x exception kind '
                                         'scenarios: the handler re-raises only other BaseExceptions)' % n_sc)
                continue
        # (b) reachable only from student-visible builtins
        refs = []
        for m2 in ctx.repo.modules.values():
            for n in ast.walk(m2.tree):
                if isinstance(n, ast.Attribute) and n.attr == fn.name:
                    refs.append((m2, n))
        ok = bool(refs)
        why = ''
        for m2, ref in refs:
            f2 = enclosing_function(ref)
            if f2 is fn:
                par = getattr(ref, '_parent', None)
                if isinstance(par, ast.Call) and call_name(par) == 'timeout' and ref in par.args:
                    continue
                ok, why = False, "self-reference outside timeout(...) at %s" % m2.loc(ref)
                continue
            outer = enclosing_function(f2) if f2 is not None else None
            if f2 is not None and outer is not None and outer.name.startswith('create_') and \
                    _installed_as_builtin(ctx, outer.name):
                continue
            ok, why = False, "referenced from %s at %s" % (getattr(f2, '_qualname', '<module>'), m2.loc(ref))
        ctx.check(ok, 'R1', key, m, cs[0],
                  "student code is executed here with {%s} able to reach the caller, and the function is not "
                  "confined to the dynamic extent of a guarded execution (%s)" % (describe(escaping), why),
                  "a student program raising an exception (or calling exit()) at this execution site: run()/call() "
                  "raises into the instructor script instead of returning",
                  sample='only reachable from student-visible builtins (dynamic extent of a guarded exec)')


def _installed_as_builtin(ctx, factory_name):
    mod = ctx.repo.module(SANDBOX)
    fn = mod.func('Sandbox.reset_default_overrides')
    for c in calls(fn):
        if is_self_call(c, 'mock_function') and len(c.args) == 2 and isinstance(c.args[1], ast.Call) \
                and (call_name(c.args[1]) or '').split('.')[-1] == factory_name:
            return True
    return False


def r2_handler_discipline(ctx, sym):
    ctx.rule('R2', "Sandbox._execute executed abstractly for every raise point (compile, tracer enter, exec, tracer "
                   "exit) x exception class: an Exception or SystemExit releases the mocks, then calls "
                   "_capture_exception exactly once with the caught exception object and sys.exc_info(), and "
                   "_execute returns normally; other BaseExceptions are released and propagate unrecorded; a clean "
                   "run records nothing")
    from .c05 import execute_scenarios
    mod = ctx.repo.module(SANDBOX)
    fn = mod.func('Sandbox._execute')
    import builtins
    n = 0
    for where, kind, ob in execute_scenarios(ctx, sym, mod):
        n += 1
        rec, raised = ob['rec'], ob['raised']
        caps = rec.named('_capture_exception')
        tag = '_execute[%s raises %s]' % (where, ob['label'])
        contained = kind is not None and (issubclass(getattr(builtins, kind), Exception) or kind == 'SystemExit')
        if kind is None:
            ctx.check(raised is None and not caps and ob['value'] is ob['me'], 'R2', tag + ':clean', mod, fn,
                      "a clean execution records %d exception(s)%s" % (
                          len(caps), '' if raised is None else ' and raises ' + raised.kind),
                      "every run is reported as failed")
            continue
        if contained:
            ctx.check(raised is None, 'R2', tag + ':returns-normally', mod, fn,
                      "%s raised at %s leaves _execute (%s)" % (kind, where, getattr(raised, 'kind', '')),
                      "a failing student program makes run() raise", function='Sandbox._execute')
            ctx.check(len(caps) == 1, 'R2', tag + ':captures', mod, fn,
                      "%s raised at %s is recorded %d time(s)" % (kind, where, len(caps)),
                      "a student exception of this kind is swallowed silently (or reported twice): no "
                      "sandbox.exception, no feedback", function='Sandbox._execute')
            if len(caps) == 1:
                a_ = caps[0][1]
                ctx.check(len(a_) >= 2 and a_[0] is ob['exc'] and a_[1] is ob['exc_info'], 'R2', tag + ':args', mod,
                          fn, "_capture_exception is not given the caught exception and sys.exc_info()",
                          "sandbox.exception is not the student's exception / the traceback is lost",
                          function='Sandbox._execute')
                ctx.check(rec.order('_stop_mocking', '_capture_exception') == ['_stop_mocking', '_capture_exception'],
                          'R2', tag + ':release-first', mod, fn,
                          "the mocks are not released (once) before the failure is recorded: order %s" % (
                              rec.order('_stop_mocking', '_capture_exception'),),
                          "pedal builds the feedback while sys.stdout is still the capture buffer",
                          function='Sandbox._execute')
        else:
            ctx.check(raised is not None and raised.kind == kind and not caps, 'R2', tag + ':propagates', mod, fn,
                      "%s raised at %s: %s, %d capture(s)" % (
                          kind, where, 'swallowed' if raised is None else 'leaves as ' + raised.kind, len(caps)),
                      "Ctrl-C during grading is reported as a student error / swallowed", function='Sandbox._execute')
    ctx.floor('R2', '_execute scenarios', n, 20)


def runtime_classes(ctx, sym):
    fmod = ctx.repo.module(FEEDBACKS)
    table = literal(fmod.top_assign('EXCEPTION_FF_MAP'), resolve_consts=False)
    return fmod, table


def r3_exactly_one_feedback(ctx, sym):
    ctx.rule('R3', "_capture_exception stores the exception, then constructs exactly one feedback on every path, "
                   "drawn from EXCEPTION_FF_MAP.get(type(self.exception), runtime_error); every map value and the "
                   "default derive runtime_error (category 'runtime', always triggered); no other Feedback is "
                   "constructed in its call closure; location is the traceback's line number")
    mod = ctx.repo.module(SANDBOX)
    fn = mod.func('Sandbox._capture_exception')
    ctx.analysed_function(mod, fn)
    fmod, table = runtime_classes(ctx, sym)
    base = sym.find_class(FEEDBACKS, 'runtime_error')
    feedback_base = sym.find_class('pedal.core.feedback', 'Feedback')
    ctx.floor('R3', 'EXCEPTION_FF_MAP rows', len(table), 8)
    for exc_name, cls_name in sorted(table.items()):
        ci = sym.resolve_name(fmod, str(cls_name))
        ok = isinstance(ci, ClassInfo) and base in sym.mro(ci)
        ctx.check(ok, 'R3', "EXCEPTION_FF_MAP[%s]" % exc_name, fmod, fmod.top_assign('EXCEPTION_FF_MAP'),
                  "%s maps to %s, which is not a runtime_error feedback" % (exc_name, cls_name),
                  "student code raising %s is reported with a non-runtime feedback" % exc_name,
                  construct="%s: %s" % (exc_name, cls_name))
        if ok:
            # the class must not change category / condition / __init__ contract
            for attr in ('category', 'condition', '_handle_condition', 'muted', 'activate'):
                owner = sym.class_attr(ci, attr)
                if attr == 'category':
                    val = sym.const(owner[0].module, owner[1], scope=owner[0]) if owner else None
                    ctx.check(val == 'runtime', 'R3', "%s.category" % cls_name, ci.module, ci.node,
                              "feedback class %s has category %r, not 'runtime'" % (cls_name, val),
                              "the failure is not reported in the runtime category", construct='category')
                elif owner is not None and owner[0] is not feedback_base and attr in ('condition', '_handle_condition'):
                    ctx.fail('R3', "%s.%s" % (cls_name, attr), ci.module, owner[1],
                             "runtime feedback class overrides %s" % attr,
                             "the runtime feedback may not be attached to the report")
    # the exception-class keys must be the classes the rows describe
    for exc_name, cls_name in table.items():
        want = str(exc_name).replace('Error', '').replace('IO', 'io').lower()
        got = str(cls_name).replace('_error', '').replace('_', '').lower()
        ctx.check(want == got or str(cls_name) == 'runtime_error' or
                  (str(exc_name), str(cls_name)) in (('IOError', 'io_error'),), 'R3',
                  "EXCEPTION_FF_MAP[%s]:describes" % exc_name, fmod, fmod.top_assign('EXCEPTION_FF_MAP'),
                  "%s is reported by %s, which describes another exception class" % (exc_name, cls_name),
                  "student code raising %s gets the explanation of a different error" % exc_name,
                  construct="%s: %s" % (exc_name, cls_name))
    # _capture_exception executed abstractly with marker objects: one runtime feedback per failure, of the class
    # the table gives for the exception's type (runtime_error otherwise), built from the stored exception
    from .. import symexec
    from ..fdeval import Obj
    for mapped, filename in ((True, 'answer.py'), (False, 'answer.py'), (False, 'on_run.py'),
                             (True, '_instructor.call_1.py')):
        rec = symexec.Recorder()
        line_no = symexec.marker('traceback.line_number')
        submission = symexec.model_submission(ctx, 'x', instructor_file='on_run.py', line_offsets={})
        report = Obj('report', submission=submission)
        me = symexec.self_obj(mod, 'Sandbox', report=report, full_traceback=False, exception=None, feedback=None)
        symexec.method(me, 'get_context', rec.stub('get_context', ret=Obj('context')))
        caught = Obj('caught-exception', feedback=None)
        improved = Obj('improved-exception', feedback=None)
        tb_obj = Obj('traceback', line_number=line_no)
        generic = rec.stub('runtime_error', ret=Obj('generic-feedback'))
        specific = rec.stub('specific_error', ret=Obj('specific-feedback'))
        fd = symexec.new_fd(sym, mod, calls={
            'improve_builtin_exceptions': rec.stub('improve', fn=lambda e: improved if e is caught else e),
            'ExpandedTraceback': rec.stub('ExpandedTraceback', ret=tb_obj),
            'type': lambda o: 'type-of:' + getattr(o, '_name', repr(o)),
            'runtime_error': generic,
        }, extra={'EXCEPTION_FF_MAP': {'type-of:improved-exception': specific} if mapped else {},
                  'runtime_error': generic})
        _, raised = symexec.run(fd, fn, [caught, ('T', caught, 'tb'), 'x', filename], bound_self=me,
                                what='Sandbox._capture_exception')
        tag = '[exception class %s the map, file %s]' % ('in' if mapped else 'not in', filename)
        built = rec.named('specific_error') + rec.named('runtime_error')
        want = 'specific_error' if mapped else 'runtime_error'
        ctx.check(raised is None and len(built) == 1 and built[0][0] == want, 'R3',
                  '_capture_exception:one-constructor-call' + tag, mod, fn,
                  "for an exception %s EXCEPTION_FF_MAP, %d runtime feedback(s) are constructed (%s)%s; expected "
                  "exactly one %s" % ('in' if mapped else 'outside', len(built), [b[0] for b in built],
                                      '' if raised is None else '; raises ' + raised.kind, want),
                  "zero or two runtime feedbacks for one failure, or the wrong explanation")
        if raised is None and len(built) == 1:
            k = built[0][2]
            ctx.check(k.get('exception') is improved and k.get('report') is report and
                      me.attrs.get('exception') is improved, 'R3', '_capture_exception:args' + tag, mod, fn,
                      "the feedback is not built from the stored (improved) exception and the sandbox's own report",
                      "the feedback describes another exception or lands in another report; sandbox.exception does "
                      "not hold the failure")
            ctx.check(k.get('location') is line_no and k.get('traceback') is tb_obj, 'R3',
                      '_capture_exception:location' + tag, mod, fn,
                      "location= is not the traceback's own line number", "the error is located on a wrong line")
            ctx.check(me.attrs.get('feedback') is not None and getattr(me.attrs.get('exception'), 'attrs', {}).get(
                'feedback') is me.attrs.get('feedback'), 'R3', '_capture_exception:records-feedback' + tag, mod, fn,
                      "the constructed feedback is not stored on the sandbox and on the exception",
                      "sandbox.feedback is None after a failure")
    # location provenance: traceback.line_number is the raising line of the last traceback entry
    from .c17 import traceback_line_rule
    traceback_line_rule(ctx, sym, 'R3')
    # no other Feedback constructed in the call closure
    seen = set()
    work = [Callee(mod, fn, sym.find_class(SANDBOX, 'Sandbox'), 'method')]
    others = []
    depth = {id(fn): 0}
    while work:
        cal = work.pop()
        if id(cal.fn) in seen:
            continue
        seen.add(id(cal.fn))
        ctx.analysed_function(cal.module, cal.fn)
        for c in calls(cal.fn):
            ce = resolve_call(sym, cal.module, c, within=cal.fn)
            ctx.analysed['call_sites'] += 1
            if ce is None:
                continue
            if ce.kind == 'init' and ce.cls is not None and feedback_base in sym.mro(ce.cls) \
                    and not (isinstance(c.func, ast.Attribute) and c.func.attr == '__init__'):
                others.append((cal, c, ce))
                continue
            if depth.get(id(cal.fn), 0) < 5 and ce.module.name.startswith('pedal.') and id(ce.fn) not in seen:
                depth[id(ce.fn)] = depth.get(id(cal.fn), 0) + 1
                work.append(ce)
    for cal, c, ce in others:
        ctx.fail('R3', 'extra-feedback:%s@%s' % (ce.cls.name, cal.qualname), cal.module, c,
                 "another Feedback (%s) is constructed while recording a student failure" % ce.cls.name,
                 "the report gains more than one feedback for one failing execution")
    ctx.ok('R3', '_capture_exception:closure', sample={'functions_in_closure': len(seen)})


CONVERSIONS = ('str', 'repr', 'format', 'ascii', 'print')


def guarded_by_try(node, stop):
    """Is node inside the body of a try (within function `stop`) with a handler catching Exception?"""
    child = node
    for a in ancestors(node):
        if a is stop:
            return False
        if isinstance(a, ast.Try) and child in a.body:
            for h in a.handlers:
                if h.type is None:
                    return True
                names = [dotted(x) for x in (h.type.elts if isinstance(h.type, ast.Tuple) else [h.type])]
                if 'Exception' in names or 'BaseException' in names:
                    return True
        child = a
    return False


def _length_guarded(node):
    """An enclosing `if`/conditional expression tests the args (truthiness or len) before they are indexed."""
    from ..loader import ancestors as _anc
    for a in _anc(node):
        if isinstance(a, (ast.If, ast.IfExp)) and '.args' in norm(a.test):
            return True
        if isinstance(a, ast.BoolOp) and isinstance(a.op, ast.And) and any('.args' in norm(v) for v in a.values
                                                                             if not any(x is node for x in ast.walk(v))):
            return True
    return False


def format_line_rule(ctx, sym, rule):
    """ExpandedTraceback.format_line executed abstractly on traceback entries (with/without columns, multi-line, pedal's
    own frames) under each interpreter-version switch: rendering never raises while a failure is being recorded."""
    from .. import symexec
    from ..fdeval import Obj
    # the traceback text: format_line executed abstractly on traceback entries with and without column information
    # (CPython documents FrameSummary.colno/end_colno/end_lineno as Optional: -X no_debug_ranges, PYTHONNODEBUGRANGES,
    # code objects without positions) under each interpreter-version switch pedal tests
    ux = ctx.repo.module('pedal.utilities.exceptions')
    fl = ux.func('ExpandedTraceback.format_line')
    ctx.analysed_function(ux, fl)
    versions = {'3.13': dict(IS_AT_LEAST_PYTHON_313=True, IS_AT_LEAST_PYTHON_311=True, IS_AT_LEAST_PYTHON_310=True),
                '3.11/3.12': dict(IS_AT_LEAST_PYTHON_313=False, IS_AT_LEAST_PYTHON_311=True, IS_AT_LEAST_PYTHON_310=True),
                '3.10': dict(IS_AT_LEAST_PYTHON_313=False, IS_AT_LEAST_PYTHON_311=False, IS_AT_LEAST_PYTHON_310=True),
                '3.9': dict(IS_AT_LEAST_PYTHON_313=False, IS_AT_LEAST_PYTHON_311=False, IS_AT_LEAST_PYTHON_310=False)}
    for vname, flags in versions.items():
        for fname, cols in (('with columns', dict(colno=4, end_colno=9, end_lineno=3)),
                            ('without columns', dict(colno=None, end_colno=None, end_lineno=None)),
                            ('multi-line expression', dict(colno=4, end_colno=2, end_lineno=5)),
                            # full_traceback shows pedal's own frames: a two-line call deep inside a long pedal file,
                            # while the student's file has six lines
                            ("pedal's own multi-line frame", dict(colno=15, end_colno=40, end_lineno=160, lineno=159,
                                                                  filename='/site-packages/pedal/sandbox/sandbox.py')),
                            ('multi-line expression at the end of the file', dict(colno=4, end_colno=2, lineno=6,
                                                                                  end_lineno=8))):
            cols = dict(cols)
            frame = Obj('FrameSummary', lineno=cols.pop('lineno', 3), line='print(a / b)', _line='    print(a / b)',
                        _lines='    print(a / b)', filename=cols.pop('filename', 'answer.py'), name='<module>', **cols)
            fmt = Obj('formatter')
            symexec.method(fmt, 'python_code', lambda *a, **k: 'formatted line')
            student_lines = ['a = 1', 'b = 0', '    print(a / b)', '        ', ')', 'done()']
            me = symexec.self_obj(ux, 'ExpandedTraceback', line_offsets={}, original_code_lines=list(student_lines),
                                  student_files={'answer.py': list(student_lines)}, full_traceback=True)
            fd = symexec.new_fd(sym, ux, calls={'Location': lambda *a, **k: Obj('Location', args=a)},
                                extra=dict(flags))
            got, raised = symexec.run(fd, fl, [fmt, frame], bound_self=me, what='ExpandedTraceback.format_line')
            ctx.check(raised is None, rule, 'format_line[%s,%s]' % (vname, fname), ux, fl,
                      "rendering a traceback entry %s under the Python %s switches raises %s (%s) while the failure is "
                      "being recorded" % (fname, vname, raised.kind if raised is not None else '',
                                          raised.detail if raised is not None else ''),
                      "PYTHONNODEBUGRANGES=1 (or python -X no_debug_ranges): every student runtime error, even `a / b`, "
                      "makes run() raise TypeError into the instructor script")


def r4_recording_robust(ctx, sym):
    ctx.rule('R4', "taint: the student's exception object is followed from _capture_exception through resolved "
                   "callees (parameter passing, 4 levels); every str/repr/format/f-string/%/.format conversion of it "
                   "is inside a try catching Exception (or in a helper that is); runtime message templates do not "
                   "interpolate the raw exception field")
    mod = ctx.repo.module(SANDBOX)
    start = mod.func('Sandbox._capture_exception')
    sandbox_cls = sym.find_class(SANDBOX, 'Sandbox')
    fmod = ctx.repo.module(FEEDBACKS)
    rt_init = fmod.func('runtime_error.__init__')
    work = [(Callee(mod, start, sandbox_cls, 'method'), frozenset(['exception']), 0)]
    # the feedback object built from the exception holds it in its fields, and Feedback.__repr__ reprs every field:
    # converting the feedback object while it is being filed is a conversion of the student's exception as well
    rmod_ = ctx.repo.module('pedal.core.report')
    report_cls = sym.find_class('pedal.core.report', 'Report')
    for q_ in ('Report.add_feedback', 'Report.add_ignored_feedback'):
        if rmod_.has_func(q_):
            work.append((Callee(rmod_, rmod_.func(q_), report_cls, 'method'), frozenset(['feedback']), 0))
    fbmod_ = ctx.repo.module('pedal.core.feedback')
    feedback_cls = sym.find_class('pedal.core.feedback', 'Feedback')
    if fbmod_.has_func('Feedback._handle_condition'):
        work.append((Callee(fbmod_, fbmod_.func('Feedback._handle_condition'), feedback_cls, 'method'),
                     frozenset(['self']), 0))
    seen = set()
    n_conv = 0
    n_fns = 0
    while work:
        cal, tainted, d = work.pop()
        k = (id(cal.fn), tainted)
        if k in seen:
            continue
        seen.add(k)
        n_fns += 1
        fn = cal.fn
        ctx.analysed_function(cal.module, fn)
        tainted = set(tainted)
        # propagate through simple assignments: x = <tainted>, self.exception = f(<tainted>)
        changed = True
        exprs_tainted = lambda e: any((isinstance(x, ast.Name) and x.id in tainted) or
                                      (isinstance(x, ast.Attribute) and norm(x) in tainted)
                                      for x in walk_local(e))
        while changed:
            changed = False
            for n in body_walk(fn):
                if isinstance(n, ast.Assign) and exprs_tainted(n.value):
                    direct = isinstance(n.value, (ast.Name, ast.Attribute)) or (
                        isinstance(n.value, ast.Call) and call_name(n.value) in (
                            'improve_builtin_exceptions',))
                    if not direct:
                        continue
                    for t in n.targets:
                        name = norm(t)
                        if isinstance(t, (ast.Name, ast.Attribute)) and name not in tainted:
                            tainted.add(name)
                            changed = True

        def is_tainted(e):
            return (isinstance(e, ast.Name) and e.id in tainted) or \
                (isinstance(e, ast.Attribute) and norm(e) in tainted)
        for n in body_walk(fn):
            site = None
            if isinstance(n, ast.Call):
                cn = call_name(n)
                if cn in CONVERSIONS and any(is_tainted(a) for a in n.args):
                    site = (n, '%s(%s)' % (cn, norm(n.args[0])))
                elif isinstance(n.func, ast.Attribute) and n.func.attr == 'format' and \
                        (any(is_tainted(a) for a in n.args) or any(is_tainted(k.value) for k in n.keywords)):
                    site = (n, '.format(<exception>)')
            elif isinstance(n, ast.FormattedValue) and is_tainted(n.value):
                site = (n, 'f-string {%s}' % norm(n.value))
            elif isinstance(n, ast.BinOp) and isinstance(n.op, ast.Mod) and isinstance(n.left, ast.Constant) \
                    and isinstance(n.left.value, str) and any(is_tainted(x) for x in walk_local(n.right)):
                site = (n, '% <exception>')
            elif isinstance(n, ast.Subscript) and isinstance(n.ctx, ast.Load) and isinstance(n.value, ast.Attribute) \
                    and n.value.attr == 'args' and is_tainted(n.value.value):
                # indexing the arguments of the student's exception: `raise KeyError()` has none
                n_conv += 1
                key = "%s:%s" % (cal.qualname, norm(n))
                ctx.check(guarded_by_try(n, fn) or _length_guarded(n), 'R4', key, cal.module, n,
                          "`%s` assumes the student's exception was raised with arguments; a bare `raise %s()` has an "
                          "empty args tuple, so recording the failure raises IndexError" % (norm(n), 'KeyError'),
                          "def lookup(d, k):\n    raise KeyError()   -> run() raises IndexError into the instructor "
                          "script, no feedback is attached", function=cal.qualname)
                continue
            if site is None:
                continue
            n_conv += 1
            node, desc = site
            key = "%s:%s" % (cal.qualname, desc)
            ctx.check(guarded_by_try(node, fn), 'R4', key, cal.module, node,
                      "the student's exception object is converted with %s outside any try/except Exception while "
                      "the failure is being recorded" % desc,
                      "class E(Exception):\n    def __str__(self): raise ValueError('broken')\nraise E()  -> "
                      "run() raises ValueError into the instructor script instead of returning",
                      function=cal.qualname)
        if d >= 4:
            continue
        for c in calls(fn):
            extra = None
            if cal.fn is start and isinstance(c.func, ast.Name) and c.func.id == 'runtime_error_function':
                ce = Callee(fmod, rt_init, sym.find_class(FEEDBACKS, 'runtime_error'), 'init')
            else:
                ce = resolve_call(sym, cal.module, c, within=fn)
            if ce is None or not ce.module.name.startswith('pedal.'):
                continue
            bound = bind_args(ce, c)
            t2 = frozenset(p for p, a in bound.items() if is_tainted(a))
            if t2:
                work.append((ce, t2, d + 1))
    # the feedback constructor executed abstractly for the message texts a student exception can have: empty
    # (`raise ValueError()`, bare assert, sys.exit()), one character, ordinary, and a failing __str__
    from .. import symexec
    from ..fdeval import Obj, Raised as _Raised
    for text in ('', 'x', 'division by zero', None, SystemExit, KeyboardInterrupt):
        rec = symexec.Recorder()
        exc = Obj('student-exception', exc_kind='ValueError')

        def _str(o='', *a):
            if o is exc:
                if text is None:
                    raise _Raised('ValueError', 'broken __str__')
                if isinstance(text, type):
                    # a __str__ that ends in sys.exit() / is interrupted: not an Exception subclass
                    raise _Raised(text.__name__, 'raised by the exception\'s own __str__')
                return text
            return str(o) if isinstance(o, (str, int, float, bool, type(None))) else 'str(%r)' % (o,)
        fmt = Obj('format')
        symexec.method(fmt, 'exception', lambda t: t)
        symexec.method(fmt, 'traceback', lambda t: t)
        report = Obj('report', format=fmt, submission=Obj('submission'))
        tb = Obj('traceback')
        symexec.method(tb, 'build_traceback', lambda: ['frame'])
        symexec.method(tb, 'format_traceback', lambda *a: 'TB')
        me = symexec.self_obj(fmod, 'runtime_error', constant_fields={'suggestion': ''})
        sup = Obj('super')
        symexec.method(sup, '__init__', rec.stub('super().__init__'))
        fd = symexec.new_fd(sym, fmod, calls={
            'str': _str, 'get_exception_name': lambda e, *a: 'ValueError', 'type': lambda o: 'type-of-student-exception',
            'Location': rec.stub('Location', fn=lambda *a, **k: Obj('location')),
            'format_contexts': lambda *a, **k: 'context text', 'wrap_fields': lambda fmt_, fields, *a_, **k_: dict(fields),
            'super': lambda *a: sup}, extra={'EXCEPTION_FF_MAP': {}, 'MAIN_REPORT': report})
        _, raised = symexec.run(fd, rt_init, [exc, ['context'], tb, 3], {'report': report}, bound_self=me,
                                what='runtime_error.__init__')
        tag = '[str(exception)=%s]' % ('raises' if text is None else ('raises ' + text.__name__) if isinstance(
            text, type) else repr(text))
        built = rec.named('super().__init__')
        fields = built[0][2].get('fields') if len(built) == 1 else None
        ok = raised is None and isinstance(fields, dict) and isinstance(fields.get('exception_message'), str)
        if ok and text and isinstance(text, str):
            ok = fields['exception_message'].lower() == text.lower()
        ctx.check(ok, 'R4', 'runtime_error.__init__:builds' + tag, fmod, rt_init,
                  "for a student exception whose message text is %s the feedback constructor %s" % (
                      'unavailable (failing __str__)' if text is None or isinstance(text, type) else repr(text),
                      'raises %s (%s)' % (raised.kind, raised.detail) if raised is not None else
                      'does not hand one `exception_message` text (the student\'s, up to case) to Feedback.__init__: %r'
                      % (fields.get('exception_message') if isinstance(fields, dict) else fields,)),
                  "`raise ValueError()` / bare `assert` / `sys.exit()` in student code: run() raises into the "
                  "instructor script while recording the failure; no runtime feedback is attached")
    # fields are wrapped for interpolation without being converted: only a template that names a field renders it
    # (the templates are checked below), so wrapping the raw exception object must not call its __str__/__repr__
    core_fmt = ctx.repo.module('pedal.core.formatting')
    wf = core_fmt.func('wrap_fields')
    ctx.analysed_function(core_fmt, wf)
    hostile = Obj('student-exception', exc_kind='ValueError')
    conversions = []

    def _hostile(name):
        def f(o='', *a, **k):
            if o is hostile:
                conversions.append(name)
                raise _Raised('TypeError', 'can only concatenate str (not "int") to str')
            return '%s(...)' % name
        return f
    fd = symexec.new_fd(sym, core_fmt, calls={'str': _hostile('str'), 'repr': _hostile('repr'),
                                              'format': _hostile('format')})
    wrapped, raised = symexec.run(fd, wf, [Obj('formatter', available=[]), {'exception': hostile, 'name': 'x'}],
                                  what='wrap_fields')
    ctx.check(raised is None and not conversions and isinstance(wrapped, dict) and set(wrapped) == {'exception', 'name'},
              'R4', 'wrap_fields:does-not-convert', core_fmt, wf,
              "wrapping the fields of the runtime feedback %s the raw exception object (%s)" % (
                  'converts' if conversions else 'fails on', ', '.join(conversions) or (
                      raised.kind if raised is not None else 'unexpected result')),
              "class OutOfStock(Exception):\n    def __str__(self): return 'only ' + 3\nraise OutOfStock()  -> "
              "run() raises TypeError into the instructor script instead of returning")
    format_line_rule(ctx, sym, 'R4')
    # the helpers that word the exception's class name, executed on the names a student's class can have: ordinary,
    # one letter, lower case, starting with a vowel, and empty (`type('', (Exception,), {})`)
    tmod_ = ctx.repo.module('pedal.utilities.text')
    art = tmod_.func('add_indefinite_article')
    ctx.analysed_function(tmod_, art)
    for cname in ('ValueError', 'E', 'error', 'OutOfStock', 'insufficientFunds', '_Private', ''):
        got, raised = symexec.run(symexec.new_fd(sym, tmod_), art, [cname], what='add_indefinite_article')
        ctx.check(raised is None and isinstance(got, str) and got.endswith(cname), 'R4',
                  'add_indefinite_article[%r]' % cname, tmod_, art,
                  "for an exception class named %r the wording helper %s" % (
                      cname, 'raises %s' % raised.kind if raised is not None else 'returns %r' % (got,)),
                  "raise type(%r, (Exception,), {})()  ->  run() raises IndexError into the instructor script instead "
                  "of returning" % cname)
    ctx.floor('R4', 'functions in the taint closure', n_fns, 3)
    # (no floor on the number of conversion sites: the constructor is executed above for every message text, a failing
    #  __str__ included, wherever the conversion itself lives)
    ctx.info('conversion sites of the exception object followed by the taint sweep: %d' % n_conv)
    # templates
    base = sym.find_class(FEEDBACKS, 'runtime_error')
    raw_fields = {'exception', 'traceback', 'context'}
    n = 0
    for ci in sym.subclasses(base):
        for attr in ('message_template', 'justification_template', 'else_message_template'):
            owner = sym.class_attr(ci, attr)
            if owner is None or owner[1] is None:
                continue
            try:
                text = sym.const(owner[0].module, owner[1], scope=owner[0])
            except KeyError:
                continue
            if not isinstance(text, str):
                continue
            n += 1
            names = {f.split('.')[0].split('[')[0] for _, f, _, _ in string.Formatter().parse(text) if f}
            bad = names & raw_fields
            ctx.check(not bad, 'R4', "%s.%s" % (ci.name, attr), owner[0].module, owner[1],
                      "template interpolates the raw field(s) %s, i.e. str()/format() of the student's object, when "
                      "the message is rendered" % sorted(bad),
                      "an exception class with a failing __str__ makes the feedback constructor raise",
                      construct=attr)
        cf = sym.class_attr(ci, 'constant_fields')
        if cf is not None and isinstance(cf[1], ast.Dict):
            for kx, vx in zip(cf[1].keys, cf[1].values):
                try:
                    text = sym.const(cf[0].module, vx)
                except KeyError:
                    continue
                if isinstance(text, str):
                    n += 1
                    names = {f.split('.')[0].split('[')[0] for _, f, _, _ in string.Formatter().parse(text) if f}
                    bad = names & raw_fields
                    ctx.check(not bad, 'R4', "%s.constant_fields[%s]" % (ci.name, norm(kx)), cf[0].module, vx,
                              "suggestion template interpolates raw field(s) %s" % sorted(bad),
                              "an exception class with a failing __str__ makes the feedback constructor raise",
                              construct='constant_fields')
    ctx.floor('R4', 'runtime templates', n, 10)


def r5_block_list(ctx, sym):
    ctx.rule('R5', "reset_default_overrides blocks compile/eval/exec/globals/exit, mocks open and __import__, blocks "
                   "module pedal; every refusing path of the replacements raises an Exception subclass; "
                   "clear_mocks() reaches reset_default_overrides by default; _mock_builtins installs the disabled "
                   "version for False entries")
    mod = ctx.repo.module(SANDBOX)
    fn = mod.func('Sandbox.reset_default_overrides')
    ctx.analysed_function(mod, fn)
    # reset_default_overrides, block_function/mock_function/block_module and _mock_builtins executed abstractly
    from .. import symexec
    from ..fdeval import Obj
    mm_ = ctx.repo.module(MOCKED)
    rec = symexec.Recorder()
    mocked_obj, make = symexec.module_stub(sym, mm_, 'mocked', symexec.MOCKED_ESTABLISHED, events=rec.events,
                                           ORIGINAL_BUILTINS={})

    def b_getattr(o, nm, *default):
        if o is mocked_obj:
            f = lambda *a, **k: make(nm, *a, **k)
            f._fd_callable = True
            return f
        if isinstance(o, Obj) and nm in o.attrs:
            return o.attrs[nm]
        if default:
            return default[0]
        raise Inconclusive('getattr(%r, %r)' % (o, nm))
    modules = Obj('modules')
    symexec.method(modules, 'new_module', lambda new_version, module_name, friendly_name=None: {module_name: new_version})
    me = symexec.self_obj(mod, 'Sandbox', _module_overrides={'leftover': True}, modules=modules, data={},
                          report=Obj('report'))
    fd = symexec.new_fd(sym, mod, calls={'getattr': b_getattr}, extra={'mocked': mocked_obj})
    _, raised = symexec.run(fd, fn, [], bound_self=me, what='Sandbox.reset_default_overrides')
    table = me.attrs['_module_overrides'].get('__builtins__') if raised is None else None
    ctx.check(raised is None and isinstance(table, dict), 'R5', 'reset_default_overrides:completes', mod, fn,
              "reset_default_overrides raises %s / leaves no builtins table" % getattr(raised, 'kind', ''),
              "a new Sandbox cannot be created")
    table = table if isinstance(table, dict) else {}
    for name in ('compile', 'eval', 'exec', 'globals', 'exit'):
        ctx.check(table.get(name, 'absent') is False, 'R5', 'blocked:' + name, mod, fn,
                  "%s() is not blocked by default (table entry: %r)" % (name, table.get(name, 'absent')),
                  "student code calling %s(...) is executed instead of being refused" % name,
                  construct='reset_default_overrides')
    for name, factory in (('open', 'create_open_function'), ('__import__', 'create_import_function')):
        v = table.get(name)
        ctx.check(isinstance(v, Obj) and v.attrs.get('made_by') == factory, 'R5', 'mocked:' + name, mod, fn,
                  "%s is not replaced by the restricted version (table entry: %r)" % (name, v),
                  "student code can open/import anything", construct='reset_default_overrides')
    pedal_entry = me.attrs['_module_overrides'].get('pedal')
    ctx.check(isinstance(pedal_entry, Obj) and pedal_entry.attrs.get('made_by') == 'BlockedModule', 'R5',
              'blocked-module:pedal', mod, fn, "module pedal is not blocked (entry: %r)" % (pedal_entry,),
              "student code imports pedal and tampers with the report", construct='reset_default_overrides')
    # the resulting table, applied by _mock_builtins: blocked names become disabled_builtin(name) in both places
    mb = mod.func('Sandbox._mock_builtins')
    ctx.analysed_function(mod, mb)
    data = {'__builtins__': {}}
    _, raised = symexec.run(fd, mb, [data, dict(table)], bound_self=me, what='Sandbox._mock_builtins')
    for name in ('compile', 'eval', 'exec', 'globals', 'exit'):
        a_, b_ = data['__builtins__'].get(name), data.get(name)
        ok = raised is None and all(isinstance(x, Obj) and x.attrs.get('made_by') == 'disabled_builtin'
                                    and x.attrs.get('args') == (name,) for x in (a_, b_))
        ctx.check(ok, 'R5', '_mock_builtins:False->disabled:' + name, mod, mb,
                  "a blocked entry does not install disabled_builtin(%r) in both the builtins dict and the namespace "
                  "(installed: %r / %r)" % (name, a_, b_),
                  "student code calling a blocked builtin reaches the real one")
    # _start_mocking applies the overrides to the student's namespace (executed: the C15 start scenario)
    sm = mod.func('Sandbox._start_mocking')
    from .c15 import start_mocking_observations
    n_obs = 0
    for tag, ob in start_mocking_observations(ctx, sym, mod):
        n_obs += 1
        rec_, me_ = ob['rec'], ob['me']
        resets = rec_.named('_reset_builtins')
        mocks = rec_.named('_mock_builtins')
        data_ = me_.attrs.get('data')
        ok = ob['raised'] is None and any(e[1][:1] and e[1][0] is data_ for e in resets) and \
            any(e[1][:1] and e[1][0] is data_ for e in mocks) and \
            rec_.order('_reset_builtins', '_mock_builtins')[:1] == ['_reset_builtins']
        ctx.check(ok, 'R5', '_start_mocking:applies-overrides' + tag, mod, sm,
                  "_start_mocking does not (re)install the builtin overrides into the student namespace (resets: %d, "
                  "override passes: %d)" % (len(resets), len(mocks)),
                  "blocked builtins are available to student code")
    ctx.floor('R5', 'start scenarios', n_obs, 3)
    # refusing paths raise Exception subclasses
    mm = ctx.repo.module(MOCKED)
    import builtins as _b
    for q in ('disabled_builtin.<locals>._disabled_version',
              'create_open_function.<locals>._restricted_open',
              'create_import_function.<locals>._restricted_import'):
        f = mm.func(q)
        ctx.analysed_function(mm, f)
        raises = [n for n in body_walk(f) if isinstance(n, ast.Raise)]
        ctx.check(len(raises) >= 1, 'R5', q + ':refuses', mm, f, "replacement never refuses",
                  "blocked use succeeds")
        for r in raises:
            name = dotted(r.exc.func if isinstance(r.exc, ast.Call) else r.exc)
            cls = getattr(_b, name, None)
            if cls is None:
                ci = sym.resolve_name(mm, name)
                okx = isinstance(ci, ClassInfo) and any(x in ('Exception',) or hasattr(_b, x) and issubclass(
                    getattr(_b, x), Exception) for x in sym.external_bases(ci))
            else:
                okx = isinstance(cls, type) and issubclass(cls, Exception)
            ctx.check(okx, 'R5', q + ':raises:' + str(name), mm, r,
                      "refusal raises %s, which is not an Exception subclass (escapes the containing handlers or is "
                      "not raised at all)" % name, "a blocked call takes the grader down")
    # the import refusal covers pedal and its submodules (and nothing else), by execution
    ri = mm.func('create_import_function.<locals>._restricted_import')
    for name, g, l, fromlist, level, outcome, real_calls, own_calls, result, student_module, _ in \
            restricted_import_cells(ctx, sym):
        is_pedal = name == 'pedal' or name.startswith('pedal.')
        if is_pedal:
            import builtins as _bb
            kind = outcome[1] if outcome[0] == 'raises' else None
            cls = getattr(_bb, kind, None) if isinstance(kind, str) else None
            ok = outcome[0] == 'raises' and not real_calls and not own_calls and isinstance(cls, type) and \
                issubclass(cls, Exception)
            ctx.check(ok, 'R5', '_restricted_import:pedal[%s]' % name, mm, ri,
                      "importing %s %s" % (name, 'raises %s' % kind if kind else 'is allowed (returns %r)' % (outcome[1],)),
                      "student code does `import pedal.core.report`")
        elif name != 'helper':
            ctx.check(outcome[0] == 'returns', 'R5', '_restricted_import:allowed[%s]' % name, mm, ri,
                      "importing %s is refused (%s)" % (name, outcome[1]), "`import %s` fails in the sandbox" % name)
    outcomes, runs = restricted_import_failing_helper(ctx, sym)
    ctx.check(all(o == ('raises', 'ZeroDivisionError') for o in outcomes) and runs == len(outcomes), 'R5',
              '_restricted_import:failing-helper-fails-every-time', mm, ri,
              "a submission file whose body raises ZeroDivisionError, imported in %d successive executions: %r (the file "
              "was executed %d time(s))" % (len(outcomes), outcomes, runs),
              "run() twice on `import helper` where helper.py divides by zero: the second run reports no exception and "
              "no feedback")
    cm = mod.func('Sandbox.clear_mocks')
    ctx.analysed_function(mod, cm)
    rec2 = symexec.Recorder()
    overrides_, modules_ = {'custom': 1, '__builtins__': {'eval': True}}, Obj('modules')
    symexec.method(modules_, 'clear', rec2.stub('modules.clear'))
    me2 = symexec.self_obj(mod, 'Sandbox', _module_overrides=overrides_, modules=modules_)
    symexec.method(me2, 'reset_default_overrides', rec2.stub('reset_default_overrides'))
    _, raised2 = symexec.run(symexec.new_fd(sym, mod), cm, [], bound_self=me2, what='Sandbox.clear_mocks')
    ok = raised2 is None and len(rec2.named('reset_default_overrides')) == 1 and \
        'custom' not in me2.attrs['_module_overrides'] and \
        (me2.attrs['_module_overrides'].get('__builtins__') or {}).get('eval') is not True
    ctx.check(ok, 'R5', 'clear_mocks:resets-defaults', mod, cm,
              "clear_mocks() does not re-install the default block list", "after clear() nothing is blocked")
    init = mod.func('Sandbox.__init__')
    ctx.check(any(is_self_call(c, 'clear_mocks') and not c.args and not c.keywords for c in calls(init)),
              'R5', 'Sandbox.__init__:installs-defaults', mod, init,
              "a new Sandbox does not install the default block list", "a fresh sandbox blocks nothing")


def restricted_import_cells(ctx, sym):
    """The import replacement built by create_import_function, executed abstractly for module names x import forms;
    yields (name, globals, locals, fromlist, level, outcome, calls of the real __import__, calls of sandbox._import)
    where outcome is ('returns', value) or ('raises', kind)."""
    from .. import symexec
    from ..fdeval import Obj as _Obj, Raised, Inconclusive
    mm = ctx.repo.module(MOCKED)
    maker = mm.func('create_import_function')
    ctx.analysed_function(mm, maker)
    forms = [('json', ('tool',), 0), ('email', ('utils', 'message'), 0), ('os.path', (), 0), ('math', None, 0),
             ('random', ('*',), 0), ('pedal', (), 0), ('pedal.core.report', ('MAIN_REPORT',), 0), ('pedalboard', (), 0),
             ('pedals.kit', ('x',), 0), ('helper', (), 0), ('sibling', ('name',), 1)]
    for name, fromlist, level in forms:
        rec = symexec.Recorder()
        result = _Obj('module-object')
        real = rec.stub('__import__', fn=lambda *a, **k: result)
        real._fd_callable = True
        sandbox = _Obj('sandbox', threaded=False)
        student_module = _Obj('student-module')
        symexec.method(sandbox, '_import', rec.stub('_import', ret=student_module))
        report = _Obj('report', submission=_Obj('submission', files={'helper.py': 'K = 1'}))
        originals = {'__import__': real}
        fd = symexec.new_fd(sym, mm, calls={'importlib.import_module': rec.stub('importlib.import_module', ret=result),
                                            '__import__': real, 'importlib.__import__': real,
                                            'builtins.__import__': real},
                            extra={'ORIGINAL_BUILTINS': originals, 'sys.modules': {}})
        closure, raised = symexec.run(fd, maker, [report, sandbox], what='create_import_function')
        if raised is not None or not callable(closure):
            raise AnalysisError("create_import_function does not return the import replacement (%r)" % (raised or closure,))
        g, l = {'__name__': '__main__'}, {'local': 1}
        args = [name, g, l] + ([] if fromlist is None else [fromlist, level])
        try:
            outcome = ('returns', closure(*args))
        except Raised as e:
            outcome = ('raises', e.kind)
        except Inconclusive as e:
            raise AnalysisError("_restricted_import is outside the decidable fragment: %s" % e)
        yield name, g, l, fromlist, level, outcome, rec.named('__import__'), rec.named('_import'), result, \
            student_module, rec.named('importlib.import_module')


def restricted_import_failing_helper(ctx, sym, times=3):
    """The import replacement called repeatedly for a submission file whose body raises every time it is executed:
    the outcomes of the successive imports, each ('returns', value) or ('raises', kind)."""
    from .. import symexec
    from ..fdeval import Obj as _Obj, Raised, Inconclusive
    mm = ctx.repo.module(MOCKED)
    maker = mm.func('create_import_function')
    rec = symexec.Recorder()
    sandbox = _Obj('sandbox', threaded=False)

    def failing_import(*a, **k):
        rec.events.append(('_import', a, k))
        raise Raised('ZeroDivisionError', 'division by zero')
    symexec.method(sandbox, '_import', failing_import)
    report = _Obj('report', submission=_Obj('submission', files={'helper.py': 'K = 1 / 0'}))
    real = rec.stub('__import__', ret=_Obj('module-object'))
    real._fd_callable = True
    fd = symexec.new_fd(sym, mm, calls={'__import__': real}, extra={'ORIGINAL_BUILTINS': {'__import__': real},
                                                                   'sys.modules': {}})
    closure, raised = symexec.run(fd, maker, [report, sandbox], what='create_import_function')
    if raised is not None or not callable(closure):
        raise AnalysisError("create_import_function does not return the import replacement")
    outcomes = []
    for _ in range(times):
        try:
            outcomes.append(('returns', closure('helper', {'__name__': '__main__'}, {}, (), 0)))
        except Raised as e:
            outcomes.append(('raises', e.kind))
        except Inconclusive as e:
            raise AnalysisError("_restricted_import is outside the decidable fragment: %s" % e)
    return outcomes, len(rec.named('_import'))


def r6_threads(ctx, sym):
    ctx.rule('R6', "InterruptableThread.run wraps the call in try/except Exception and stores exc_info, so "
                   "nothing but what timeout() re-raises surfaces from the student thread")
    mod = ctx.repo.module(TIMEOUT)
    fn = mod.func('InterruptableThread.run')
    ctx.analysed_function(mod, fn)
    tries = [n for n in fn.body if isinstance(n, ast.Try)]
    ok = len(tries) == 1 and any(norm(c.func) == 'self.func' for c in calls(ast.Module(body=tries[0].body,
                                                                                         type_ignores=[])))
    if ok:
        h = [h for h in tries[0].handlers if h.type is None or dotted(h.type) in ('Exception', 'BaseException')]
        ok = bool(h) and any(isinstance(n, ast.Assign) and is_self_attr(n.targets[0], 'exc_info')
                             for n in ast.walk(h[0]))
    ctx.check(ok, 'R6', 'InterruptableThread.run', mod, fn,
              "the thread body is not `try: self.result = self.func(...) except Exception: self.exc_info = ...`",
              "an internal error in a threaded execution is printed by the threading machinery and lost")


def r7_compile_error_without_position(ctx, sym):
    ctx.rule('R7', "a text that fails to compile is reported, not raised: CPython's compile() error for a text with a "
                   "null byte carries no line, no offset, no end position, no text and no file name (all None), an "
                   "ordinary SyntaxError carries all of them. For both, pedal's own ExpandedTraceback (constructor, "
                   "build_traceback, FakeFrame, _fix_frame_line, format_traceback, format_line) is executed abstractly "
                   "with the arguments _capture_exception gives it, under each interpreter-version switch pedal tests "
                   "and with the methods of every Formatter class pedal ships: the traceback text is produced without "
                   "raising")
    from .. import symexec
    from ..fdeval import Obj
    import builtins
    ux = ctx.repo.module('pedal.utilities.exceptions')
    tb_init = ux.func('ExpandedTraceback.__init__')
    bt = ux.func('ExpandedTraceback.build_traceback')
    ft = ux.func('ExpandedTraceback.format_traceback')
    for f_ in (tb_init, bt, ft):
        ctx.analysed_function(ux, f_)
    fm = sym.find_class('pedal.core.formatting', 'Formatter')
    classes = sorted(sym.subclasses(fm), key=lambda c: (c.module.name, c.name))
    ctx.floor('R7', 'Formatter classes shipped', len(classes), 5)
    versions = {'3.13': dict(IS_AT_LEAST_PYTHON_313=True, IS_AT_LEAST_PYTHON_311=True, IS_AT_LEAST_PYTHON_310=True),
                '3.11/3.12': dict(IS_AT_LEAST_PYTHON_313=False, IS_AT_LEAST_PYTHON_311=True, IS_AT_LEAST_PYTHON_310=True),
                '3.10': dict(IS_AT_LEAST_PYTHON_313=False, IS_AT_LEAST_PYTHON_311=False, IS_AT_LEAST_PYTHON_310=True),
                '3.9': dict(IS_AT_LEAST_PYTHON_313=False, IS_AT_LEAST_PYTHON_311=False, IS_AT_LEAST_PYTHON_310=False)}
    payloads = {
        'null byte (no position, no file name)': dict(lineno=None, offset=None, end_lineno=None, end_offset=None,
                                                      filename=None, text=None,
                                                      msg='source code string cannot contain null bytes'),
        'ordinary syntax error': dict(lineno=2, offset=5, end_lineno=2, end_offset=6, filename='answer.py',
                                      text='b = (1\n', msg="'(' was never closed")}
    lines = ['a = 1', 'b = (1', 'print(a)']

    def b_isinstance(o, t):
        ts = t if isinstance(t, tuple) else (t,)
        if isinstance(o, Obj) and 'exc_kind' in o.attrs:
            k = getattr(builtins, o.attrs['exc_kind'])
            return any(isinstance(x, type) and issubclass(k, x) for x in ts)
        return isinstance(o, tuple(x for x in ts if isinstance(x, type)))
    for ci in classes:
        fmt = symexec.self_obj(ci.module, ci.name)
        finit = sym.method(ci, '__init__')
        if finit is not None:
            _, raised0 = symexec.run(symexec.new_fd(sym, ci.module), finit[1], [Obj('report')], bound_self=fmt,
                                     what='%s.__init__' % ci.name)
            ctx.require(raised0 is None, "%s(report) constructs" % ci.name)
        for vname, flags in versions.items():
            for pname, payload in payloads.items():
                exc = Obj('exception', exc_kind='SyntaxError', **payload)
                me = symexec.self_obj(ux, 'ExpandedTraceback')
                fd = symexec.new_fd(sym, ux, calls={
                    'traceback.TracebackException': lambda *a, **k: Obj('TracebackException', stack=[]),
                    # the traceback of an error raised by compile() has one frame: Sandbox._execute itself
                    'traceback.extract_tb': lambda tb, **k: [('/site-packages/pedal/sandbox/sandbox.py', 185, '_execute',
                                                              "compiled_code = compile(code, filename, 'exec')")],
                    'isinstance': b_isinstance}, extra=dict(flags, SyntaxError=SyntaxError))
                stage = 'ExpandedTraceback(...)'
                _, raised = symexec.run(fd, tb_init, [exc, ('T', exc, None), False, {'answer.py'}, {}, {'answer.py'},
                                                      list(lines), {'answer.py': list(lines)}], bound_self=me,
                                        what='ExpandedTraceback.__init__')
                if raised is None:
                    stage = 'build_traceback()'
                    frames, raised = symexec.run(fd, bt, [], bound_self=me, what='ExpandedTraceback.build_traceback')
                if raised is None:
                    stage = 'format_traceback()'
                    text, raised = symexec.run(fd, ft, [frames, fmt], bound_self=me,
                                               what='ExpandedTraceback.format_traceback')
                ctx.check(raised is None, 'R7', 'compile-error[%s,%s,%s]' % (pname.split(' (')[0], vname, ci.name), ux,
                          getattr(raised, 'node', None) or ft,
                          "for the SyntaxError of a %s, under the Python %s switches and formatter %s, %s raises %s (%s) "
                          "while the failure is being recorded" % (
                              pname, vname, ci.name, stage, raised.kind if raised is not None else '',
                              raised.detail if raised is not None else ''),
                          "run() on the student text 'a = 1\\0' raises TypeError into the instructor script instead of "
                          "returning with a runtime feedback", construct=ci.name)


def r8_tracers_do_not_swallow(ctx, sym):
    ctx.rule('R8', "the execution sites run student code inside `with self.trace...`; a context manager whose __exit__ "
                   "returns a true value swallows the exception before _execute's handlers see it. Every tracer class "
                   "of TRACER_STYLES is entered and left abstractly by each kind of student exception (an ordinary "
                   "Exception, SystemExit, bdb.BdbQuit and a subclass of it - a forgotten breakpoint() at end of "
                   "input): __exit__ returns a false value")
    from .c05 import tracer_drive, TRACER
    from ..fdeval import truth
    tmod = ctx.repo.module(TRACER)
    table = literal(tmod.top_assign('TRACER_STYLES'), resolve_consts=False)
    ctx.floor('R8', 'tracer styles', len(table), 4)
    for style, cls_name in sorted(table.items()):
        ci = sym.find_class(TRACER, str(cls_name))
        exit_ = sym.method(ci, '__exit__')
        if exit_ is None:
            continue        # reported by C05.R5
        for kind in (ValueError, SystemExit, 'BdbQuit', 'BdbQuit-subclass'):
            kname = kind if isinstance(kind, str) else kind.__name__
            res = tracer_drive(ctx, sym, cls_name, 'EY', exc_kind=kind)
            swallowed = [v for v in res['exits'] if truth(v) is not False]
            ctx.check(not swallowed and len(res['exits']) == 1, 'R8', 'tracer[%s]=%s:%s' % (style, cls_name, kname),
                      exit_[0].module, exit_[1],
                      "%s.__exit__ returns %r for a student program that ends with %s: the `with` statement swallows "
                      "the exception" % (cls_name, swallowed[0] if swallowed else res['exits'], kname),
                      "tracer_style=%r and a student program ending in `raise %s`: run() returns normally, "
                      "sandbox.exception is None and no runtime feedback is attached" % (
                          style, 'bdb.BdbQuit' if isinstance(kind, str) else kname + "('x')"),
                      construct='%s.__exit__' % cls_name)


def r9_closed_stdout(ctx, sym):
    ctx.rule('R9', "student code may close the standard output it was given (`sys.stdout.close()`): reading the capture "
                   "buffer back then raises ValueError. Sandbox._stop_mocking, executed abstractly with such a buffer on "
                   "top of the stack, still releases the patches, pops the buffer, records an output for the execution "
                   "and returns normally - it runs on every exit of _execute, outside the handlers that record "
                   "student failures")
    from .. import symexec
    from ..fdeval import Obj, Raised as _Raised
    from .c05 import sandbox_self, stack as stack_of
    mod = ctx.repo.module(SANDBOX)
    fn = mod.func('Sandbox._stop_mocking')
    ctx.analysed_function(mod, fn)
    for closed in (True, False):
        rec = symexec.Recorder()
        buf = Obj('capture-buffer')

        def getvalue():
            if closed:
                raise _Raised('ValueError', 'I/O operation on closed file')
            return 'text'
        symexec.method(buf, 'getvalue', getvalue)
        symexec.method(buf, 'flush', lambda: None)
        older = Obj('older-buffer')
        me = sandbox_self(ctx, sym, mod, patches=[('p1', 'p2')], stdout=[older, buf])
        symexec.method(me, '_stop_patches', rec.stub('_stop_patches'))
        symexec.method(me, 'append_output', rec.stub('append_output'))
        fd = symexec.new_fd(sym, mod)
        context = Obj('context')
        _, raised = symexec.run(fd, fn, [context], bound_self=me, what='Sandbox._stop_mocking')
        left = stack_of(me, 'stdout')
        outs = rec.named('append_output')
        ok = raised is None and len(rec.named('_stop_patches')) == 1 and len(left) == 1 and left[0] is older and \
            len(outs) == 1 and (closed or outs[0][1][:1] == ('text',))
        ctx.check(ok, 'R9', '_stop_mocking[buffer %s]' % ('closed by the student' if closed else 'open'), mod, fn,
                  "with a capture buffer that the student %s, _stop_mocking %s (patches released %d time(s), %d buffer(s) "
                  "left on the stack, %d output record(s))" % (
                      'closed' if closed else 'left open', 'raises %s' % raised.kind if raised is not None else 'returns',
                      len(rec.named('_stop_patches')), len(left), len(outs)),
                  "import sys; sys.stdout.close(); x = 1/0  ->  run() raises ValueError('I/O operation on closed "
                  "file') into the instructor script and the ZeroDivisionError is never reported")


def run(ctx):
    sym = Symbols(ctx.repo)
    r1_sites_guarded(ctx, sym)
    r2_handler_discipline(ctx, sym)
    r3_exactly_one_feedback(ctx, sym)
    r4_recording_robust(ctx, sym)
    r5_block_list(ctx, sym)
    r6_threads(ctx, sym)
    r7_compile_error_without_position(ctx, sym)
    r8_tracers_do_not_swallow(ctx, sym)
    r9_closed_stdout(ctx, sym)
    ctx.assume("unbounded recursion surfaces as RecursionError (an Exception atom); interpreter exit by means other "
               "than SystemExit (os._exit, segfault) and resource exhaustion are not decided")
    ctx.assume("hostile-class protocols other than string conversion (__eq__, __bool__, attribute stores on the "
               "exception object) are not clauses of the property")
