"""C11 - CAIT finds every occurrence that exists by construction.

Completeness of the recursive, backtracking matcher over all programs x derivable patterns is an inductive property
of the search and is NOT decided here. Decided are the structural clauses every derivation step relies on - each a
necessary condition (if it fails, some pattern obtained from the student's own program stops matching):

  R1  any_node_match tries every node of the student tree as the root of the match and returns every match found,
      wherever in the tree it is (the generalisation "a statement of the program is a pattern" needs this);
  R2  a `___` placeholder pairs with a student node of ANY kind in the same position, and an `__expr__`
      placeholder does so too and is bound to exactly that node ("replace a sub-expression by ___ / __expr__ never
      loses the match");
(that the three placeholder classes are told apart correctly by _name_regex is decided under C10.R5)
"""
import ast

from ..fdeval import Obj, Raised, Inconclusive
from ..loader import AnalysisError
from ..symbols import Symbols

MATCH = 'pedal.cait.stretchy_tree_matching'


def _node(name, kind='Name', field='body', **attrs):
    n = Obj('CaitNode<%s>' % name, ast_name=kind, field=field, children=[], lineno=1,
            astNode=Obj('ast.' + kind, __astclass__=kind, **attrs))
    return n


def r1_every_subtree(ctx, sym, mod):
    ctx.rule('R1', "StretchyTreeMatcher.any_node_match executed abstractly on a model student tree (three levels, seven "
                   "nodes) with a root-level matcher that accepts a chosen set of nodes: for every single node and "
                   "every pair of nodes chosen, exactly those matches come back - every subtree is tried as a root and "
                   "no match found deeper in the tree is dropped")
    from .. import symexec
    fn = mod.func('StretchyTreeMatcher.any_node_match')
    ctx.analysed_function(mod, fn)
    names = ['root', 'a', 'a1', 'a2', 'a21', 'b', 'b1']
    nodes = {n: _node(n, 'Stmt') for n in names}
    for parent, kids in (('root', ['a', 'b']), ('a', ['a1', 'a2']), ('a2', ['a21']), ('b', ['b1'])):
        nodes[parent].attrs['children'] = [nodes[k] for k in kids]
    ins = _node('pattern', 'Stmt')
    targets = [[n] for n in names] + [['a1', 'b1'], ['root', 'a21'], ['a', 'a2'], []]
    for chosen in targets:
        me = symexec.self_obj(mod, 'StretchyTreeMatcher')
        tried = []

        def deep(ins_node, std_node, *a, **k):
            tried.append(std_node)
            if any(std_node is nodes[c] for c in chosen):
                m = Obj('AstMap', mappings={ins_node: std_node}, __open__=True)
                return [m]
            return []
        symexec.method(me, 'deep_find_match', deep)
        fd = symexec.new_fd(sym, mod)
        got, raised = symexec.run(fd, fn, [ins, nodes['root']], bound_self=me,
                                  what='StretchyTreeMatcher.any_node_match')
        found = [m.attrs['mappings'][ins] for m in got] if isinstance(got, list) else None
        want = [nodes[c] for c in names if c in chosen]     # document order
        ok = raised is None and found is not None and len(found) == len(want) and \
            all(any(f is w for f in found) for w in want) and len({id(t) for t in tried}) == len(names)
        roots_ok = isinstance(got, list) and all(m.attrs.get('match_root') is m.attrs['mappings'][ins] for m in got)
        ctx.check(ok and roots_ok, 'R1', 'any_node_match[%s]' % ('+'.join(chosen) or 'none'), mod, fn,
                  "with the pattern occurring at %s the search tried %d of %d nodes as a root and returned matches at %s%s" % (
                      chosen or 'no node', len({id(t) for t in tried}), len(names),
                      [f._name for f in found] if found is not None else got,
                      '' if raised is None else ' (raises %s)' % raised.kind),
                  "a statement copied from the student's own program, used as a pattern, is not found because it sits "
                  "inside a loop inside a function")


def r2_placeholders_match_anything(ctx, sym, mod):
    ctx.rule('R2', "StretchyTreeMatcher.deep_find_match_Name executed abstractly for the placeholders ___ and __expr__ "
                   "against student nodes of eight kinds (Name, Constant, BinOp, Call, Assign, For, FunctionDef, "
                   "Return) in the same position: exactly one mapping pairs the placeholder with that node, and "
                   "__expr__ is bound to that very node; with a different position and check_meta on, no match")
    from .. import symexec
    fn = mod.func('StretchyTreeMatcher.deep_find_match_Name')
    ctx.analysed_function(mod, fn)
    amod = ctx.repo.module('pedal.cait.ast_map')
    for placeholder in ('___', '__expr__', '__anything_else__'):
        for kind in ('Name', 'Constant', 'BinOp', 'Call', 'Assign', 'For', 'FunctionDef', 'Return'):
            for same_field in (True, False):
                ins = _node('pattern', 'Name', field='value', id=placeholder)
                std = _node('student', kind, field='value' if same_field else 'test', id='x')
                me = symexec.self_obj(mod, 'StretchyTreeMatcher')
                symexec.method(me, 'deep_find_match_generic', lambda *a, **k: 'delegated-to-generic')
                import re as _re

                def re_compile(pattern, flags=0):
                    rx = _re.compile(pattern, flags)    # the stdlib on the literal found in pedal
                    o = Obj('pattern %r' % pattern)
                    o.attrs['method:match'] = lambda text: (Obj('match') if rx.match(text) else None)
                    return o
                fd = symexec.new_fd(sym, mod, calls={
                    're.compile': re_compile,
                    'isinstance': lambda o, t: True if isinstance(o, Obj) and o._name.startswith('CaitNode') else (
                        isinstance(o, t) if isinstance(t, (type, tuple)) else False),
                    'type': lambda o: Obj('type', __name__=o.attrs.get('__astclass__', o._name), __closed__=True)
                    if isinstance(o, Obj) else type(o)})
                got, raised = symexec.run(fd, fn, [ins, std, True], bound_self=me,
                                          what='StretchyTreeMatcher.deep_find_match_Name')
                tag = '%s vs %s%s' % (placeholder, kind, '' if same_field else ' (other position)')
                if not same_field:
                    ok = raised is None and (got == [] or got == 'delegated-to-generic')
                    want = 'no placeholder match (different position)'
                else:
                    ok = raised is None and isinstance(got, list) and len(got) == 1 and isinstance(got[0], Obj) and \
                        got[0].attrs.get('mappings', {}).get(ins) is std
                    if ok and placeholder != '___':
                        ok = got[0].attrs.get('exp_table', {}).get(placeholder) is std
                    want = 'one mapping pairing the placeholder with that node' + (
                        '' if placeholder == '___' else ', bound as %s' % placeholder)
                ctx.check(ok, 'R2', 'deep_find_match_Name[%s]' % tag, mod, fn,
                          "the placeholder %s against a student %s node%s gives %s%s; expected %s" % (
                              placeholder, kind, '' if same_field else ' in another position',
                              got if not isinstance(got, list) else '%d mapping(s)' % len(got),
                              '' if raised is None else ' (raises %s)' % raised.kind, want),
                          "replacing `total + item` by ___ (or __expr__) in a statement copied from the student's program "
                          "loses the match")


def run(ctx):
    sym = Symbols(ctx.repo)
    mod = ctx.repo.module(MATCH)
    r1_every_subtree(ctx, sym, mod)
    r2_placeholders_match_anything(ctx, sym, mod)
    ctx.assume("completeness of the search as a whole (sibling windows, youngest-sibling bookkeeping, meta-field "
               "matching along the recursion, dropped sibling statements, consistent _var_ renaming) is an inductive "
               "property of the algorithm and is NOT decided; only the three structural clauses above are")
