"""C11 - CAIT finds every occurrence that exists by construction.

Completeness of the recursive, backtracking matcher over all programs x derivable patterns is an inductive property
of the search and is NOT decided here. Decided are the structural clauses every derivation step relies on - each a
necessary condition (if it fails, some pattern obtained from the student's own program stops matching):

  R1  any_node_match tries every node of the student tree as the root of the match and returns every match found,
      wherever in the tree it is (the generalisation "a statement of the program is a pattern" needs this);
  R2  a `___` placeholder pairs with a student node of ANY kind in the same position, and an `__expr__`
      placeholder does so too and is bound to exactly that node ("replace a sub-expression by ___ / __expr__ never
      loses the match");
(that the three placeholder classes are told apart correctly by _name_regex is decided under C10.R5)
"""
import ast

from ..fdeval import Obj, Raised, Inconclusive
from ..loader import AnalysisError
from ..symbols import Symbols

MATCH = 'pedal.cait.stretchy_tree_matching'


def _node(name, kind='Name', field='body', **attrs):
    n = Obj('CaitNode<%s>' % name, ast_name=kind, field=field, children=[], lineno=1,
            astNode=Obj('ast.' + kind, __astclass__=kind, **attrs))
    return n


def _isinstance(o, t):
    """isinstance for the model: a model ast node is an instance of the stdlib ast classes its kind derives from."""
    ts = t if isinstance(t, tuple) else (t,)
    # (the interpreter hands over stdlib classes it does not model as dotted names)
    ts = tuple(getattr(ast, x[4:], x) if isinstance(x, str) and x.startswith('ast.') else x for x in ts)
    if isinstance(o, Obj) and '__astclass__' in o.attrs:
        cls = getattr(ast, o.attrs['__astclass__'], None)
        return any(isinstance(x, type) and cls is not None and issubclass(cls, x) for x in ts)
    if isinstance(o, Obj):
        def names_cait_node(x):
            cls = getattr(x, '_fd_class', None)     # a pedal class used as a value
            return x == 'CaitNode' or getattr(cls, 'name', None) == 'CaitNode' or \
                getattr(getattr(cls, 'node', None), 'name', None) == 'CaitNode'
        return o._name.startswith('CaitNode') and any(names_cait_node(x) for x in ts)
    return any(isinstance(x, type) and isinstance(o, x) for x in ts)


def r1_every_subtree(ctx, sym, mod):
    ctx.rule('R1', "StretchyTreeMatcher.any_node_match executed abstractly on a model student tree (eleven nodes: "
                   "statements inside statements and inside an except handler) with a root-level matcher that accepts a chosen set of nodes: for every single node and "
                   "every pair of nodes chosen, exactly those matches come back - every subtree is tried as a root and "
                   "no match found deeper in the tree is dropped")
    from .. import symexec
    fn = mod.func('StretchyTreeMatcher.any_node_match')
    ctx.analysed_function(mod, fn)
    # a model program: statements inside statements, and statements inside nodes that are not statements themselves
    # (an except handler, a match case) - the kinds matter to a search that prunes by node category
    shape = {'root': ('Module', ['a', 'b', 't']), 'a': ('FunctionDef', ['a1', 'a2']), 'a1': ('Assign', []),
             'a2': ('For', ['a21']), 'a21': ('Assign', []), 'b': ('If', ['b1']), 'b1': ('Assign', []),
             't': ('Try', ['t1', 'h']), 't1': ('Assign', []), 'h': ('ExceptHandler', ['h1']), 'h1': ('Assign', []),
             }
    names = list(shape)
    nodes = {n: _node(n, shape[n][0]) for n in names}
    for parent, (_, kids) in shape.items():
        nodes[parent].attrs['children'] = [nodes[k] for k in kids]
    ins = _node('pattern', 'Assign')
    targets = [[n] for n in names] + [['a1', 'b1'], ['root', 'a21'], ['a', 'a2'], ['t1', 'h1'], []]
    for chosen in targets:
        me = symexec.self_obj(mod, 'StretchyTreeMatcher')
        tried = []

        def deep(ins_node, std_node, *a, **k):
            tried.append(std_node)
            if any(std_node is nodes[c] for c in chosen):
                m = Obj('AstMap', mappings={ins_node: std_node}, __open__=True)
                return [m]
            return []
        symexec.method(me, 'deep_find_match', deep)
        fd = symexec.new_fd(sym, mod, calls={'isinstance': _isinstance})
        got, raised = symexec.run(fd, fn, [ins, nodes['root']], bound_self=me,
                                  what='StretchyTreeMatcher.any_node_match')
        found = [m.attrs['mappings'][ins] for m in got] if isinstance(got, list) else None
        want = [nodes[c] for c in names if c in chosen]     # document order
        ok = raised is None and found is not None and len(found) == len(want) and \
            all(any(f is w for f in found) for w in want) and len({id(t) for t in tried}) == len(names)
        roots_ok = isinstance(got, list) and all(m.attrs.get('match_root') is m.attrs['mappings'][ins] for m in got)
        ctx.check(ok and roots_ok, 'R1', 'any_node_match[%s]' % ('+'.join(chosen) or 'none'), mod, fn,
                  "with the pattern occurring at %s the search tried %d of %d nodes as a root and returned matches at %s%s" % (
                      chosen or 'no node', len({id(t) for t in tried}), len(names),
                      [f._name for f in found] if found is not None else got,
                      '' if raised is None else ' (raises %s)' % raised.kind),
                  "a statement copied from the student's own program, used as a pattern, is not found because it sits "
                  "inside a loop inside a function")


def r2_placeholders_match_anything(ctx, sym, mod):
    ctx.rule('R2', "StretchyTreeMatcher.deep_find_match_Name executed abstractly for the placeholders ___ and __expr__ "
                   "against student nodes of eight kinds (Name, Constant, BinOp, Call, Assign, For, FunctionDef, "
                   "Return) in the same position: exactly one mapping pairs the placeholder with that node, and "
                   "__expr__ is bound to that very node; with a different position and check_meta on, no match")
    from .. import symexec
    fn = mod.func('StretchyTreeMatcher.deep_find_match_Name')
    ctx.analysed_function(mod, fn)
    amod = ctx.repo.module('pedal.cait.ast_map')
    for placeholder in ('___', '__expr__', '__anything_else__'):
        for kind in ('Name', 'Constant', 'BinOp', 'Call', 'Assign', 'For', 'FunctionDef', 'Return'):
            for same_field in (True, False):
                ins = _node('pattern', 'Name', field='value', id=placeholder)
                std = _node('student', kind, field='value' if same_field else 'test', id='x')
                me = symexec.self_obj(mod, 'StretchyTreeMatcher')
                symexec.method(me, 'deep_find_match_generic', lambda *a, **k: 'delegated-to-generic')
                import re as _re

                def re_compile(pattern, flags=0):
                    rx = _re.compile(pattern, flags)    # the stdlib on the literal found in pedal
                    o = Obj('pattern %r' % pattern)
                    o.attrs['method:match'] = lambda text: (Obj('match') if rx.match(text) else None)
                    return o
                fd = symexec.new_fd(sym, mod, calls={
                    're.compile': re_compile,
                    'isinstance': lambda o, t: True if isinstance(o, Obj) and o._name.startswith('CaitNode') else (
                        isinstance(o, t) if isinstance(t, (type, tuple)) else False),
                    'type': lambda o: Obj('type', __name__=o.attrs.get('__astclass__', o._name), __closed__=True)
                    if isinstance(o, Obj) else type(o)})
                got, raised = symexec.run(fd, fn, [ins, std, True], bound_self=me,
                                          what='StretchyTreeMatcher.deep_find_match_Name')
                tag = '%s vs %s%s' % (placeholder, kind, '' if same_field else ' (other position)')
                if not same_field:
                    ok = raised is None and (got == [] or got == 'delegated-to-generic')
                    want = 'no placeholder match (different position)'
                else:
                    ok = raised is None and isinstance(got, list) and len(got) == 1 and isinstance(got[0], Obj) and \
                        got[0].attrs.get('mappings', {}).get(ins) is std
                    if ok and placeholder != '___':
                        ok = got[0].attrs.get('exp_table', {}).get(placeholder) is std
                    want = 'one mapping pairing the placeholder with that node' + (
                        '' if placeholder == '___' else ', bound as %s' % placeholder)
                ctx.check(ok, 'R2', 'deep_find_match_Name[%s]' % tag, mod, fn,
                          "the placeholder %s against a student %s node%s gives %s%s; expected %s" % (
                              placeholder, kind, '' if same_field else ' in another position',
                              got if not isinstance(got, list) else '%d mapping(s)' % len(got),
                              '' if raised is None else ' (raises %s)' % raised.kind, want),
                          "replacing `total + item` by ___ (or __expr__) in a statement copied from the student's program "
                          "loses the match")


def _variants(pair, alts):
    """The maps one pattern-child/student-child pair can be matched by: one, or two when the pair is in `alts` (a
    commutative operator matched straight or swapped, say) - told apart by a marker entry."""
    if pair in alts:
        return [frozenset([pair, ('plain',) + pair]), frozenset([pair, ('alt',) + pair])]
    return [frozenset([pair])]


def _assignments(n_ins, n_std, matches, conflicts, alts=()):
    """Every order-preserving way to pair the pattern's children with student children: strictly increasing positions,
    each pair allowed by `matches`, no two chosen entries in `conflicts` (bindings that contradict each other)."""
    import itertools
    out = []
    for js in itertools.combinations(range(n_std), n_ins):
        pairs = list(enumerate(js))
        if not all(j in matches.get(i, ()) for i, j in pairs):
            continue
        for choice in itertools.product(*[_variants(p, alts) for p in pairs]):
            entries = frozenset().union(*choice)
            if not any(frozenset((p, q)) in conflicts for p in entries for q in entries if p != q):
                out.append(entries)
    return out


def r3_sibling_search(ctx, sym, mod):
    ctx.rule('R3', "StretchyTreeMatcher.deep_find_match_generic and map_merge executed abstractly on one level of a model "
                   "pattern/program pair (children matched by a table, bindings that contradict by a table, model maps "
                   "that record the pairs they hold): every order-preserving, conflict-free way of pairing the pattern's "
                   "children with student children is among the maps returned - all 64 match tables for 2 pattern "
                   "children x 3 student children, and named scenarios with 3 x 5 (first candidate rejected by a "
                   "binding conflict, wildcards everywhere, only the last positions match)")
    import itertools
    from .. import symexec
    fn = mod.func('StretchyTreeMatcher.deep_find_match_generic')
    mm = mod.func('StretchyTreeMatcher.map_merge')
    ctx.analysed_function(mod, fn)
    ctx.analysed_function(mod, mm)

    def scenario(n_ins, n_std, matches, conflicts, alts=()):
        ins_kids = [_node('p%d' % i, 'Expr', field='body') for i in range(n_ins)]
        std_kids = [_node('s%d' % j, 'Expr', field='body') for j in range(n_std)]
        ins = _node('pattern-parent', 'Module')
        std = _node('student-parent', 'Module')
        ins.attrs['children'], std.attrs['children'] = ins_kids, std_kids

        def new_map(pairs):
            m = Obj('map', pairs=frozenset(pairs), __open__=True)
            symexec.method(m, 'new_merged_map', lambda other: new_map(
                m.attrs['pairs'] | (other.attrs['pairs'] if isinstance(other, Obj) else frozenset())))
            symexec.method(m, 'merge_map_with', lambda other: m.attrs.__setitem__(
                'pairs', m.attrs['pairs'] | (other.attrs['pairs'] if isinstance(other, Obj) else frozenset())))
            symexec.method(m, 'has_conflicts', lambda: any(
                frozenset((a, b)) in conflicts for a in m.attrs['pairs'] for b in m.attrs['pairs'] if a != b))
            return m
        me = symexec.self_obj(mod, 'StretchyTreeMatcher')
        symexec.method(me, 'shallow_match', lambda a, b, *r, **k: [new_map([])])

        def deep(a, b, *r, **k):
            i = next((x for x, n in enumerate(ins_kids) if n is a), None)
            j = next((x for x, n in enumerate(std_kids) if n is b), None)
            if i is None or j is None:
                return []
            return [new_map(v) for v in _variants((i, j), alts)] if j in matches.get(i, ()) else []
        symexec.method(me, 'deep_find_match', deep)
        fd = symexec.new_fd(sym, mod, calls={'isinstance': _isinstance})
        got, raised = symexec.run(fd, fn, [ins, std], bound_self=me,
                                  what='StretchyTreeMatcher.deep_find_match_generic')
        found = [m.attrs['pairs'] for m in got if isinstance(m, Obj)] if isinstance(got, list) else []
        want = _assignments(n_ins, n_std, matches, conflicts, alts)
        missing = [sorted(w, key=repr) for w in want if w not in found]
        return missing, found, raised

    def report(tag, n_ins, n_std, matches, conflicts, example, alts=()):
        missing, found, raised = scenario(n_ins, n_std, matches, conflicts, alts)
        ctx.check(raised is None and not missing, 'R3', 'deep_find_match_generic:sibling-search[%s]' % tag, mod, fn,
                  "pattern children %d, student children %d, child i matches positions %r%s: the pairing(s) %r exist "
                  "but are not among the %d map(s) returned%s" % (
                      n_ins, n_std, {i: sorted(v) for i, v in matches.items()},
                      ', contradicting bindings %r' % [sorted(c, key=repr) for c in conflicts] if conflicts else '',
                      missing, len(found), '' if raised is None else ' (raises %s)' % raised.kind), example)
    cells = [(i, j) for i in range(2) for j in range(3)]
    n = 0
    for bits in itertools.product((0, 1), repeat=len(cells)):
        matches = {}
        for (i, j), b in zip(cells, bits):
            if b:
                matches.setdefault(i, set()).add(j)
        if not _assignments(2, 3, matches, set()):
            continue        # nothing to find: completeness demands nothing
        n += 1
        report('2x3:%s' % ''.join(map(str, bits)), 2, 3, matches, set(),
               "two statements of the student's program used as a pattern are not found in it")
    ctx.floor('R3', '2x3 match tables with at least one pairing', n, 20)
    c = lambda *ps: frozenset(ps)
    report('first-candidate-rejected-by-conflict', 3, 5, {0: {0, 1}, 1: {2, 4}, 2: {3}},
           {c((0, 0), (1, 2)), c((0, 1), (1, 4))},
           "`_v_ = 0; print(_v_); z = 1` against `x = 0; y = 0; print(y); z = 1; print(x)`")
    report('wildcards-everywhere', 3, 5, {i: set(range(5)) for i in range(3)}, set(),
           "`___; ___; ___` against a five-statement body: ten placements")
    report('only-the-last-positions', 3, 5, {0: {2}, 1: {3}, 2: {4}}, set(), "a pattern taken from the end of a body")
    report('second-base-needs-an-earlier-sibling', 2, 4, {0: {0, 2}, 1: {1, 3}}, {c((0, 0), (1, 1))},
           "`_a_ = 1; print(_a_)` against `x = 1; print(y); y = 1; print(y)`")
    report('every-later-candidate-conflicts-but-one', 3, 5, {0: {0}, 1: {1, 2, 3}, 2: {4}},
           {c((0, 0), (1, 1)), c((0, 0), (1, 2))}, "the only consistent middle statement is the last candidate")
    report('second-way-of-matching-a-child-is-the-consistent-one', 2, 2, {0: {0}, 1: {1}},
           {c(('plain', 0, 0), (1, 1))}, "`_a_ + _b_; print(_a_)` against `x + y; print(y)`: only the swapped operands fit",
           alts={(0, 0)})
    report('both-ways-of-matching-a-child-kept', 2, 3, {0: {0, 1}, 1: {2}}, set(),
           "`___ * ___; done()`: straight and swapped operand maps both survive", alts={(0, 0), (0, 1)})
    report('one-child', 1, 4, {0: {1, 3}}, set(), "a one-statement body")


def _dump(v, seen=None):
    """Structural picture of a map's state; student/pattern nodes by identity, everything else by content."""
    seen = seen if seen is not None else set()
    if isinstance(v, Obj):
        if v._name.startswith('CaitNode') or id(v) in seen:
            return ('node', id(v))
        seen.add(id(v))
        return (v._name, tuple(sorted((k, _dump(x, seen)) for k, x in v.attrs.items()
                                      if not k.startswith('method:') and not k.startswith('__'))))
    if isinstance(v, dict):
        return ('dict', tuple((repr(k) if not isinstance(k, Obj) else id(k), _dump(x, seen)) for k, x in v.items()))
    if isinstance(v, (list, tuple)):
        return (type(v).__name__, tuple(_dump(x, seen) for x in v))
    return repr(v)


def r4_backtracking_is_side_effect_free(ctx, sym):
    ctx.rule('R4', "AstMap.new_merged_map executed abstractly (real AstMap / AstSymbolList code) for a binding in each of "
                   "the variable, function, class and expression tables: merging a candidate that contradicts the base "
                   "map leaves the base map exactly as it was (structural comparison of its whole state), so the next, "
                   "consistent candidate still merges without a conflict - the search backtracks over base maps and "
                   "would otherwise lose matches")
    from .c10 import astmap_session, ASTMAP
    amod = ctx.repo.module(ASTMAP)
    fn = amod.func('AstMap.new_merged_map')
    ctx.analysed_function(amod, fn)

    def std(kind, name):
        return Obj('CaitNode<%s %s>' % (kind, name), ast_name=kind, _id=name, lineno=1, parent=None,
                   astNode=Obj('ast.' + kind, __astclass__=kind, _id=name, id=name, name=name))

    def ins(name):
        return Obj('CaitNode<pattern %s>' % name, ast_name='Name', _id=name,
                   astNode=Obj('ast.Name', __astclass__='Name', _id=name, id=name))
    binders = {
        'variable (_x_)': ('add_var_to_sym_table', lambda name: ['_x_', std('Name', name)], True),
        'function (_f_)': ('add_func_to_sym_table', lambda name: ['_f_', std('FunctionDef', name)], True),
        'class (_c_)': ('add_class_to_sym_table', lambda name: ['_c_', std('ClassDef', name)], True),
        'expression (__e__)': ('add_exp_to_sym_table', lambda name: [ins('__e__'), std('Name', name)], False),
    }
    for what, (method, args, conflicts) in binders.items():
        ctx.analysed_function(amod, amod.func('AstMap.' + method))
        try:
            fd = astmap_session(sym, amod)
            base, bad, good = fd.calls['AstMap'](), fd.calls['AstMap'](), fd.calls['AstMap']()
            good_args = args('a')
            fd.call_method(base, method, args('a'))
            fd.call_method(bad, method, args('b'))
            fd.call_method(good, method, good_args)
            fd.call_method(good, 'add_node_pairing', [ins('extra'), std('Name', 'extra')])
            before = _dump(base)
            rejected = fd.call_method(base, 'new_merged_map', [bad])
            rejected_conflicts = bool(fd.call_method(rejected, 'has_conflicts', []))
            after = _dump(base)
            kept = fd.call_method(base, 'new_merged_map', [good])
            kept_conflicts = bool(fd.call_method(kept, 'has_conflicts', []))
            # the new map is independent of the base: extending it further does not reach back either
            fd.call_method(kept, method, args('c'))
            later = _dump(base)
            raised = None
        except Inconclusive as e:
            raise AnalysisError("C11 R4: AstMap outside the decidable fragment: %s" % e)
        except Raised as e:
            raised, before, after, later, rejected_conflicts, kept_conflicts = e, 0, 1, 2, None, None
        tag = '[%s]' % what
        ctx.check(raised is None and before == after, 'R4', 'new_merged_map:base-unchanged-by-rejected-candidate' + tag,
                  amod, fn, "merging a candidate that binds the %s placeholder differently %s" % (
                      what, 'raises %s' % raised.kind if raised is not None else 'changes the base map itself'),
                  "`def _f_(): ...; print(_f_(2))` against `def perimeter..; print(area(2)); print(perimeter(2))`: the "
                  "rejected call to area pollutes the base map and the right call is reported as a conflict")
        if raised is None:
            ctx.check(rejected_conflicts is conflicts and not kept_conflicts, 'R4',
                      'new_merged_map:consistent-candidate-still-merges' + tag, amod, fn,
                      "after a contradicting candidate (conflict reported: %r) the consistent candidate merges with "
                      "conflict reported: %r" % (rejected_conflicts, kept_conflicts),
                      "the match that exists is dropped as conflicting")
            ctx.check(later == before, 'R4', 'new_merged_map:result-independent-of-base' + tag, amod, fn,
                      "extending the merged map with another %s binding changes the base map it was built from" % what,
                      "sibling candidates contaminate each other through a shared table")


_PATTERN_TEXTS = [
    'x = 1',
    'doc = """first\n   \nlast"""\nprint(doc)',             # a whitespace-only line inside a string literal
    'def f():\n    """Doc.\n\t\n    more\n    """\n    return 1',
    'text = "a\\tb"  \nprint(text)\n',                     # trailing blanks, final newline
    'if a:\n        b = 1\n        c = 2',                    # unusual but valid indentation
]


def r5_pattern_text(ctx, sym, mod):
    ctx.rule('R5', "StretchyTreeMatcher.__init__ and find_matches executed abstractly with pattern / program texts "
                   "(string literals with whitespace-only lines, tabs, trailing blanks, deep indentation): the text "
                   "handed to ast.parse has the same syntax tree (same constants) as the text given")
    from .. import symexec
    init = mod.func('StretchyTreeMatcher.__init__')
    fm = mod.func('StretchyTreeMatcher.find_matches')
    ctx.analysed_function(mod, init)
    ctx.analysed_function(mod, fm)
    for text in _PATTERN_TEXTS:
        want = ast.dump(ast.parse(text))
        for which in ('pattern', 'program'):
            parsed = []

            def parse(source, *a, **k):
                parsed.append(source)
                return Obj('tree', __astclass__='Module')
            node = lambda *a, **k: Obj('CaitNode<root>', field='none', children=[], ast_name='Module')
            fd = symexec.new_fd(sym, mod, calls={'ast.parse': parse, 'CaitNode': node, 'isinstance': _isinstance})
            me = symexec.self_obj(mod, 'StretchyTreeMatcher', report=Obj('report'))
            if which == 'pattern':
                _, raised = symexec.run(fd, init, [text, Obj('report')], bound_self=me,
                                        what='StretchyTreeMatcher.__init__')
            else:
                me.attrs['root_node'] = Obj('CaitNode<pattern>', field='none', children=[], ast_name='Assign')
                symexec.method(me, 'any_node_match', lambda *a, **k: [])
                _, raised = symexec.run(fd, fm, [text], bound_self=me, what='StretchyTreeMatcher.find_matches')
            try:
                same = len(parsed) == 1 and isinstance(parsed[0], str) and ast.dump(ast.parse(parsed[0])) == want
            except SyntaxError:
                same = False
            ctx.check(raised is None and same, 'R5', '%s-text-parsed-as-given[%r]' % (which, text[:24]), mod,
                      init if which == 'pattern' else fm,
                      "the %s text %r reaches ast.parse as %r%s" % (which, text, parsed,
                                                                 '' if raised is None else ' (raises %s)' % raised.kind),
                      "a program with a docstring containing a blank-but-indented line, used as its own pattern, does "
                      "not match")


def r6_placeholder_named_identifiers(ctx, sym, mod):
    ctx.rule('R6', "StretchyTreeMatcher.shallow_symbol_handler executed abstractly (real AstMap) for the three identifier "
                   "positions its callers pass (Name.id, Attribute.attr, arg.arg) x identifier shapes (_v_, __e__, ___, "
                   "__init__-like dunder, plain) on model nodes that carry only the fields their kind has: it never "
                   "raises, and a placeholder-shaped identifier yields one mapping pairing the two nodes - a student "
                   "program that mentions obj.__dict__ or super().__init__ still matches itself")
    from .. import symexec
    fn = mod.func('StretchyTreeMatcher.shallow_symbol_handler')
    ctx.analysed_function(mod, fn)
    kinds = {'id': 'Name', 'attr': 'Attribute', 'arg': 'arg'}
    for id_val, kind in kinds.items():
        for ident in ('_v_', '__e__', '___', '__init__', 'plain'):
            def model(who):
                fields = {id_val: ident, '_id': ident}
                a = Obj('ast.' + kind, __astclass__=kind, __closed__=True, **fields)
                symexec.method(a, '__getattribute__', lambda n, a=a: a.attrs[n] if n in a.attrs else (_ for _ in ()).throw(
                    Raised('AttributeError', "'%s' object has no attribute '%s'" % (kind, n))))
                return Obj('CaitNode<%s %s>' % (who, ident), ast_name=kind, field='value', astNode=a, ast_node=a,
                           children=[], lineno=1, _id=ident, parent=None, **{id_val: ident})
            ins, std = model('pattern'), model('student')
            me = symexec.self_obj(mod, 'StretchyTreeMatcher')
            symexec.method(me, 'shallow_match_main', lambda *a, **k: 'delegated-to-shallow_match_main')
            symexec.method(me, 'metas_match', lambda *a, **k: True)
            import re as _re

            def re_compile(pattern, flags=0):
                rx = _re.compile(pattern, flags)
                o = Obj('pattern %r' % pattern)
                o.attrs['method:match'] = lambda text: (Obj('match') if rx.match(text) else None)
                return o
            fd = symexec.new_fd(sym, mod, calls={
                're.compile': re_compile, 'isinstance': _isinstance,
                'type': lambda o: Obj('type', __name__=o.attrs.get('__astclass__', o._name), __closed__=True)
                if isinstance(o, Obj) else type(o)})
            got, raised = symexec.run(fd, fn, [ins, std, id_val, True], bound_self=me,
                                      what='StretchyTreeMatcher.shallow_symbol_handler')
            placeholder = ident != 'plain'
            if raised is not None:
                ok = False
            elif placeholder:
                ok = isinstance(got, list) and len(got) == 1 and isinstance(got[0], Obj) and \
                    got[0].attrs.get('mappings', {}).get(ins) is std
            else:
                ok = got == 'delegated-to-shallow_match_main'
            ctx.check(ok, 'R6', 'shallow_symbol_handler[%s.%s=%s]' % (kind, id_val, ident), mod, fn,
                      "a pattern %s whose %s is %r against the same student node %s" % (
                          kind, id_val, ident, 'raises %s (%s)' % (raised.kind, raised.detail) if raised is not None
                          else 'gives %r' % (got,)),
                      "print(obj.__dict__) used as its own pattern raises AttributeError: 'Attribute' object has no "
                      "attribute 'id'")


def r7_equal_nodes_match(ctx, sym, mod):
    ctx.rule('R7', "StretchyTreeMatcher.shallow_match_main executed abstractly on pairs of model nodes that are equal "
                   "(the rows of the C08/C10 content table whose expected answer is 'a mapping', incl. equal literals "
                   "and names that are different objects, as two parses of the same text give): each pair yields the "
                   "mapping - a node of the student's program matches its own copy in the pattern")
    from .c08 import shallow_match_table
    fn = mod.func('StretchyTreeMatcher.shallow_match_main')
    n = 0
    for tag, desc, got, want in shallow_match_table(ctx, sym):
        if want is not True:
            continue
        n += 1
        ctx.check(got is True, 'R7', 'shallow_match_main:equal-nodes-match:' + desc, mod, fn,
                  "%s: %s, expected a mapping" % (desc, 'no mapping' if got is False else got),
                  "`big = 100000000000000000000` used as its own pattern does not match", construct='shallow_match_main')
    ctx.floor('R7', 'equal pairs', n, 20)


def r9_function_placeholder_binding(ctx, sym):
    ctx.rule('R9', "AstMap.add_func_to_sym_table executed abstractly (real AstMap / AstSymbol code) for the student nodes "
                   "the matcher passes for a function placeholder - a FunctionDef, the Name of a plain call f(...), the "
                   "Attribute of a method call obj.m(...) - on model nodes that carry only the fields their kind has "
                   "(and, as CaitNode does, answer None for any other): the symbol recorded under the placeholder "
                   "carries the student's identifier")
    from .c10 import astmap_session, ASTMAP
    amod = ctx.repo.module(ASTMAP)
    fn = amod.func('AstMap.add_func_to_sym_table')
    ctx.analysed_function(amod, fn)

    def lenient(o):
        o.attrs['__unknown_attr__'] = lambda attr: None   # CaitNode.__getattr__ never raises for an unknown field
        return o

    def cases():
        fdef = lenient(Obj('CaitNode<FunctionDef area>', ast_name='FunctionDef', lineno=1, parent=None, _id='area',
                   astNode=Obj('ast.FunctionDef', __astclass__='FunctionDef', name='area')))
        yield 'FunctionDef', fdef, 'area'
        call = Obj('CaitNode<Call>', ast_name='Call', lineno=1, parent=None,
                   astNode=Obj('ast.Call', __astclass__='Call'))
        name = Obj('CaitNode<Name area>', ast_name='Name', lineno=1, parent=call, _id='area', id='area',
                   astNode=Obj('ast.Name', __astclass__='Name', id='area', _id='area'))
        call.attrs['func'] = name
        yield 'plain call area(...)', name, 'area'
        mcall = Obj('CaitNode<Call>', ast_name='Call', lineno=1, parent=None,
                    astNode=Obj('ast.Call', __astclass__='Call'))
        attr = Obj('CaitNode<Attribute append>', ast_name='Attribute', lineno=1, parent=mcall, _id='append',
                   attr='append', astNode=Obj('ast.Attribute', __astclass__='Attribute', attr='append', _id='append'))
        attr.attrs['value'] = Obj('CaitNode<Name names>', ast_name='Name', id='names', _id='names', parent=attr,
                                  astNode=Obj('ast.Name', __astclass__='Name', id='names'))
        mcall.attrs['func'] = attr
        yield 'method call names.append(...)', attr, 'append'
    n = 0
    for what, std_node, want in cases():
        n += 1
        node_ = std_node
        while isinstance(node_, Obj):
            lenient(node_)
            if isinstance(node_.attrs.get('value'), Obj):
                lenient(node_.attrs['value'])
            node_ = node_.attrs.get('parent')
        got, raised = None, None
        try:
            fd = astmap_session(sym, amod)
            m = fd.calls['AstMap']()
            fd.calls['type'] = lambda o: (Obj('type', __name__=o.attrs.get('__astclass__', o._name))
                                          if isinstance(o, Obj) else type(o))
            fd.call_method(m, 'add_func_to_sym_table', ['_f_', std_node])
            table = m.attrs.get('func_table')
            syms = None
            if isinstance(table, Obj):
                syms = fd.call_method(table, '__getitem__', ['_f_']) if '_f_' in (table.attrs.get('data') or
                                                                                   table.attrs.get('keys') or ['_f_']) else None
            elif isinstance(table, dict):
                syms = table.get('_f_')
            if isinstance(syms, Obj) and 'id' not in syms.attrs:
                inner = [v for v in syms.attrs.values() if isinstance(v, list)]
                syms = inner[0] if inner else syms
            if isinstance(syms, list):
                got = [x.attrs.get('id') if isinstance(x, Obj) else x for x in syms]
            elif isinstance(syms, Obj):
                got = [syms.attrs.get('id')]
        except Inconclusive as e:
            raise AnalysisError("C11 R9: add_func_to_sym_table outside the decidable fragment: %s" % e)
        except Raised as e:
            raised = e
        ctx.check(raised is None and got == [want], 'R9', 'func-placeholder-bound-to-identifier[%s]' % what, amod, fn,
                  "binding _f_ to the %s records %s%s; the placeholder must be bound to %r" % (
                      what, got, '' if raised is None else ' (raises %s: %s)' % (raised.kind, getattr(raised, 'detail', '')), want),
                  "pattern `_lst_._add_(_r_)` against `names.append(raw)`: the match binds _add_ to None")
    ctx.floor('R9', 'function-placeholder cases', n, 3)


def r10_wrapping_is_position_independent(ctx, sym):
    ctx.rule('R10', "CaitNode.__init__ executed abstractly on model syntax trees: a statement wrapped as part of a "
                    "student tree - at nesting depth 3, 30 and 60 below the module (an elif ladder nests one level "
                    "per branch) - gets the same wrapped children, field by field, as the same statement wrapped as "
                    "the root of a pattern; otherwise the verbatim pattern of a deeply nested statement has children "
                    "the student's copy lacks and cannot match")
    from .c08 import CaitModel, NODE
    cm = CaitModel(ctx, sym)
    init = cm.mod.func('CaitNode.__init__')
    ctx.analysed_function(cm.mod, init)

    def mk(cls, **fields):
        o = Obj('ast.' + cls, **fields)
        o.attrs['__astclass__'] = cls
        o.attrs['__fields__'] = list(fields)
        return o

    def statement():
        return mk('Assign', targets=[mk('Name', id='mark', ctx=mk('Store'))],
                  value=mk('BinOp', left=mk('Constant', value='F'), op=mk('Add'),
                           right=mk('Call', func=mk('Name', id='str', ctx=mk('Load')),
                                    args=[mk('Name', id='score', ctx=mk('Load'))], keywords=[])))

    def shape(node):
        kids = node.attrs.get('children')
        if not isinstance(kids, list):
            return ('?', repr(kids))
        return (node.attrs['astNode'].attrs['__astclass__'], node.attrs.get('field'),
                tuple(shape(k) for k in kids))

    def wrap(root):
        fd = cm.fd(cm.mod)

        def iter_fields(o):
            return [(f, o.attrs[f]) for f in o.attrs.get('__fields__', [])]

        def new_node(*a, **k):
            n = Obj('CaitNode<%s>' % a[0].attrs['__astclass__'])
            n.attrs['__classdef__'] = cm.cls
            fd.call_function(init, list(a), k, bound_self=n)
            return n

        def b_setattr(o, k, v):
            o.attrs[k] = v
        fd.calls['ast.iter_fields'] = iter_fields
        fd.calls['iter_fields'] = iter_fields
        fd.calls['CaitNode'] = new_node
        fd.calls['setattr'] = b_setattr
        return new_node(root, report=Obj('report'))
    try:
        want = shape(wrap(statement()))

        def size(sh):
            return 1 + sum(size(k) for k in sh[2]) if len(sh) == 3 else 0
        ctx.floor('R10', 'wrapped nodes of the reference statement', size(want), 10)
        n = 0
        for depth in (3, 30, 60):
            stmt = statement()
            body = stmt
            for _ in range(depth - 1):
                body = mk('If', test=mk('Name', id='c', ctx=mk('Load')), body=[mk('Pass')], orelse=[body])
            module = mk('Module', body=[body], type_ignores=[])
            wrap(module)
            got = shape(stmt.attrs['cait_node']) if isinstance(stmt.attrs.get('cait_node'), Obj) else None
            if got is not None:
                got = (got[0], want[1], got[2])      # the field name differs by position ('' for a root)
            n += 1
            ctx.check(got == want, 'R10', 'wrapped-children-independent-of-depth[%d]' % depth, cm.mod, init,
                      "a statement %d levels below the module is wrapped as %r, the same statement as a pattern root "
                      "as %r" % (depth, got, want),
                      "a grade ladder of 25 elif branches: find_matches(\"mark = 'F' + str(score)\") finds nothing "
                      "although the line is in the program")
    except Inconclusive as e:
        raise AnalysisError("C11 R10: CaitNode.__init__ outside the decidable fragment: %s" % e)
    except Raised as e:
        ctx.check(False, 'R10', 'wrapped-children-independent-of-depth[raises]', cm.mod, init,
                  "wrapping a model tree raises %s" % e.kind, "every parse of a student program")
        n = 3
    ctx.floor('R10', 'wrapping depths', n, 3)


def run(ctx):
    sym = Symbols(ctx.repo)
    mod = ctx.repo.module(MATCH)
    r1_every_subtree(ctx, sym, mod)
    r2_placeholders_match_anything(ctx, sym, mod)
    r3_sibling_search(ctx, sym, mod)
    r4_backtracking_is_side_effect_free(ctx, sym)
    r5_pattern_text(ctx, sym, mod)
    r6_placeholder_named_identifiers(ctx, sym, mod)
    r7_equal_nodes_match(ctx, sym, mod)
    r9_function_placeholder_binding(ctx, sym)
    # r10_wrapping_is_position_independent is NOT armed: it reports C11_q and is silent on the tree, but the benign
    # twin C11_s (the child loop moved into ast_helpers.iter_child_asts) leaves its decidable fragment (names imported
    # by the helper's module are not resolved in the nested interpreter) - see DESIGN 10.17
    # R8: the student tree searched is the parse of the code asked for, whatever was queried before (the C08.R8
    # decision table over call sequences of reparse_if_needed, here for find_matches)
    from .c08 import r8_program_identity
    r8_program_identity(ctx, sym, rule='R8', entry='find_matches')
    ctx.assume("completeness of the search as a whole (sibling windows, youngest-sibling bookkeeping, meta-field "
               "matching along the recursion, dropped sibling statements, consistent _var_ renaming) is an inductive "
               "property of the algorithm and is NOT decided; only the three structural clauses above are")
