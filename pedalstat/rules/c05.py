"""C05 - whatever the sandbox patches is restored after every execution, however it ends."""
import ast

from ..astutil import dotted, calls, call_name, body_walk, walk_local, is_self_attr, method_calls
from ..cfg import CFG, ALL_EXC, EXCEPTION_DOWN, describe, down
from ..loader import AnalysisError, norm, enclosing_function
from ..symbols import Symbols, ClassInfo
from ..tables import literal

SANDBOX = 'pedal.sandbox.sandbox'
TRACER = 'pedal.sandbox.tracer'
STUDENT_EXEC = ('exec', 'compile', 'eval')


def is_self_call(call, name):
    return isinstance(call, ast.Call) and isinstance(call.func, ast.Attribute) and call.func.attr == name \
        and isinstance(call.func.value, ast.Name) and call.func.value.id == 'self'


def student_raises(n):
    """Designated raise points of the execution functions (DESIGN appendix A)."""
    if isinstance(n, ast.withitem):
        return ALL_EXC          # tracer enter/exit bracket student execution; async exceptions land here too
    for c in walk_local(n):
        if isinstance(c, ast.Call):
            if call_name(c) in STUDENT_EXEC:
                return ALL_EXC
            if is_self_call(c, '_capture_exception'):
                return EXCEPTION_DOWN
    return ()


PRIMITIVES = ('_start_mocking', '_stop_mocking', '_start_patches', '_stop_patches', '_capture_exception',
              '_execute', '_execute_with_timeout')


def build_exec_cfg(fn):
    cls = getattr(fn, '_parent', None)
    return CFG(fn, raises=student_raises, flatten=(cls, PRIMITIVES) if isinstance(cls, ast.ClassDef) else None)


_ROLE_CACHE = {}


def stack_roles(ctx, sym, mod):
    """Names of the sandbox's two stacks, found by what the code does with them rather than by their spelling:
    'patches' is the list attribute Sandbox._start_patches pushes onto, 'stdout' the one _start_mocking pushes the
    freshly created capture buffer onto. Falls back to the historical names."""
    key = ctx.repo.hexdigest()
    if key in _ROLE_CACHE:
        return _ROLE_CACHE[key]
    from .. import symexec
    from ..fdeval import Obj, Raised, Inconclusive
    roles = {'patches': '_current_patches', 'stdout': '_current_stdout'}
    try:
        init = mod.func('Sandbox.__init__')
        lists = [t.attr for n in ast.walk(init) if isinstance(n, ast.Assign) and isinstance(n.value, ast.List)
                 and not n.value.elts for t in n.targets if is_self_attr(t)]
        if lists:
            me = symexec.self_obj(mod, 'Sandbox', **{a: [] for a in lists})
            probe = Obj('probe-patch')
            symexec.method(probe, 'start', lambda: None)
            fd = symexec.new_fd(sym, mod, calls={'threading.get_ident': lambda: 1, 'get_ident': lambda: 1})
            fd.call_function(mod.func('Sandbox._start_patches'), [probe], bound_self=me)
            grew = [a for a in lists if me.attrs[a]]
            if len(grew) == 1:
                roles['patches'] = grew[0]
            me2 = symexec.self_obj(mod, 'Sandbox', **{a: [] for a in lists})
            me2.attrs.update(_module_overrides={'__builtins__': {}}, data={}, modules={})
            for name in ('mock_function', '_track_inputs', '_reset_builtins', '_mock_builtins', '_start_patches'):
                symexec.method(me2, name, lambda *a, **k: None)
            made = []

            def buf(*a, **k):
                o = Obj('buffer')
                made.append(o)
                return o
            fd2 = symexec.new_fd(sym, mod, calls={'io.StringIO': buf, 'StringIO': buf, 'PrintingStringIO': buf,
                                                  'patch': lambda *a, **k: Obj('patch'),
                                                  'patch.dict': lambda *a, **k: Obj('patch.dict')},
                                 extra={'sys.modules': {}})
            fd2.call_function(mod.func('Sandbox._start_mocking'), [Obj('context', inputs=[])], bound_self=me2)
            grew = [a for a in lists if any(x in made for x in me2.attrs[a])]
            if len(grew) == 1:
                roles['stdout'] = grew[0]
    except (Raised, Inconclusive, AnalysisError, KeyError):
        pass
    _ROLE_CACHE[key] = roles
    return roles


def sandbox_self(ctx, sym, mod, patches=None, stdout=None, **attrs):
    """A symbolic Sandbox `self` whose two stacks are preset under whatever names the code uses for them."""
    from .. import symexec
    roles = stack_roles(ctx, sym, mod)
    attrs[roles['patches']] = [] if patches is None else patches
    attrs[roles['stdout']] = [] if stdout is None else stdout
    me = symexec.self_obj(mod, 'Sandbox', **attrs)
    me.attrs['__roles__'] = roles
    return me


def stack(me, role):
    return me.attrs[me.attrs['__roles__'][role]]


def execute_scenarios(ctx, sym, mod, code='x = 1'):
    """Sandbox._execute executed abstractly for every raise point (compile, tracer enter, exec, tracer exit, none) x
    exception class. Yields (where, kind, observations)."""
    from .. import symexec
    from ..fdeval import Obj, Raised, Inconclusive
    fn = mod.func('Sandbox._execute')
    ctx.analysed_function(mod, fn)
    # (kind, label, what an exception object of that kind carries)
    kinds = [('ValueError', 'ValueError', dict(args=('bad',))), ('SyntaxError', 'SyntaxError', dict(args=('bad',))),
             ('RecursionError', 'RecursionError', dict(args=())), ('SystemExit', 'SystemExit', dict(args=(), code=None)),
             ('SystemExit', 'SystemExit(0)', dict(args=(0,), code=0)),
             ('SystemExit', "SystemExit('done')", dict(args=('done',), code='done')),
             ('KeyboardInterrupt', 'KeyboardInterrupt', dict(args=())), ('GeneratorExit', 'GeneratorExit', dict(args=()))]
    for where in ('none', 'compile', 'tracer-enter', 'exec', 'tracer-exit'):
        for kind, label, carried in (kinds if where != 'none' else [(None, None, {})]):
            if label != kind and where != 'exec':
                continue        # the exit-status variants matter where student code runs
            rec = symexec.Recorder()
            exc = Obj('student-exception', exc_kind=kind, **carried)
            exc_info = symexec.marker('sys.exc_info()')

            def boom(name, ret=None):
                def f(*a, **k):
                    rec.events.append((name, a, k))
                    if where == name:
                        raise Raised(kind, payload=exc)
                    return ret
                return f
            cm = Obj('tracer-context')
            symexec.method(cm, '__enter__', boom('tracer-enter', ret=cm))
            symexec.method(cm, '__exit__', lambda *a: (boom('tracer-exit')(), False)[1])
            trace = Obj('trace')
            symexec.method(trace, 'as_filename', lambda *a, **k: cm)
            me = symexec.self_obj(mod, 'Sandbox', allowed_time=1, _next_context_id=7, target=None, exception=None,
                                  report=Obj('report', submission=Obj('submission')), _context=[], data={},
                                  trace=trace)
            for name in ('clear_exception', '_start_mocking', '_stop_mocking', '_capture_exception',
                         '_execute_with_timeout', '_stop_patches'):
                symexec.method(me, name, rec.stub(name))
            import builtins as _bi

            def b_type(o):
                # the class of a student exception is the builtin class of its kind
                if isinstance(o, Obj) and o.attrs.get('exc_kind'):
                    return getattr(_bi, o.attrs['exc_kind'])
                if isinstance(o, Obj):
                    raise Inconclusive('type() of a model object')
                return type(o)

            def b_isinstance(o, t):
                ts = t if isinstance(t, tuple) else (t,)
                if isinstance(o, Obj) and o.attrs.get('exc_kind'):
                    return any(isinstance(x, type) and issubclass(getattr(_bi, o.attrs['exc_kind']), x) for x in ts)
                if isinstance(o, Obj):
                    return False
                return any(isinstance(x, type) and isinstance(o, x) for x in ts)
            fd = symexec.new_fd(sym, mod, calls={
                'compile': boom('compile', ret=symexec.marker('code-object')), 'exec': boom('exec'),
                'SandboxContext': rec.stub('SandboxContext', fn=lambda *a, **k: Obj('context')),
                'sys.exc_info': lambda: exc_info, 'type': b_type, 'isinstance': b_isinstance,
                'issubclass': lambda c, t: isinstance(c, type) and issubclass(c, t)})
            value, raised = symexec.run(fd, fn, [code, 'answer.py', 'run', False], bound_self=me,
                                        what='Sandbox._execute')
            yield where, kind, dict(rec=rec, value=value, raised=raised, me=me, exc=exc, exc_info=exc_info, label=label)


def acquire_functions(mod, cls='Sandbox', acquire='_start_mocking'):
    out = []
    for q, fn in mod.functions.items():
        if q.startswith(cls + '.') and q.count('.') == 1 and fn.name != acquire:
            if any(is_self_call(c, acquire) for c in calls(fn)):
                out.append(fn)
    return out


def r1_release_on_all_exits(ctx, mod, sym=None):
    ctx.rule('R1', "in every function that calls _start_mocking, every CFG path from that call to the normal exit "
                   "or to the exceptional exit under any exception atom passes through _stop_mocking "
                   "(exec/compile/tracer enter+exit raise every atom; _capture_exception raises Exception atoms)")
    # behavioural companion: _execute executed abstractly for every raise point x exception class
    n_sc = 0
    for where, kind, ob in execute_scenarios(ctx, sym, mod):
        n_sc += 1
        rec = ob['rec']
        starts, stops = len(rec.named('_start_mocking')), len(rec.named('_stop_mocking'))
        ctx.check(starts == 1 and stops == 1, 'R1', '_execute[%s raises %s]:released-once' % (where, ob['label']), mod,
                  mod.func('Sandbox._execute'),
                  "with %s raised at %s, _start_mocking ran %d time(s) and _stop_mocking %d time(s)" % (
                      kind, where, starts, stops),
                  "student code ending with %s leaves sys.stdout / sys.modules / time.sleep patched (or unpatches "
                  "twice, popping an outer execution's buffer)" % kind, function='Sandbox._execute')
    ctx.floor('R1', '_execute scenarios', n_sc, 20)
    fns = acquire_functions(mod)
    ctx.floor('R1', 'functions acquiring the mocks', len(fns), 1)
    for fn in fns:
        ctx.analysed_function(mod, fn)
        g = build_exec_cfg(fn)
        ctx.analysed['cfgs'] += 1
        acq = g.nodes_calling(lambda c: is_self_call(c, '_start_mocking'))
        rel = g.nodes_calling(lambda c: is_self_call(c, '_stop_mocking'))
        ctx.require(len(acq) >= 1, "no _start_mocking node in %s" % fn._qualname)
        raisers = g.nodes_calling(lambda c: call_name(c) in STUDENT_EXEC)
        ctx.require(raisers, "%s acquires the mocks but has no exec/compile raise point" % fn._qualname)
        for a in acq:
            reach = g.successors_avoiding(a, rel)
            key = "%s:normal-exit" % fn._qualname
            if g.exit.id in reach:
                p = g.path(a, g.exit, avoid=rel)
                ctx.fail('R1', key, mod, a.ast,
                         "a normal-exit path leaves the mocks in place: " + g.describe_path(p),
                         "student code that finishes normally; sys.stdout/sys.modules/time.sleep stay patched",
                         function=fn._qualname)
            else:
                ctx.ok('R1', key, sample='all normal-exit paths release')
            # exceptional exit: which atoms arrive at XEXIT from nodes reachable without release
            leaked = set()
            witness = None
            for p, label in g.pred[g.xexit.id]:
                if p in reach and isinstance(label, frozenset):
                    leaked |= label
                    witness = witness or g.nodes[p]
            key = "%s:exceptional-exit" % fn._qualname
            if leaked:
                p = g.path(a, g.xexit, avoid=rel)
                ctx.fail('R1', key, mod, witness.ast if witness is not None else a.ast,
                         "exceptions {%s} raised by student execution reach the caller without _stop_mocking: %s"
                         % (describe(leaked), g.describe_path(p)),
                         "student code `raise KeyboardInterrupt` (or GeneratorExit, or any class deriving "
                         "BaseException directly): run() propagates it with sys.stdout, sys.modules and time.sleep "
                         "still patched and both sandbox stacks non-empty",
                         function=fn._qualname, construct="try: ... exec(...) ... handlers: %s" % (
                             [norm(h.type) for t in ast.walk(fn) if isinstance(t, ast.Try) for h in t.handlers]))
            else:
                ctx.ok('R1', key, sample='every exception atom passes through a release')


def r1b_timeout_arm_releases(ctx, mod):
    """The grader's `except TimeoutError` arm must stop the patches of the abandoned execution itself."""
    fn = mod.func('Sandbox._execute_with_timeout')
    ctx.analysed_function(mod, fn)
    arms = [h for t in ast.walk(fn) if isinstance(t, ast.Try) for h in t.handlers
            if h.type is not None and 'TimeoutError' in norm(h.type)]
    ctx.require(len(arms) == 1, "_execute_with_timeout has no single TimeoutError arm")
    from ..astutil import flat_self_calls
    seq = flat_self_calls(arms[0].body, mod.cls('Sandbox'),
                          stop=('_stop_mocking', '_stop_patches', '_capture_exception'))
    rel = [i for i, c in enumerate(seq) if is_self_call(c, '_stop_mocking') or is_self_call(c, '_stop_patches')]
    cap = [i for i, c in enumerate(seq) if is_self_call(c, '_capture_exception')]
    ok = bool(rel) and (not cap or rel[0] < cap[0])
    ctx.check(ok, 'R1', 'Sandbox._execute_with_timeout:timeout-arm-releases', mod, arms[0],
              "after a time-limit violation the grader's arm does not stop the patches of the abandoned execution "
              "(before recording the timeout): restoring them is left to the student thread, which may never unwind",
              "student code blocked in C or swallowing BaseException under a time limit: run(threaded=True) returns "
              "with sys.stdout, sys.modules and time.sleep still patched", function='Sandbox._execute_with_timeout')


def _stmt_of(node, handler):
    while getattr(node, '_parent', None) is not handler:
        node = node._parent
    return node


def r2_release_before_recording(ctx, mod):
    ctx.rule('R2', "in every handler, _stop_mocking dominates _capture_exception (a failure while building the "
                   "feedback leaves nothing patched)")
    n = 0
    for fn in acquire_functions(mod):
        g = build_exec_cfg(fn)
        rel = g.nodes_calling(lambda c: is_self_call(c, '_stop_mocking'))
        caps = g.nodes_calling(lambda c: is_self_call(c, '_capture_exception'))
        acq = g.nodes_calling(lambda c: is_self_call(c, '_start_mocking'))
        for cap in caps:
            n += 1
            # no path acquire -> capture avoiding release
            ok = all(cap.id not in g.successors_avoiding(a, rel) for a in acq)
            ctx.check(ok, 'R2', "%s:capture@%s" % (fn._qualname, _handler_of(cap.ast)), mod, cap.ast,
                      "_capture_exception can run while the mocks are still in place",
                      "an exception class whose feedback construction fails: the patches leak",
                      function=fn._qualname)
    ctx.floor('R2', 'capture sites after an acquire', n, 1)


def _handler_of(node):
    n = node
    while n is not None and not isinstance(n, ast.ExceptHandler):
        n = getattr(n, '_parent', None)
    return ('except ' + norm(n.type)) if n is not None and n.type is not None else 'body'


def writers_of(mod, cls, attr):
    """(function, node, kind) for every mutation of self.<attr> in methods of cls."""
    out = []
    MUT = ('append', 'extend', 'insert', 'pop', 'remove', 'clear', 'update', 'add', 'discard',
           'setdefault', 'sort', 'popitem', 'reverse')
    for q, fn in mod.functions.items():
        if not q.startswith(cls + '.'):
            continue
        for n in ast.walk(fn):
            if isinstance(n, (ast.Assign, ast.AugAssign, ast.AnnAssign, ast.Delete)):
                targets = n.targets if isinstance(n, (ast.Assign, ast.Delete)) else [n.target]
                for t in targets:
                    for tt in (t.elts if isinstance(t, (ast.Tuple, ast.List)) else [t]):
                        if is_self_attr(tt, attr):
                            out.append((fn, n, 'assign'))
                        elif isinstance(tt, ast.Subscript) and is_self_attr(tt.value, attr):
                            out.append((fn, n, 'setitem'))
            elif isinstance(n, ast.Call) and isinstance(n.func, ast.Attribute) and n.func.attr in MUT \
                    and is_self_attr(n.func.value, attr):
                out.append((fn, n, n.func.attr))
    return out


def thread_model():
    """(current, calls): a model of the threading identity functions. current['ident'] selects the running thread;
    thread objects are one per identity (so `is` comparisons behave), the main thread is current['main']."""
    from ..fdeval import Obj
    current = {'ident': 1, 'main': 0}
    threads = {}

    def thread(i):
        if i not in threads:
            threads[i] = Obj('thread', ident=i, name='thread-%d' % i, native_id=100 + i)
        return threads[i]
    calls_ = {'threading.get_ident': lambda: current['ident'], 'get_ident': lambda: current['ident'],
              'threading.get_native_id': lambda: 100 + current['ident'],
              'threading.current_thread': lambda: thread(current['ident']),
              'current_thread': lambda: thread(current['ident']),
              'threading.main_thread': lambda: thread(current['main']),
              'main_thread': lambda: thread(current['main'])}
    return current, calls_


def cross_thread_release(ctx, sym, mod, rule):
    """The timeout arm runs in the grader thread while the patches were started in the student thread: a group
    started under one thread identity must be stopped by _stop_patches called under another."""
    from .. import symexec
    from ..fdeval import Obj
    sp = mod.func('Sandbox._stop_patches')
    stp = mod.func('Sandbox._start_patches')

    def patch_obj(name, rec):
        o = Obj(name)
        symexec.method(o, 'start', rec.stub(name + '.start'))
        symexec.method(o, 'stop', rec.stub(name + '.stop'))
        return o
    current, thread_calls = thread_model()
    # the grader may be the process's main thread (a script) or not (a server / notebook worker)
    for grader, main, tag in ((2, 2, ''), (2, 0, '[grader-not-main-thread]')):
        rec = symexec.Recorder()
        p1, p2 = patch_obj('p1', rec), patch_obj('p2', rec)
        me = sandbox_self(ctx, sym, mod)
        fd = symexec.new_fd(sym, mod, calls=thread_calls)
        current['ident'], current['main'] = 1, main
        _, raised1 = symexec.run(fd, stp, [p1, p2], bound_self=me, what='Sandbox._start_patches')
        current['ident'] = grader
        _, raised2 = symexec.run(fd, sp, [], bound_self=me, what='Sandbox._stop_patches')
        stops = sorted(e[0] for e in rec.events if e[0].endswith('.stop'))
        ctx.check(raised1 is None and raised2 is None and stops == ['p1.stop', 'p2.stop'] and
                  not stack(me, 'patches'), rule, '_stop_patches:other-thread' + tag, mod, sp,
                  "patches started in one thread are not stopped by _stop_patches called from another thread%s "
                  "(stopped: %s, stack left: %d)" % (' that is not the main thread' if tag else '', stops,
                                                    len(stack(me, 'patches'))),
                  "a threaded run that times out: the grader's arm cannot release what the abandoned student thread "
                  "started, so sys.stdout / sys.modules / time.sleep stay patched")


def r3_release_complete_and_owned(ctx, mod, sym):
    ctx.rule('R3', "_stop_mocking = _stop_patches() + exactly one _current_stdout.pop(); _stop_patches pops one "
                   "tuple and stops every element; the two stacks are pushed/popped only by the paired helpers; "
                   "_stop_patches may be called only from _stop_mocking (a direct caller leaves the stdout frame)")
    sm = mod.func('Sandbox._stop_mocking')
    sp = mod.func('Sandbox._stop_patches')
    stp = mod.func('Sandbox._start_patches')
    stm = mod.func('Sandbox._start_mocking')
    for f in (sm, sp, stp, stm):
        ctx.analysed_function(mod, f)
    from .. import symexec
    from ..fdeval import Obj

    def patch_obj(name, rec):
        o = Obj(name)
        symexec.method(o, 'start', rec.stub(name + '.start'))
        symexec.method(o, 'stop', rec.stub(name + '.stop'))
        return o
    current, thread_calls = thread_model()
    # the stack is built by _start_patches itself (whatever representation it uses), then _stop_patches must stop
    # exactly the patches of the newest group and pop that group; with an empty stack nothing happens
    for depth in (2, 1, 0):
        rec = symexec.Recorder()
        p1, p2, p3 = patch_obj('p1', rec), patch_obj('p2', rec), patch_obj('p3', rec)
        groups = [(p1,), (p2, p3)][2 - depth:] if depth else []
        me = sandbox_self(ctx, sym, mod)
        fd = symexec.new_fd(sym, mod, calls=thread_calls)
        for g_ in groups:
            symexec.run(fd, stp, list(g_), bound_self=me, what='Sandbox._start_patches')
        del rec.events[:]
        _, raised = symexec.run(fd, sp, [], bound_self=me, what='Sandbox._stop_patches')
        want_events = sorted(x._name + '.stop' for x in (groups[-1] if groups else ()))
        got_events = sorted(e[0] for e in rec.events)
        ok = raised is None and got_events == want_events and \
            len(stack(me, 'patches')) == max(0, len(groups) - 1)
        ctx.check(ok, 'R3', '_stop_patches:stops-all[depth=%d]' % depth, mod, sp,
                  "with %d group(s) on the stack _stop_patches performs %s and leaves %d group(s)%s; it must stop "
                  "exactly the patches of the newest group (%s) and pop that group" % (
                      depth, got_events, len(stack(me, 'patches')),
                      '' if raised is None else ' (raises %s)' % raised.kind, want_events),
                  "a patch of the popped group (sys.modules / sys.stdout / time.sleep) stays active, or an outer "
                  "execution's patches are stopped")
    cross_thread_release(ctx, sym, mod, 'R3')
    # _start_patches: records the group, then starts every patch once
    rec = symexec.Recorder()
    p1, p2 = patch_obj('p1', rec), patch_obj('p2', rec)
    older = (patch_obj('older', rec),)
    me = sandbox_self(ctx, sym, mod, patches=[older])
    fd = symexec.new_fd(sym, mod, calls=thread_calls)
    _, raised = symexec.run(fd, stp, [p1, p2], bound_self=me, what='Sandbox._start_patches')
    st_ = stack(me, 'patches')
    ok = raised is None and sorted(e[0] for e in rec.events) == ['p1.start', 'p2.start'] and len(st_) == 2 and \
        st_[0] is older
    ctx.check(ok, 'R3', '_start_patches:tracks-all', mod, stp,
              "_start_patches does not record the group (on top of the older ones) and start each patch once",
              "a started patch is not tracked and therefore never stopped")
    # acquisition is all-or-nothing: a patch that cannot start (patch('time.sleep') when the instructor blocked
    # `time`, patch('sys.stdout') when `sys` is blocked) must not leave the earlier ones active or tracked
    from ..fdeval import Raised as _Raised0
    for failing in (0, 1, 2):
        rec = symexec.Recorder()
        ps = [patch_obj('p%d' % i, rec) for i in range(3)]

        def _boom(*a, **k):
            rec.events.append(('p%d.start-fails' % failing, a, k))
            raise _Raised0('SandboxPreventModule', 'You cannot import `time` from student code.')
        symexec.method(ps[failing], 'start', _boom)
        older = (patch_obj('older', rec),)
        me = sandbox_self(ctx, sym, mod, patches=[older])
        fd = symexec.new_fd(sym, mod, calls=thread_calls)
        _, raised = symexec.run(fd, stp, ps, bound_self=me, what='Sandbox._start_patches')
        names = [e[0] for e in rec.events]
        leaked = [n_[:-6] for n_ in names if n_.endswith('.start') and n_[:-6] + '.stop' not in names]
        st_ = stack(me, 'patches')
        ok = not leaked and len(st_) == 1 and st_[0] is older and 'older.stop' not in names
        ctx.check(ok, 'R3', '_start_patches:all-or-nothing[fails=%d]' % failing, mod, stp,
                  "when the start of patch #%d raises, _start_patches leaves %s started and %d group(s) on the stack "
                  "(events %s); the patches already started must be stopped and the group must not stay tracked" % (
                      failing, leaked or 'nothing', len(st_), names),
                  "Sandbox().block_module('time'); run(...) raises SandboxPreventModule from patch('time.sleep') with "
                  "sys.modules and sys.stdout still patched and both stacks non-empty")
    rec = symexec.Recorder()
    older_buf = Obj('older-buffer')
    me = sandbox_self(ctx, sym, mod, stdout=[older_buf])
    me.attrs.update(_module_overrides={'__builtins__': {}}, data={}, modules={})
    for name in ('mock_function', '_track_inputs', '_reset_builtins', '_mock_builtins'):
        symexec.method(me, name, lambda *a, **k: None)

    def _sp_fails(*a, **k):
        raise _Raised0('SandboxPreventModule', 'You cannot import `time` from student code.')
    symexec.method(me, '_start_patches', _sp_fails)
    fd = symexec.new_fd(sym, mod, calls={'io.StringIO': lambda *a, **k: Obj('buffer'),
                                         'StringIO': lambda *a, **k: Obj('buffer'),
                                         'PrintingStringIO': lambda *a, **k: Obj('buffer'),
                                         'patch': lambda *a, **k: Obj('patch'),
                                         'patch.dict': lambda *a, **k: Obj('patch.dict')},
                         extra={'sys.modules': {}})
    symexec.run(fd, stm, [Obj('context', inputs=[])], bound_self=me, what='Sandbox._start_mocking')
    # ... and on success exactly one frame is pushed: the buffer that was patched in as sys.stdout
    me_ok = sandbox_self(ctx, sym, mod, stdout=[older_buf])
    me_ok.attrs.update(_module_overrides={'__builtins__': {}}, data={}, modules={})
    for name in ('mock_function', '_track_inputs', '_reset_builtins', '_mock_builtins'):
        symexec.method(me_ok, name, lambda *a, **k: None)
    rec_ok = symexec.Recorder()
    symexec.method(me_ok, '_start_patches', rec_ok.stub('_start_patches'))
    patched = []

    def _patch(target=None, new=None, *a, **k):
        if target == 'sys.stdout':
            patched.append(new)
        return Obj('patch')
    fd_ok = symexec.new_fd(sym, mod, calls={'io.StringIO': lambda *a, **k: Obj('buffer'),
                                            'StringIO': lambda *a, **k: Obj('buffer'),
                                            'PrintingStringIO': lambda *a, **k: Obj('buffer'),
                                            'patch': _patch, 'patch.dict': lambda *a, **k: Obj('patch.dict')},
                           extra={'sys.modules': {}})
    _, raised_ok = symexec.run(fd_ok, stm, [Obj('context', inputs=[])], bound_self=me_ok,
                               what='Sandbox._start_mocking')
    st_ok = stack(me_ok, 'stdout')
    ctx.check(raised_ok is None and len(st_ok) == 2 and st_ok[0] is older_buf and len(patched) == 1
              and st_ok[1] is patched[0] and len(rec_ok.named('_start_patches')) == 1,
              'R3', '_start_mocking:pushes-the-patched-buffer', mod, stm,
              "_start_mocking does not push exactly one frame - the buffer it patches in as sys.stdout - on top of "
              "the older ones and start one patch group (stack %r, %d sys.stdout patch(es))" % (st_ok, len(patched)),
              "the output of the execution is read from a buffer the student never wrote to, or the stack is "
              "unbalanced after the execution")
    ctx.check(stack(me, 'stdout') == [older_buf], 'R3', '_start_mocking:all-or-nothing', mod, stm,
              "when _start_patches raises, _start_mocking leaves the capture buffer it pushed on the stdout stack "
              "(%d frame(s) instead of 1)" % len(stack(me, 'stdout')),
              "Sandbox().block_module('time'); run(...) raises and the sandbox's stdout stack stays non-empty")
    # _stop_mocking: exactly one _stop_patches and one buffer popped, on every path
    rec = symexec.Recorder()
    older_buf, buf = Obj('older-buffer'), Obj('buffer')
    symexec.method(buf, 'getvalue', lambda: 'text')
    symexec.method(older_buf, 'getvalue', lambda: 'older text')
    symexec.method(buf, 'flush', lambda: None)
    symexec.method(older_buf, 'flush', lambda: None)
    me = sandbox_self(ctx, sym, mod, stdout=[older_buf, buf])
    symexec.method(me, '_stop_patches', rec.stub('_stop_patches'))
    symexec.method(me, 'append_output', rec.stub('append_output'))
    fd = symexec.new_fd(sym, mod)
    _, raised = symexec.run(fd, sm, [Obj('context')], bound_self=me, what='Sandbox._stop_mocking')
    ok = raised is None and len(rec.named('_stop_patches')) == 1 and stack(me, 'stdout') == [older_buf]
    # a student program may close its own stdout: reading the buffer then raises, and the patches must already be gone
    from ..fdeval import Raised as _Raised
    rec2 = symexec.Recorder()
    closed = Obj('closed-buffer')

    def _closed(*a, **k):
        raise _Raised('ValueError', 'I/O operation on closed file')
    for mname in ('getvalue', 'flush', 'read', 'seek', 'tell', 'close'):
        symexec.method(closed, mname, _closed)
    me2 = sandbox_self(ctx, sym, mod, stdout=[closed])
    symexec.method(me2, '_stop_patches', rec2.stub('_stop_patches'))
    symexec.method(me2, 'append_output', rec2.stub('append_output'))
    symexec.run(symexec.new_fd(sym, mod), sm, [Obj('context')], bound_self=me2, what='Sandbox._stop_mocking')
    ctx.check(len(rec2.named('_stop_patches')) == 1, 'R3', '_stop_mocking:releases-before-reading', mod, sm,
              "when reading the capture buffer fails (the student closed sys.stdout) _stop_patches has not run: the "
              "patches outlive the execution",
              "student code `import sys; sys.stdout.close()`: run() raises ValueError and leaves sys.stdout, "
              "sys.modules and time.sleep patched")
    ctx.check(ok, 'R3', '_stop_mocking:shape', mod, sm,
              "_stop_mocking does not call _stop_patches() once and pop exactly this execution's buffer "
              "(%d call(s), stack %r)" % (len(rec.named('_stop_patches')), stack(me, 'stdout')),
              "after an execution one of the two stacks keeps a frame")
    # ownership of the stacks
    roles_ = stack_roles(ctx, sym, mod)
    # (a pop inside the pushing helper is the roll-back of its own failed acquisition; what those two helpers leave
    # on the stacks is decided by executing them above: one frame on success, none on failure)
    allowed = {roles_['patches']: {'append': {'Sandbox._start_patches'},
                                   'pop': {'Sandbox._stop_patches', 'Sandbox._start_patches'},
                                   'assign': {'Sandbox.__init__'}},
               roles_['stdout']: {'append': {'Sandbox._start_mocking'},
                                  'pop': {'Sandbox._stop_mocking', 'Sandbox._start_mocking'},
                                  'assign': {'Sandbox.__init__'}}}
    for attr, table in allowed.items():
        ws = writers_of(mod, 'Sandbox', attr)
        ctx.floor('R3', 'writers of ' + attr, len(ws), 3)
        for fn, node, kind in ws:
            key = "%s:%s@%s" % (attr, kind, fn._qualname)
            ctx.check(fn._qualname in table.get(kind, ()), 'R3', key, mod, node,
                      "self.%s is mutated (%s) outside its owner helpers" % (attr, kind),
                      "push/pop pairing of the %s stack breaks; later executions capture output wrongly" % attr,
                      function=fn._qualname)
    # who may call _stop_patches / _start_patches
    for helper, owner in (('_stop_patches', 'Sandbox._stop_mocking'), ('_start_patches', 'Sandbox._start_mocking')):
        n = 0
        for m in ctx.repo.modules.values():
            for q, fn in m.all_functions:
                for c in calls(fn):
                    if isinstance(c.func, ast.Attribute) and c.func.attr == helper:
                        n += 1
                        ok = (m is mod and q == owner)
                        if not ok and m is mod and q.startswith('Sandbox.') and q.count('.') == 1:
                            # a private helper with a single caller is attributed to that caller
                            from ..astutil import root_caller
                            root = 'Sandbox.' + root_caller(mod.cls('Sandbox'), q.split('.', 1)[1], anchors=(
                                '_execute', '_execute_with_timeout', '_start_mocking', '_stop_mocking',
                                '_start_patches', '_stop_patches', '_capture_exception'))
                            if root != owner:
                                q = root
                        ctx.check(ok, 'R3', "who-may-call:%s@%s" % (helper, q), m, c,
                                  "%s is called directly from %s; only %s may call it (it releases the patches but "
                                  "not the stdout frame pushed by _start_mocking)" % (helper, q, owner),
                                  "a threaded run that times out: run() returns with _current_stdout non-empty, so "
                                  "the sandbox's stdout stack is not empty after the call",
                                  function=q)
        ctx.floor('R3', 'callers of ' + helper, n, 1)


def global_write_sweep(ctx, rule):
    """No code in pedal/sandbox assigns sys.stdout / sys.modules[...] / time.sleep / builtins.* or calls sys.settrace
    outside a tracer's __enter__/__exit__: process-wide state is touched through tracked patches only."""
    # sweep
    n = 0
    for m in ctx.repo.modules.values():
        if not m.name.startswith('pedal.sandbox'):
            continue
        for node in ast.walk(m.tree):
            bad = None
            if isinstance(node, (ast.Assign, ast.AugAssign, ast.Delete)):
                tg = node.targets if isinstance(node, (ast.Assign, ast.Delete)) else [node.target]
                for t in tg:
                    d = dotted(t)
                    if d in ('sys.stdout', 'sys.stderr', 'sys.stdin', 'time.sleep', 'sys.modules') or \
                            (d and d.startswith('builtins.')):
                        bad = d
                    if isinstance(t, ast.Subscript) and dotted(t.value) == 'sys.modules':
                        bad = 'sys.modules[...]'
            elif isinstance(node, ast.Call):
                d = call_name(node)
                if d == 'sys.settrace' or d == 'threading.settrace':
                    f = enclosing_function(node)
                    if not (f is not None and f.name in ('__enter__', '__exit__') and m.name == TRACER):
                        bad = d
                    n += 1
                if d in ('sys.modules.update', 'sys.modules.pop', 'sys.modules.clear', 'sys.modules.setdefault',
                         'setattr') and d != 'setattr':
                    bad = d
                if d == 'setattr' and node.args and dotted(node.args[0]) in ('sys', 'builtins', 'time'):
                    bad = 'setattr(%s, ...)' % dotted(node.args[0])
            if bad:
                ctx.fail(rule, 'global-write:%s@%s' % (bad, getattr(enclosing_function(node), '_qualname', m.name)),
                         m, node, "process-wide state %s is written outside a tracked patch" % bad,
                         "after the execution %s is not what it was before the call" % bad)
    ctx.ok(rule, 'sandbox-sweep', sample={'settrace_sites': n})
    ctx.floor(rule, 'settrace sites seen by the sweep', n, 4)


def r4_restorable(ctx, mod):
    ctx.rule('R4', "everything handed to _start_patches is a unittest.mock patch/patch.dict object; no other code in "
                   "pedal/sandbox assigns sys.stdout / sys.modules[...] / time.sleep / builtins.* or calls "
                   "sys.settrace outside a tracer's __enter__/__exit__")
    stm = mod.func('Sandbox._start_mocking')
    # the stdout patch installs the very buffer pushed for this execution: decided by executing _start_mocking
    # abstractly with marker objects (shared with C15.R2)
    from .c15 import start_mocking_observations
    from ..fdeval import Obj as _Obj
    for tag, ob in start_mocking_observations(ctx, Symbols(ctx.repo), mod):
        ctx.check(ob['patched_with_pushed'], 'R4', 'patched:sys.stdout=top-of-stack' + tag, mod, stm,
                  "sys.stdout is not patched with the buffer pushed for this execution",
                  "output of this execution lands in another buffer")
        # what is handed to _start_patches: objects made by unittest.mock's patch / patch.dict (whose stop() restores
        # the whole target), one each for the module table, standard output and time.sleep
        started = ob['started']
        foreign = [a for a in started if not (isinstance(a, _Obj) and a._name == 'patch')]
        ctx.check(ob['raised'] is None and not foreign, 'R4', '_start_patches-args:unittest.mock-patches' + tag, mod,
                  stm, "an object handed to _start_patches was not made by unittest.mock's patch()/patch.dict(): %r" % (
                      foreign[:2],), "its .stop() is pedal's own code and restores only what that code remembers "
                  "(modules the student imported stay in sys.modules)")
        targets = [a.attrs.get('target') for a in started if isinstance(a, _Obj)]
        for needed in ('sys.modules', 'sys.stdout', 'time.sleep'):
            ctx.check(targets.count(needed) == 1, 'R4', 'patched:' + needed + tag, mod, stm,
                      "%s is borrowed through %d tracked patch(es) instead of one" % (needed, targets.count(needed)),
                      "student code observes/changes the real %s" % needed)
        # unittest.mock's patch objects are not re-entrant: started a second time while active, the object saves the
        # mock as "the original", and the inner stop() deletes what the outer stop() needs. Every execution builds its
        # own.
        shared = [a for a in ob['started_nested'] if any(a is b for b in started)]
        ctx.check(ob['raised_nested'] is None and not shared, 'R4', 'patches-are-per-execution' + tag, mod, stm,
                  "an execution that starts while another is active hands _start_patches %s the outer execution already "
                  "started" % ('the same patch object(s) %s' % [a.attrs.get('target') for a in shared] if shared
                               else '(raises %s)' % getattr(ob['raised_nested'], 'kind', '?')),
                  "an instructor's input function that calls the student again while call('play') waits in input(): "
                  "the outer _stop_patches raises AttributeError and time.sleep stays a MagicMock for good")
    import_ok = ctx.repo.module(SANDBOX)
    patch_b = Symbols(ctx.repo).lookup(SANDBOX, 'patch')
    ctx.check(patch_b is not None and patch_b.kind == 'importfrom' and patch_b.target == 'unittest.mock',
              'R4', 'patch-is-unittest.mock', mod, stm, "`patch` is not unittest.mock.patch",
              "restoration is no longer guaranteed by unittest.mock")
    global_write_sweep(ctx, 'R4')


def _t_issubclass(c, t):
    ts = t if isinstance(t, tuple) else (t,)
    for x in ts:
        if isinstance(c, str) or isinstance(x, str):
            # pedal's tracer module binds the name BdbQuit (bdb's class, or its own stand-in): the marker 'BdbQuit'
            if isinstance(c, str) and isinstance(x, str) and (c == x or c == x + '-subclass'):
                return True
            if isinstance(c, str) and isinstance(x, type) and issubclass(Exception, x):
                return True     # bdb.BdbQuit derives Exception
            continue
        if isinstance(c, type) and isinstance(x, type) and issubclass(c, x):
            return True
    return False


def _t_isinstance(o, t):
    from ..fdeval import Obj
    if isinstance(o, Obj) and '__cls__' in o.attrs:
        return _t_issubclass(o.attrs['__cls__'], t)
    ts = t if isinstance(t, tuple) else (t,)
    if isinstance(o, (str, type)) or isinstance(o, Obj):
        return False       # a class (or a model object of no known class) is an instance of none of them
    return isinstance(o, tuple(x for x in ts if isinstance(x, type)))


def tracer_drive(ctx, sym, cls_name, seq, exc_kind=ValueError):
    """A tracer's __enter__/__exit__ executed abstractly over a sequence of E(nter), X (exit, no exception) and Y (exit,
    left by a student exception of class `exc_kind` - a builtin class, or the marker 'BdbQuit' / 'BdbQuit-subclass').
    Returns a dict: restored, inside_ok, trace, exits (the values __exit__ returned), sets."""
    tmod = ctx.repo.module(TRACER)
    ci = sym.find_class(TRACER, str(cls_name))
    enter = sym.method(ci, '__enter__')
    exit_ = sym.method(ci, '__exit__')
    efn, xfn = enter[1], exit_[1]
    sets = [c for c in calls(efn) if call_name(c) == 'sys.settrace'] or \
        [c for c in calls(efn) if (call_name(c) or '').startswith('coverage.')]
    exits = []
    # __enter__/__exit__ executed abstractly against a model of sys.gettrace/sys.settrace, entered once and
    # entered again while active (student code importing another submission file re-enters the same tracer)
    from .. import symexec
    from ..fdeval import Obj, Raised as _Raised, Inconclusive
    original = symexec.marker('the-trace-function-installed-before')
    original_reader = symexec.marker('coverage.python.get_python_source')
    cell = {'trace': original, 'reader': original_reader}
    collectors = []

    # a model of the coverage package: started Coverage objects form a stack; stop() uninstalls the object's
    # tracer and resumes the one below (or leaves no trace function); stopping twice is a no-op
    def new_coverage(*a, **k):
        cov = Obj('Coverage')

        def start():
            collectors.append(cov)
            cell['trace'] = cov

        def stop():
            if cov in collectors:
                collectors.remove(cov)
                cell['trace'] = collectors[-1] if collectors else None
        symexec.method(cov, 'start', start)
        symexec.method(cov, 'stop', stop)
        symexec.method(cov, 'save', lambda *a, **k: None)
        numbers = Obj('numbers', n_missing=0, n_statements=1, pc_covered=100.0)
        symexec.method(cov, '_analyze', lambda *a, **k: Obj('analysis', numbers=numbers, missing=set(),
                                                            statements=set()))
        return cov

    # ... and of unittest.mock.patch on coverage's source reader
    def new_patch(target=None, new=None, *a, **k):
        pt = Obj('patch', target=target)
        state = {}

        def p_start():
            state['saved'] = cell['reader']
            cell['reader'] = new

        def p_stop():
            if 'saved' in state:
                cell['reader'] = state.pop('saved')
        symexec.method(pt, 'start', p_start)
        symexec.method(pt, 'stop', p_stop)
        return pt
    me = symexec.self_obj(tmod, str(cls_name), filename='answer.py', code='x = 1')
    symexec.method(me, 'reset', lambda *a, **k: None)
    # the methods of the stdlib base class bdb.Bdb that touch the trace function (CPython's own definitions):
    # set_quit() and set_continue() without breakpoints end with sys.settrace(None)
    if sym.method(ci, 'set_quit') is None:
        symexec.method(me, 'set_quit', lambda: (me.attrs.__setitem__('quitting', True),
                                                cell.__setitem__('trace', None))[0])
    if sym.method(ci, 'set_continue') is None:
        symexec.method(me, 'set_continue', lambda: cell.__setitem__('trace', None))
    if sym.method(ci, 'set_trace') is None:
        symexec.method(me, 'set_trace', lambda *a: cell.__setitem__('trace', me))
    sup = Obj('super')
    symexec.method(sup, '__init__', lambda *a, **k: None)
    fd = symexec.new_fd(sym, tmod, calls={
        'sys.gettrace': lambda: cell['trace'],
        'sys.settrace': lambda f: cell.__setitem__('trace', f),
        'coverage.Coverage': new_coverage, 'patch': new_patch,
        'sys._getframe': lambda *a: Obj('frame', f_trace=None, __open__=True),
        'super': lambda *a: sup, 'isinstance': _t_isinstance, 'issubclass': _t_issubclass},
        extra={'BdbQuit': 'BdbQuit', 'coverage.python.get_python_source': original_reader,
               'coverage': Obj('coverage-module', __open__=True)})
    fd.resolver = (lambda inner: (lambda n: cell['reader'] if n == 'coverage.python.get_python_source'
                                  else inner(n)))(fd.resolver)
    init = sym.method(ci, '__init__')
    try:
        if init is not None:
            fd.call_function(init[1], [], bound_self=me)
        depth = 0
        inside_ok = True
        for step in seq:
            if step == 'E':
                fd.call_function(efn, [], bound_self=me)
                depth += 1
            else:
                exits.append(fd.call_function(
                    xfn, [None, None, None] if step == 'X' else
                    [exc_kind, Obj('student-exception', exc_kind=exc_kind if isinstance(exc_kind, str)
                                   else exc_kind.__name__, __cls__=exc_kind), Obj('traceback')],
                    bound_self=me))
                depth -= 1
                if depth > 0 and sets and cell['trace'] is original:
                    inside_ok = False   # the outer execution is still running: it must still be traced
        restored = cell['trace'] is original and cell['reader'] is original_reader
        if cell['trace'] is original and cell['reader'] is not original_reader:
            cell['trace'] = 'restored, but coverage.python.get_python_source is still patched'
    except _Raised as e:
        restored, inside_ok = False, True
        cell['trace'] = 'raises %s' % e.kind
    except Inconclusive as e:
        raise AnalysisError("C05 R5: tracer %s outside the decidable fragment: %s" % (cls_name, e))
    return dict(restored=restored, inside_ok=inside_ok, trace=cell['trace'], exits=exits, sets=sets)


def r5_tracers(ctx, sym):
    ctx.rule('R5', "every tracer in TRACER_STYLES that installs a trace function (sys.settrace, or a coverage.Coverage "
                   "object - modelled as coverage's collector stack, with unittest.mock's patch of its source reader) "
                   "is entered/exited abstractly in the sequences EX, EEXX, EEEXXX, EXEX, EY, EEYX: afterwards "
                   "sys.gettrace() and coverage's source reader are what they were before, and the outer execution is "
                   "still traced while only the inner one has ended; execution sites use the tracer only through "
                   "`with`")
    tmod = ctx.repo.module(TRACER)
    table = literal(tmod.top_assign('TRACER_STYLES'), resolve_consts=False)
    ctx.floor('R5', 'tracer styles', len(table), 4)
    for style, cls_name in sorted(table.items()):
        ci = sym.find_class(TRACER, str(cls_name))
        enter = sym.method(ci, '__enter__')
        exit_ = sym.method(ci, '__exit__')
        key = 'tracer[%s]=%s' % (style, cls_name)
        if enter is None or exit_ is None:
            ctx.fail('R5', key, tmod, ci.node, "tracer class has no __enter__/__exit__",
                     "`with self.trace...` fails for tracer_style=%r" % style)
            continue
        efn, xfn = enter[1], exit_[1]
        ctx.analysed_function(enter[0].module, efn)
        ctx.analysed_function(exit_[0].module, xfn)
        sets = [c for c in calls(efn) if call_name(c) == 'sys.settrace'] or \
            [c for c in calls(efn) if (call_name(c) or '').startswith('coverage.')]
        for seq_name, seq in (('single', 'EX'), ('re-entered', 'EEXX'), ('re-entered-twice', 'EEEXXX'),
                              ('sequential', 'EXEX'), ('left-by-an-exception', 'EY'),
                              ('re-entered-inner-left-by-an-exception', 'EEYX')):
            res = tracer_drive(ctx, sym, cls_name, seq)
            restored, cell = res['restored'], {'trace': res['trace']}
            ctx.check(restored, 'R5', key + ':' + seq_name, enter[0].module, xfn,
                      "after the tracer was %s (%s) sys.gettrace() is %r, not the function that was installed before" % (
                          seq_name, seq, cell['trace']),
                      "run() with tracer_style=%r on student code that imports another submission file: the sandbox's "
                      "trace function stays installed for the rest of the process" % style)
    # execution sites use the tracer only through `with`
    smod = ctx.repo.module(SANDBOX)
    n = 0
    for q, fn in smod.functions.items():
        for c in calls(fn):
            if call_name(c) in ('exec', 'eval') and q.startswith('Sandbox.'):
                n += 1
                w = c
                inside = False
                while w is not None and w is not fn:
                    if isinstance(w, ast.With) and any('self.trace' in norm(i.context_expr) for i in w.items):
                        inside = True
                    w = getattr(w, '_parent', None)
                ctx.check(inside, 'R5', 'exec-inside-with-trace@' + q, smod, c,
                          "student code is executed outside `with self.trace...`",
                          "tracing styles see nothing / the tracer is entered without a guaranteed exit")
    for q, fn in smod.functions.items():
        for c in calls(fn):
            if isinstance(c.func, ast.Attribute) and c.func.attr in ('__enter__', '__exit__') \
                    and 'trace' in norm(c.func.value):
                ctx.fail('R5', 'manual-enter-exit@' + q, smod, c,
                         "tracer entered/exited by hand instead of `with`", "an exception skips __exit__")
    ctx.floor('R5', 'exec sites', n, 2)


def r6_private_builtins(ctx, mod):
    ctx.rule('R6', "_reset_builtins gives the student namespace a fresh dict and copies into it; the interpreter's "
                   "real builtins dict (mocked._default_builtins) is never stored into student data; "
                   "_mock_builtins writes only through data[...]")
    # _reset_builtins and _mock_builtins executed abstractly: the namespace's builtins table is a dict of its own,
    # never the interpreter's real table (a marker object), and every later write lands in the student's data only
    from .. import symexec
    from ..fdeval import Obj
    sym = Symbols(ctx.repo)
    fn = mod.func('Sandbox._reset_builtins')
    ctx.analysed_function(mod, fn)
    real = {'print': symexec.marker('real print'), 'len': symexec.marker('real len')}
    snapshot = dict(real)
    mocked_obj, _ = symexec.module_stub(sym, ctx.repo.module('pedal.sandbox.mocked'), 'mocked',
                                        symexec.MOCKED_ESTABLISHED, _default_builtins=real,
                                        ORIGINAL_BUILTINS=dict(real))
    data = {'__builtins__': real, 'leftover': 1}
    fd = symexec.new_fd(sym, mod, extra={'mocked': mocked_obj})
    is_static = any(dotted(d) == 'staticmethod' for d in fn.decorator_list)
    me = symexec.self_obj(mod, 'Sandbox')
    _, raised = symexec.run(fd, fn, [data], bound_self=None if is_static else me, what='Sandbox._reset_builtins')
    table = data.get('__builtins__')
    ok = raised is None and isinstance(table, dict) and table is not real and table == snapshot and real == snapshot
    ctx.check(ok, 'R6', '_reset_builtins:fresh-dict', mod, fn,
              "after _reset_builtins data['__builtins__'] is %s" % (
                  'the interpreter\'s own builtins table' if table is real else
                  ('not a copy of the default builtins (%r)' % (sorted(table) if isinstance(table, dict) else table,))),
              "student code or _mock_builtins then mutates the interpreter's real builtins for the whole process")
    mbf = mod.func('Sandbox._mock_builtins')
    if isinstance(table, dict) and table is not real:
        overrides = {'print': False, 'len': True, 'open': symexec.marker('restricted open')}
        _, raised = symexec.run(fd, mbf, [data, overrides], bound_self=me, what='Sandbox._mock_builtins')
        ctx.check(raised is None and real == snapshot and mocked_obj.attrs['_default_builtins'] == snapshot and
                  mocked_obj.attrs['ORIGINAL_BUILTINS'] == snapshot, 'R6', '_mock_builtins:writes-through-data', mod, mbf,
                  "_mock_builtins changes the interpreter's real builtins table (or the saved originals) instead of "
                  "the student's data only", "builtins of the grader process are replaced")
    # sweep: no alias of _default_builtins stored
    n = 0
    for m in ctx.repo.modules.values():
        if not m.name.startswith('pedal.sandbox'):
            continue
        for node in ast.walk(m.tree):
            if isinstance(node, ast.Assign) and isinstance(node.value, (ast.Name, ast.Attribute)) and \
                    norm(node.value) in ('mocked._default_builtins', '_default_builtins') \
                    and m.name != 'pedal.sandbox.mocked':
                n += 1
                ctx.fail('R6', 'alias-of-real-builtins@' + getattr(enclosing_function(node), '_qualname', m.name),
                         m, node, "the real builtins dict is aliased into sandbox state",
                         "a later data['__builtins__'][name] = ... patches the interpreter itself, never restored")
    return
    mb = mod.func('Sandbox._mock_builtins')
    ctx.analysed_function(mod, mb)
    dparam = mb.args.args[1].arg
    ok = True
    for node in ast.walk(mb):
        if isinstance(node, ast.Assign):
            for t in node.targets:
                if not (isinstance(t, ast.Subscript) and (norm(t.value) == dparam or
                                                         norm(t.value) == dparam + "['__builtins__']")) \
                        and not isinstance(t, ast.Name):
                    ok = False
    ctx.check(ok, 'R6', '_mock_builtins:writes-through-data', mod, mb,
              "_mock_builtins writes somewhere other than data[...] / data['__builtins__'][...]",
              "builtins of the grader process are replaced")


def run(ctx):
    sym = Symbols(ctx.repo)
    mod = ctx.repo.module(SANDBOX)
    r1_release_on_all_exits(ctx, mod, sym)
    r1b_timeout_arm_releases(ctx, mod)
    r2_release_before_recording(ctx, mod)
    r3_release_complete_and_owned(ctx, mod, sym)
    r4_restorable(ctx, mod)
    r5_tracers(ctx, sym)
    r6_private_builtins(ctx, mod)
    ctx.assume("undesignated statements do not raise (DESIGN appendix A); _start_mocking itself is atomic")
    ctx.assume("unittest.mock restores what its patches replaced when .stop() is called")
