"""C05 - whatever the sandbox patches is restored after every execution, however it ends."""
import ast

from ..astutil import dotted, calls, call_name, body_walk, walk_local, is_self_attr, method_calls
from ..cfg import CFG, ALL_EXC, EXCEPTION_DOWN, describe, down
from ..loader import AnalysisError, norm, enclosing_function
from ..symbols import Symbols, ClassInfo
from ..tables import literal

SANDBOX = 'pedal.sandbox.sandbox'
TRACER = 'pedal.sandbox.tracer'
STUDENT_EXEC = ('exec', 'compile', 'eval')


def is_self_call(call, name):
    return isinstance(call, ast.Call) and isinstance(call.func, ast.Attribute) and call.func.attr == name \
        and isinstance(call.func.value, ast.Name) and call.func.value.id == 'self'


def student_raises(n):
    """Designated raise points of the execution functions (DESIGN appendix A)."""
    if isinstance(n, ast.withitem):
        return ALL_EXC          # tracer enter/exit bracket student execution; async exceptions land here too
    for c in walk_local(n):
        if isinstance(c, ast.Call):
            if call_name(c) in STUDENT_EXEC:
                return ALL_EXC
            if is_self_call(c, '_capture_exception'):
                return EXCEPTION_DOWN
    return ()


def build_exec_cfg(fn):
    return CFG(fn, raises=student_raises)


def acquire_functions(mod, cls='Sandbox', acquire='_start_mocking'):
    out = []
    for q, fn in mod.functions.items():
        if q.startswith(cls + '.') and q.count('.') == 1 and fn.name != acquire:
            if any(is_self_call(c, acquire) for c in calls(fn)):
                out.append(fn)
    return out


def r1_release_on_all_exits(ctx, mod):
    ctx.rule('R1', "in every function that calls _start_mocking, every CFG path from that call to the normal exit "
                   "or to the exceptional exit under any exception atom passes through _stop_mocking "
                   "(exec/compile/tracer enter+exit raise every atom; _capture_exception raises Exception atoms)")
    fns = acquire_functions(mod)
    ctx.floor('R1', 'functions acquiring the mocks', len(fns), 1)
    for fn in fns:
        ctx.analysed_function(mod, fn)
        g = build_exec_cfg(fn)
        ctx.analysed['cfgs'] += 1
        acq = g.nodes_calling(lambda c: is_self_call(c, '_start_mocking'))
        rel = g.nodes_calling(lambda c: is_self_call(c, '_stop_mocking'))
        ctx.require(len(acq) >= 1, "no _start_mocking node in %s" % fn._qualname)
        raisers = g.nodes_calling(lambda c: call_name(c) in STUDENT_EXEC)
        ctx.require(raisers, "%s acquires the mocks but has no exec/compile raise point" % fn._qualname)
        for a in acq:
            reach = g.successors_avoiding(a, rel)
            key = "%s:normal-exit" % fn._qualname
            if g.exit.id in reach:
                p = g.path(a, g.exit, avoid=rel)
                ctx.fail('R1', key, mod, a.ast,
                         "a normal-exit path leaves the mocks in place: " + g.describe_path(p),
                         "student code that finishes normally; sys.stdout/sys.modules/time.sleep stay patched",
                         function=fn._qualname)
            else:
                ctx.ok('R1', key, sample='all normal-exit paths release')
            # exceptional exit: which atoms arrive at XEXIT from nodes reachable without release
            leaked = set()
            witness = None
            for p, label in g.pred[g.xexit.id]:
                if p in reach and isinstance(label, frozenset):
                    leaked |= label
                    witness = witness or g.nodes[p]
            key = "%s:exceptional-exit" % fn._qualname
            if leaked:
                p = g.path(a, g.xexit, avoid=rel)
                ctx.fail('R1', key, mod, witness.ast if witness is not None else a.ast,
                         "exceptions {%s} raised by student execution reach the caller without _stop_mocking: %s"
                         % (describe(leaked), g.describe_path(p)),
                         "student code `raise KeyboardInterrupt` (or GeneratorExit, or any class deriving "
                         "BaseException directly): run() propagates it with sys.stdout, sys.modules and time.sleep "
                         "still patched and both sandbox stacks non-empty",
                         function=fn._qualname, construct="try: ... exec(...) ... handlers: %s" % (
                             [norm(h.type) for t in ast.walk(fn) if isinstance(t, ast.Try) for h in t.handlers]))
            else:
                ctx.ok('R1', key, sample='every exception atom passes through a release')


def r1b_timeout_arm_releases(ctx, mod):
    """The grader's `except TimeoutError` arm must stop the patches of the abandoned execution itself."""
    fn = mod.func('Sandbox._execute_with_timeout')
    ctx.analysed_function(mod, fn)
    arms = [h for t in ast.walk(fn) if isinstance(t, ast.Try) for h in t.handlers
            if h.type is not None and 'TimeoutError' in norm(h.type)]
    ctx.require(len(arms) == 1, "_execute_with_timeout has no single TimeoutError arm")
    from ..astutil import flat_self_calls
    seq = flat_self_calls(arms[0].body, mod.cls('Sandbox'),
                          stop=('_stop_mocking', '_stop_patches', '_capture_exception'))
    rel = [i for i, c in enumerate(seq) if is_self_call(c, '_stop_mocking') or is_self_call(c, '_stop_patches')]
    cap = [i for i, c in enumerate(seq) if is_self_call(c, '_capture_exception')]
    ok = bool(rel) and (not cap or rel[0] < cap[0])
    ctx.check(ok, 'R1', 'Sandbox._execute_with_timeout:timeout-arm-releases', mod, arms[0],
              "after a time-limit violation the grader's arm does not stop the patches of the abandoned execution "
              "(before recording the timeout): restoring them is left to the student thread, which may never unwind",
              "student code blocked in C or swallowing BaseException under a time limit: run(threaded=True) returns "
              "with sys.stdout, sys.modules and time.sleep still patched", function='Sandbox._execute_with_timeout')


def _stmt_of(node, handler):
    while getattr(node, '_parent', None) is not handler:
        node = node._parent
    return node


def r2_release_before_recording(ctx, mod):
    ctx.rule('R2', "in every handler, _stop_mocking dominates _capture_exception (a failure while building the "
                   "feedback leaves nothing patched)")
    n = 0
    for fn in acquire_functions(mod):
        g = build_exec_cfg(fn)
        rel = g.nodes_calling(lambda c: is_self_call(c, '_stop_mocking'))
        caps = g.nodes_calling(lambda c: is_self_call(c, '_capture_exception'))
        acq = g.nodes_calling(lambda c: is_self_call(c, '_start_mocking'))
        for cap in caps:
            n += 1
            # no path acquire -> capture avoiding release
            ok = all(cap.id not in g.successors_avoiding(a, rel) for a in acq)
            ctx.check(ok, 'R2', "%s:capture@%s" % (fn._qualname, _handler_of(cap.ast)), mod, cap.ast,
                      "_capture_exception can run while the mocks are still in place",
                      "an exception class whose feedback construction fails: the patches leak",
                      function=fn._qualname)
    ctx.floor('R2', 'capture sites after an acquire', n, 1)


def _handler_of(node):
    n = node
    while n is not None and not isinstance(n, ast.ExceptHandler):
        n = getattr(n, '_parent', None)
    return ('except ' + norm(n.type)) if n is not None and n.type is not None else 'body'


def writers_of(mod, cls, attr):
    """(function, node, kind) for every mutation of self.<attr> in methods of cls."""
    out = []
    MUT = ('append', 'extend', 'insert', 'pop', 'remove', 'clear', 'update', 'add', 'discard',
           'setdefault', 'sort', 'popitem', 'reverse')
    for q, fn in mod.functions.items():
        if not q.startswith(cls + '.'):
            continue
        for n in ast.walk(fn):
            if isinstance(n, (ast.Assign, ast.AugAssign, ast.AnnAssign, ast.Delete)):
                targets = n.targets if isinstance(n, (ast.Assign, ast.Delete)) else [n.target]
                for t in targets:
                    for tt in (t.elts if isinstance(t, (ast.Tuple, ast.List)) else [t]):
                        if is_self_attr(tt, attr):
                            out.append((fn, n, 'assign'))
                        elif isinstance(tt, ast.Subscript) and is_self_attr(tt.value, attr):
                            out.append((fn, n, 'setitem'))
            elif isinstance(n, ast.Call) and isinstance(n.func, ast.Attribute) and n.func.attr in MUT \
                    and is_self_attr(n.func.value, attr):
                out.append((fn, n, n.func.attr))
    return out


def r3_release_complete_and_owned(ctx, mod):
    ctx.rule('R3', "_stop_mocking = _stop_patches() + exactly one _current_stdout.pop(); _stop_patches pops one "
                   "tuple and stops every element; the two stacks are pushed/popped only by the paired helpers; "
                   "_stop_patches may be called only from _stop_mocking (a direct caller leaves the stdout frame)")
    sm = mod.func('Sandbox._stop_mocking')
    sp = mod.func('Sandbox._stop_patches')
    stp = mod.func('Sandbox._start_patches')
    stm = mod.func('Sandbox._start_mocking')
    for f in (sm, sp, stp, stm):
        ctx.analysed_function(mod, f)
    n_sp = [c for c in calls(sm) if is_self_call(c, '_stop_patches')]
    pops = [c for c in method_calls(sm, 'pop') if is_self_attr(c.func.value, '_current_stdout')]
    ctx.check(len(n_sp) == 1 and len(pops) == 1 and not any(isinstance(n, (ast.If, ast.Return, ast.Try))
                                                           for n in body_walk(sm)),
              'R3', '_stop_mocking:shape', mod, sm,
              "_stop_mocking does not unconditionally call _stop_patches() once and pop _current_stdout once",
              "after an execution one of the two stacks keeps a frame")
    # _stop_patches: pop one, stop all
    pops = [c for c in method_calls(sp, 'pop') if is_self_attr(c.func.value, '_current_patches')]
    loops = [n for n in body_walk(sp) if isinstance(n, ast.For)]
    ok = len(pops) == 1 and len(loops) == 1
    if ok:
        loop = loops[0]
        stops = [c for c in method_calls(loop, 'stop')]
        early = [n for n in walk_local(loop) if isinstance(n, (ast.Break, ast.Return, ast.Continue, ast.If, ast.Try))]
        ok = len(stops) == 1 and not early and isinstance(loop.target, ast.Name) \
            and norm(stops[0].func.value) == loop.target.id and not loop.orelse
        # the loop must iterate over the popped tuple
        src = [n for n in body_walk(sp) if isinstance(n, ast.Assign) and n.value in pops]
        ok = ok and bool(src) and norm(loop.iter) == norm(src[0].targets[0])
    ctx.check(ok, 'R3', '_stop_patches:stops-all', mod, sp,
              "_stop_patches does not pop exactly one patch tuple and call .stop() on every element",
              "a patch of the popped group (sys.modules / sys.stdout / time.sleep) stays active")
    # _start_patches: append + start each
    apps = [c for c in method_calls(stp, 'append') if is_self_attr(c.func.value, '_current_patches')]
    loops = [n for n in body_walk(stp) if isinstance(n, ast.For)]
    ok = len(apps) == 1 and len(loops) == 1 and len(list(method_calls(loops[0], 'start'))) == 1
    ctx.check(ok, 'R3', '_start_patches:tracks-all', mod, stp,
              "_start_patches does not record the group before starting each patch",
              "a started patch is not tracked and therefore never stopped")
    # ownership of the stacks
    allowed = {'_current_patches': {'append': {'Sandbox._start_patches'}, 'pop': {'Sandbox._stop_patches'},
                                    'assign': {'Sandbox.__init__'}},
               '_current_stdout': {'append': {'Sandbox._start_mocking'}, 'pop': {'Sandbox._stop_mocking'},
                                   'assign': {'Sandbox.__init__'}}}
    for attr, table in allowed.items():
        ws = writers_of(mod, 'Sandbox', attr)
        ctx.floor('R3', 'writers of ' + attr, len(ws), 3)
        for fn, node, kind in ws:
            key = "%s:%s@%s" % (attr, kind, fn._qualname)
            ctx.check(fn._qualname in table.get(kind, ()), 'R3', key, mod, node,
                      "self.%s is mutated (%s) outside its owner helpers" % (attr, kind),
                      "push/pop pairing of the %s stack breaks; later executions capture output wrongly" % attr,
                      function=fn._qualname)
    # who may call _stop_patches / _start_patches
    for helper, owner in (('_stop_patches', 'Sandbox._stop_mocking'), ('_start_patches', 'Sandbox._start_mocking')):
        n = 0
        for m in ctx.repo.modules.values():
            for q, fn in m.all_functions:
                for c in calls(fn):
                    if isinstance(c.func, ast.Attribute) and c.func.attr == helper:
                        n += 1
                        ok = (m is mod and q == owner)
                        if not ok and m is mod and q.startswith('Sandbox.') and q.count('.') == 1:
                            # a private helper with a single caller is attributed to that caller
                            from ..astutil import root_caller
                            root = 'Sandbox.' + root_caller(mod.cls('Sandbox'), q.split('.', 1)[1], anchors=(
                                '_execute', '_execute_with_timeout', '_start_mocking', '_stop_mocking',
                                '_start_patches', '_stop_patches', '_capture_exception'))
                            if root != owner:
                                q = root
                        ctx.check(ok, 'R3', "who-may-call:%s@%s" % (helper, q), m, c,
                                  "%s is called directly from %s; only %s may call it (it releases the patches but "
                                  "not the stdout frame pushed by _start_mocking)" % (helper, q, owner),
                                  "a threaded run that times out: run() returns with _current_stdout non-empty, so "
                                  "the sandbox's stdout stack is not empty after the call",
                                  function=q)
        ctx.floor('R3', 'callers of ' + helper, n, 1)


def r4_restorable(ctx, mod):
    ctx.rule('R4', "everything handed to _start_patches is a unittest.mock patch/patch.dict object; no other code in "
                   "pedal/sandbox assigns sys.stdout / sys.modules[...] / time.sleep / builtins.* or calls "
                   "sys.settrace outside a tracer's __enter__/__exit__")
    stm = mod.func('Sandbox._start_mocking')
    sp_calls = [c for c in calls(stm) if is_self_call(c, '_start_patches')]
    ctx.require(len(sp_calls) == 1, "_start_mocking does not call _start_patches exactly once")
    targets = []
    for a in sp_calls[0].args:
        ok = isinstance(a, ast.Call) and call_name(a) in ('patch', 'patch.dict', 'patch.object')
        tgt = a.args[0].value if ok and a.args and isinstance(a.args[0], ast.Constant) else None
        targets.append(tgt)
        ctx.check(ok, 'R4', '_start_patches-arg:%s' % (tgt or norm(a)[:30]), mod, a,
                  "argument of _start_patches is not a unittest.mock patch object", "its .stop() restores nothing")
    for needed in ('sys.modules', 'sys.stdout', 'time.sleep'):
        ctx.check(needed in targets, 'R4', 'patched:' + needed, mod, sp_calls[0],
                  "%s is no longer borrowed through a tracked patch" % needed,
                  "student code observes/changes the real %s" % needed)
    # the stdout patch installs the buffer just pushed
    for a in sp_calls[0].args:
        if isinstance(a, ast.Call) and a.args and isinstance(a.args[0], ast.Constant) and a.args[0].value == 'sys.stdout':
            ok = len(a.args) >= 2 and norm(a.args[1]) == 'self._current_stdout[-1]'
            ctx.check(ok, 'R4', 'patched:sys.stdout=top-of-stack', mod, a,
                      "sys.stdout is not patched with the buffer pushed for this execution",
                      "output of this execution lands in another buffer")
    import_ok = ctx.repo.module(SANDBOX)
    patch_b = Symbols(ctx.repo).lookup(SANDBOX, 'patch')
    ctx.check(patch_b is not None and patch_b.kind == 'importfrom' and patch_b.target == 'unittest.mock',
              'R4', 'patch-is-unittest.mock', mod, stm, "`patch` is not unittest.mock.patch",
              "restoration is no longer guaranteed by unittest.mock")
    # sweep
    n = 0
    for m in ctx.repo.modules.values():
        if not m.name.startswith('pedal.sandbox'):
            continue
        for node in ast.walk(m.tree):
            bad = None
            if isinstance(node, (ast.Assign, ast.AugAssign, ast.Delete)):
                tg = node.targets if isinstance(node, (ast.Assign, ast.Delete)) else [node.target]
                for t in tg:
                    d = dotted(t)
                    if d in ('sys.stdout', 'sys.stderr', 'sys.stdin', 'time.sleep', 'sys.modules') or \
                            (d and d.startswith('builtins.')):
                        bad = d
                    if isinstance(t, ast.Subscript) and dotted(t.value) == 'sys.modules':
                        bad = 'sys.modules[...]'
            elif isinstance(node, ast.Call):
                d = call_name(node)
                if d == 'sys.settrace' or d == 'threading.settrace':
                    f = enclosing_function(node)
                    if not (f is not None and f.name in ('__enter__', '__exit__') and m.name == TRACER):
                        bad = d
                    n += 1
                if d in ('sys.modules.update', 'sys.modules.pop', 'sys.modules.clear', 'sys.modules.setdefault',
                         'setattr') and d != 'setattr':
                    bad = d
                if d == 'setattr' and node.args and dotted(node.args[0]) in ('sys', 'builtins', 'time'):
                    bad = 'setattr(%s, ...)' % dotted(node.args[0])
            if bad:
                ctx.fail('R4', 'global-write:%s@%s' % (bad, getattr(enclosing_function(node), '_qualname', m.name)),
                         m, node, "process-wide state %s is written outside a tracked patch" % bad,
                         "after the execution %s is not what it was before the call" % bad)
    ctx.ok('R4', 'sandbox-sweep', sample={'settrace_sites': n})
    ctx.floor('R4', 'settrace sites seen by the sweep', n, 4)


def r5_tracers(ctx, sym):
    ctx.rule('R5', "every tracer in TRACER_STYLES whose __enter__ calls sys.settrace saves sys.gettrace() into an "
                   "attribute first and its __exit__ calls sys.settrace(<that attribute>) on every path; execution "
                   "sites use the tracer only through `with`")
    tmod = ctx.repo.module(TRACER)
    table = literal(tmod.top_assign('TRACER_STYLES'), resolve_consts=False)
    ctx.floor('R5', 'tracer styles', len(table), 4)
    for style, cls_name in sorted(table.items()):
        ci = sym.find_class(TRACER, str(cls_name))
        enter = sym.method(ci, '__enter__')
        exit_ = sym.method(ci, '__exit__')
        key = 'tracer[%s]=%s' % (style, cls_name)
        if enter is None or exit_ is None:
            ctx.fail('R5', key, tmod, ci.node, "tracer class has no __enter__/__exit__",
                     "`with self.trace...` fails for tracer_style=%r" % style)
            continue
        efn, xfn = enter[1], exit_[1]
        ctx.analysed_function(enter[0].module, efn)
        ctx.analysed_function(exit_[0].module, xfn)
        sets = [c for c in calls(efn) if call_name(c) == 'sys.settrace']
        if not sets:
            xs = [c for c in calls(xfn) if call_name(c) == 'sys.settrace']
            ctx.check(not xs, 'R5', key, tmod, xfn,
                      "__exit__ sets a trace function that __enter__ never saved", "trace function clobbered")
            continue
        saved = [n for n in body_walk(efn) if isinstance(n, ast.Assign) and isinstance(n.value, ast.Call)
                 and call_name(n.value) == 'sys.gettrace' and is_self_attr(n.targets[0])]
        ok = bool(saved)
        why = "__enter__ installs a trace function without saving the previous one"
        if ok:
            attr = saved[0].targets[0].attr
            # save precedes set (statement order in a straight-line body)
            order = [n for n in efn.body if n is saved[0] or any(c in sets for c in ast.walk(n)
                                                                   if isinstance(c, ast.Call))]
            ok = order and order[0] is saved[0]
            why = "__enter__ reads sys.gettrace() after replacing it"
            if ok:
                g = CFG(xfn)
                restore = g.nodes_calling(lambda c: call_name(c) == 'sys.settrace' and len(c.args) == 1
                                          and is_self_attr(c.args[0], attr))
                ok = bool(restore) and g.exit.id not in g.reachable([g.entry], restore)
                why = "__exit__ does not call sys.settrace(self.%s) on every path" % attr
        ctx.check(ok, 'R5', key, enter[0].module, xfn if 'exit' in why else efn, why,
                  "run() with tracer_style=%r: sys.gettrace() after the call differs from before" % style)
    # execution sites use the tracer only through `with`
    smod = ctx.repo.module(SANDBOX)
    n = 0
    for q, fn in smod.functions.items():
        for c in calls(fn):
            if call_name(c) in ('exec', 'eval') and q.startswith('Sandbox.'):
                n += 1
                w = c
                inside = False
                while w is not None and w is not fn:
                    if isinstance(w, ast.With) and any('self.trace' in norm(i.context_expr) for i in w.items):
                        inside = True
                    w = getattr(w, '_parent', None)
                ctx.check(inside, 'R5', 'exec-inside-with-trace@' + q, smod, c,
                          "student code is executed outside `with self.trace...`",
                          "tracing styles see nothing / the tracer is entered without a guaranteed exit")
    for q, fn in smod.functions.items():
        for c in calls(fn):
            if isinstance(c.func, ast.Attribute) and c.func.attr in ('__enter__', '__exit__') \
                    and 'trace' in norm(c.func.value):
                ctx.fail('R5', 'manual-enter-exit@' + q, smod, c,
                         "tracer entered/exited by hand instead of `with`", "an exception skips __exit__")
    ctx.floor('R5', 'exec sites', n, 2)


def r6_private_builtins(ctx, mod):
    ctx.rule('R6', "_reset_builtins gives the student namespace a fresh dict and copies into it; the interpreter's "
                   "real builtins dict (mocked._default_builtins) is never stored into student data; "
                   "_mock_builtins writes only through data[...]")
    fn = mod.func('Sandbox._reset_builtins')
    ctx.analysed_function(mod, fn)
    param = fn.args.args[0].arg if fn.args.args and fn.args.args[0].arg != 'self' else fn.args.args[-1].arg
    fresh = [n for n in body_walk(fn) if isinstance(n, ast.Assign) and isinstance(n.targets[0], ast.Subscript)
             and norm(n.targets[0].value) == param and norm(n.targets[0].slice) == "'__builtins__'"]
    ok = len(fresh) == 1 and (isinstance(fresh[0].value, ast.Dict) and not fresh[0].value.keys
                              or (isinstance(fresh[0].value, ast.Call) and call_name(fresh[0].value) in ('dict',)
                                  and (not fresh[0].value.args or
                                       'default_builtins' in norm(fresh[0].value.args[0]))))
    ctx.check(ok, 'R6', '_reset_builtins:fresh-dict', mod, fresh[0] if fresh else fn,
              "data['__builtins__'] is not a freshly created dict (or a copy)",
              "student code or _mock_builtins then mutates the interpreter's real builtins for the whole process")
    # sweep: no alias of _default_builtins stored
    n = 0
    for m in ctx.repo.modules.values():
        if not m.name.startswith('pedal.sandbox'):
            continue
        for node in ast.walk(m.tree):
            if isinstance(node, ast.Assign) and '_default_builtins' in norm(node.value) and \
                    not isinstance(node.value, (ast.Dict, ast.Subscript, ast.Call)) and m.name != 'pedal.sandbox.mocked':
                n += 1
                ctx.fail('R6', 'alias-of-real-builtins@' + getattr(enclosing_function(node), '_qualname', m.name),
                         m, node, "the real builtins dict is aliased into sandbox state",
                         "a later data['__builtins__'][name] = ... patches the interpreter itself, never restored")
            if isinstance(node, ast.Assign) and isinstance(node.value, (ast.Name, ast.Attribute)) and \
                    norm(node.value) in ('mocked._default_builtins', '_default_builtins', '__builtins__') \
                    and m.name != 'pedal.sandbox.mocked':
                pass
    mb = mod.func('Sandbox._mock_builtins')
    ctx.analysed_function(mod, mb)
    dparam = mb.args.args[1].arg
    ok = True
    for node in ast.walk(mb):
        if isinstance(node, ast.Assign):
            for t in node.targets:
                if not (isinstance(t, ast.Subscript) and (norm(t.value) == dparam or
                                                         norm(t.value) == dparam + "['__builtins__']")) \
                        and not isinstance(t, ast.Name):
                    ok = False
    ctx.check(ok, 'R6', '_mock_builtins:writes-through-data', mod, mb,
              "_mock_builtins writes somewhere other than data[...] / data['__builtins__'][...]",
              "builtins of the grader process are replaced")


def run(ctx):
    sym = Symbols(ctx.repo)
    mod = ctx.repo.module(SANDBOX)
    r1_release_on_all_exits(ctx, mod)
    r1b_timeout_arm_releases(ctx, mod)
    r2_release_before_recording(ctx, mod)
    r3_release_complete_and_owned(ctx, mod)
    r4_restorable(ctx, mod)
    r5_tracers(ctx, sym)
    r6_private_builtins(ctx, mod)
    ctx.assume("undesignated statements do not raise (DESIGN appendix A); _start_mocking itself is atomic")
    ctx.assume("unittest.mock restores what its patches replaced when .stop() is called")
