"""C16 - the result proxy is transparent for every operation that works on the real value."""
import ast
import importlib
import itertools

from ..astutil import dotted, calls, call_name, body_walk, walk_local, is_self_attr
from ..fdeval import FD, Obj, Raised, Inconclusive, UNKNOWN, NO_RETURN
from ..loader import AnalysisError, norm
from ..symbols import Symbols

RESULT = 'pedal.sandbox.result'

BINARY = ['add', 'sub', 'mul', 'matmul', 'truediv', 'floordiv', 'mod', 'divmod', 'pow', 'lshift', 'rshift',
          'and', 'xor', 'or']
AST_OP = {ast.Add: 'add', ast.Sub: 'sub', ast.Mult: 'mul', ast.MatMult: 'matmul', ast.Div: 'truediv',
          ast.FloorDiv: 'floordiv', ast.Mod: 'mod', ast.Pow: 'pow', ast.LShift: 'lshift', ast.RShift: 'rshift',
          ast.BitAnd: 'and', ast.BitXor: 'xor', ast.BitOr: 'or'}
OPERATOR_FUNCS = {'operator.add': 'add', 'operator.sub': 'sub', 'operator.mul': 'mul', 'operator.matmul': 'matmul',
                  'operator.truediv': 'truediv', 'operator.floordiv': 'floordiv', 'operator.mod': 'mod',
                  'operator.pow': 'pow', 'operator.lshift': 'lshift', 'operator.rshift': 'rshift',
                  'operator.and_': 'and', 'operator.xor': 'xor', 'operator.or_': 'or', 'pow': 'pow',
                  'divmod': 'divmod'}
COMPARISONS = ['eq', 'ne', 'lt', 'le', 'gt', 'ge']
# operator/builtin list of the property statement mapped to CPython slot names
REQUIRED = (['__%s__' % o for o in BINARY] + ['__r%s__' % o for o in BINARY] + ['__%s__' % c for c in COMPARISONS] +
            ['__bool__', '__hash__', '__len__', '__iter__', '__contains__', '__getitem__', '__str__', '__repr__',
             '__format__', '__int__', '__float__', '__complex__', '__round__', '__trunc__', '__floor__', '__ceil__',
             '__index__', '__neg__', '__pos__', '__abs__', '__invert__'])
NOTIMPL = '<NotImplemented>'


def r1_slots(ctx, cls, mod):
    ctx.rule('R1', "slot completeness: both __op__ and __rop__ for the 14 binary operators, the six rich comparisons "
                   "and the conversion/container/unary slots named by the property exist on SandboxResult")
    methods = {n.name for n in cls.body if isinstance(n, ast.FunctionDef)}
    for slot in REQUIRED:
        ex = {'__rrshift__': "256 >> call('f')  (int.__rshift__ returns NotImplemented for the proxy, and there is no "
                             "reflected slot): TypeError although 256 >> 2 works"}.get(
            slot, "applying the operation behind %s to a proxied result raises although it works on the value" % slot)
        ctx.check(slot in methods, 'R1', 'SandboxResult.' + slot, mod, cls,
                  "SandboxResult defines no %s" % slot, ex, construct='class SandboxResult: (no %s)' % slot)
    return methods


def r2_no_output(ctx, sym, cls, mod):
    ctx.rule('R2', "no method of the proxy (or module helper) writes to standard output")
    n = 0
    for fn in [x for x in ast.walk(mod.tree) if isinstance(x, ast.FunctionDef)]:
        n += 1
        for c in calls(fn):
            d = call_name(c)
            if d == 'print' or (d or '').startswith(('sys.stdout.', 'sys.stderr.')):
                ctx.fail('R2', '%s:%s' % (fn._qualname, norm(c)[:40]), mod, c,
                         "the proxy writes to standard output while forwarding an operation",
                         "call('f') * 2 prints debug lines into the grader's (or the student's captured) output")
    ctx.ok('R2', 'no-output-sweep', sample={'functions': n})


EXACT = {'__int__': 'int', '__float__': 'float', '__complex__': 'complex', '__len__': ('_original_len', 'len'),
         '__bool__': 'bool', '__hash__': 'hash', '__str__': 'str', '__repr__': 'repr', '__bytes__': 'bytes',
         '__format__': 'format'}


def r3_exact_conversions(ctx, cls, mod, sym=None):
    ctx.rule('R3', "conversions for which CPython demands an exact result type (__int__ __float__ __complex__ "
                   "__index__ __len__ __bool__ __hash__ __str__ __repr__ __bytes__ __format__), each executed "
                   "abstractly on a model value that has no dunder methods of its own: the result is what the builtin "
                   "returns for the unwrapped value (with the caller's extra arguments), never a re-wrapped proxy and "
                   "never obtained through an explicit dunder the builtin does not require the type to have")
    from .. import symexec
    sym = sym or Symbols(ctx.repo)
    for fn in cls.body:
        if not isinstance(fn, ast.FunctionDef) or fn.name not in list(EXACT) + ['__index__']:
            continue
        ctx.analysed_function(mod, fn)
        rec = symexec.Recorder()
        value = Obj('student-value')
        value.attrs['__closed__'] = True
        if fn.name == '__index__':
            # operator.index() is only ever asked of values that define __index__
            value.attrs['method:__index__'] = rec.stub('value.__index__', ret='exact:index')
        me = symexec.self_obj(mod, cls.name, closed=True, value=value, _actual_value=value)
        wrapped = []

        def rewrap(*a, **k):
            o = Obj('proxy')
            wrapped.append(o)
            return o
        symexec.method(me, '_clone_this_result', rewrap)
        builtins_ = ('int', 'float', 'complex', 'len', '_original_len', 'bool', 'hash', 'str', 'repr', 'bytes',
                     'format', 'operator.index')
        calls_ = {b: rec.stub(b, ret='exact:' + b) for b in builtins_}
        calls_['SandboxResult'] = rewrap
        fd = symexec.new_fd(sym, mod, calls=calls_)
        extra = ['>8'] if fn.name == '__format__' else []
        got, raised = symexec.run(fd, fn, extra, bound_self=me, what='SandboxResult.' + fn.name)
        want = EXACT.get(fn.name, ('operator.index', 'int', 'value.__index__'))
        want = want if isinstance(want, tuple) else (want,)
        used = [e for e in rec.events if e[0] in want and e[1][:1] == (value,) or (
            e[0] == 'value.__index__' and 'value.__index__' in want)]
        ok = raised is None and len(used) >= 1 and isinstance(got, str) and got.startswith('exact:') and \
            not wrapped and (fn.name != '__format__' or used[-1][1][1:] == ('>8',))
        if raised is not None:
            why = "raises %s (%s) on a value that supports the builtin but has no dunder of its own" % (
                raised.kind, raised.detail)
        elif wrapped or isinstance(got, Obj):
            why = "returns a re-wrapped proxy; CPython rejects a non-exact result"
        else:
            why = "returns %r after %s instead of %s(<unwrapped value>%s)" % (
                got, [e[0] for e in rec.events], want[0], ", format_spec" if fn.name == '__format__' else '')
        ex = {'__float__': "float(call('f')) raises TypeError: __float__ returned non-float (type SandboxResult)",
              '__complex__': "complex(call('f')) for an int/float result raises AttributeError: 'int' object has no "
                             "attribute '__complex__'"}.get(fn.name, "%s on a proxied result" % fn.name)
        ctx.check(ok, 'R3', 'SandboxResult.' + fn.name, mod, fn, why, ex)
        if fn.name == '__index__':
            continue
        # ... and when the builtin rejects the value, so does the proxy (with the same exception)
        def rejecting(b):
            def f(*a, **k):
                if a[:1] == (value,) and b in want:
                    raise Raised('TypeError', 'unsupported for this value')
                return 'exact:' + b     # the same builtin on some other object (its text, say) succeeds
            return f
        calls2 = {b: rejecting(b) for b in builtins_}
        calls2['SandboxResult'] = rewrap
        me2 = symexec.self_obj(mod, cls.name, closed=True, value=value, _actual_value=value)
        symexec.method(me2, '_clone_this_result', rewrap)
        got2, raised2 = symexec.run(symexec.new_fd(sym, mod, calls=calls2), fn, extra, bound_self=me2,
                                    what='SandboxResult.' + fn.name)
        ctx.check(raised2 is not None and raised2.kind == 'TypeError', 'R3', 'SandboxResult.%s:rejects-like-the-value'
                  % fn.name, mod, fn,
                  "when %s(<value>) raises TypeError the proxy %s" % (want[0], 'returns %r' % (got2,) if raised2 is None
                                                                    else 'raises %s' % raised2.kind),
                  "format(call('f'), '>10') for a list result returns text although format([1], '>10') raises "
                  "TypeError")


class Protocol:
    """Python's binary-operator protocol over behaviour tables (the trusted oracle for R4)."""

    @staticmethod
    def outcome(left_op, right_rop):
        if left_op == 'V':
            return 'V'
        if right_rop == 'V':
            return 'V'
        return 'TypeError'


def make_val(name, table, pytype='obj'):
    """A modelled run-time value: table maps dunder name -> 'V' | 'NI' (returns NotImplemented); absent = no method."""
    o = Obj(name, pytype=pytype)
    o.attrs['__closed__'] = True
    for dunder, beh in table.items():
        o.attrs['method:' + dunder] = (lambda b: (lambda *a: 'V' if b == 'V' else NOTIMPL))(beh)
    o.attrs['table'] = table
    return o


def python_binop(opname, a, b):
    """a <op> b by CPython's rules on modelled values."""
    ta = a.attrs['table'] if isinstance(a, Obj) else {}
    tb = b.attrs['table'] if isinstance(b, Obj) else {}
    if ta.get('__%s__' % opname) == 'V':
        return 'V'
    if tb.get('__r%s__' % opname) == 'V':
        return 'V'
    raise Raised('TypeError', 'unsupported operand type(s) for %s' % opname)


def new_fd(ctx, mod, printed):
    helpers = {q: f for q, f in mod.functions.items() if '.' not in q}
    fd = FD(max_steps=5000)
    fd.resolver = lambda name: {'NotImplemented': NOTIMPL, 'str': 'str', 'SandboxResult': 'SandboxResult'}[name]
    fd.functions['_unwrap_value_pair'] = mod.func('_unwrap_value_pair')
    if 'unwrap_value' in helpers:
        fd.functions['unwrap_value'] = helpers['unwrap_value']
    fd.calls['is_sandbox_result'] = lambda v: bool(isinstance(v, Obj) and v.attrs.get('is_proxy'))
    fd.calls['isinstance'] = lambda o, t: (isinstance(o, Obj) and ((t == 'str' and o.attrs.get('pytype') == 'str') or
                                                                  (t == 'SandboxResult' and bool(o.attrs.get('is_proxy')))))
    fd.calls['print'] = lambda *a, **k: printed.append(a)
    fd.calls['hasattr'] = lambda o, name: bool(isinstance(o, Obj) and ('method:' + name) in o.attrs)
    fd.calls['getattr'] = lambda o, name, default=None: (
        o.attrs['method:' + name] if isinstance(o, Obj) and ('method:' + name) in o.attrs else default)
    fd.binop_hook = lambda op, a, b: python_binop(AST_OP[type(op)], a, b)
    for fname, opname in OPERATOR_FUNCS.items():
        fd.calls[fname] = (lambda o: (lambda a, b, *rest: python_binop(o, a, b)))(opname)
    return fd


def make_proxy(val):
    p = Obj('proxy', value=val, is_proxy=True, _actual_value=val)
    p.attrs['method:_clone_this_result'] = lambda x: ('wrapped', x)
    return p


def run_method(ctx, mod, fn, self_proxy, other):
    printed = []
    fd = new_fd(ctx, mod, printed)
    try:
        r = fd.call_function(fn, [other], bound_self=self_proxy)
    except Raised as e:
        return ('raised', e.kind), printed
    except Inconclusive as e:
        raise AnalysisError("C16 R4: %s outside the decidable fragment: %s" % (fn._qualname, e))
    return r, printed


def r4_operator_semantics(ctx, cls, mod, methods, unresolved=()):
    ctx.rule('R4', "each binary dunder, executed abstractly over behaviour tables (own method returns a value / returns "
                   "NotImplemented / does not exist) x (other operand's reflected method likewise) x (other operand "
                   "plain / proxied), yields the wrapped value CPython's operator protocol yields, and fails when "
                   "CPython fails - in particular it never wraps the NotImplemented sentinel")
    beh = ['V', 'NI', None]
    for op in BINARY:
        for reflected in (False, True):
            name = '__%s%s__' % ('r' if reflected else '', op)
            if name not in methods:
                continue  # R1 reports it
            fn = mod.func('SandboxResult.' + name)
            ctx.analysed_function(mod, fn)
            if fn._qualname in unresolved:
                continue   # R5 already reports a name that does not resolve in this method
            problems = {}
            cells = 0
            for mine, theirs, other_proxied, is_str in itertools.product(beh, beh, (False, True), (False, True)):
                if is_str and not (reflected and mine is None):
                    continue
                cells += 1
                # the proxied value and the other operand
                if not reflected:
                    vt = {k: v for k, v in (('__%s__' % op, mine),) if v}
                    ot = {k: v for k, v in (('__r%s__' % op, theirs),) if v}
                    expect = Protocol.outcome(mine, theirs)
                else:
                    # python evaluates other <op> value: other.__op__(value) first, then value.__rop__(other)
                    vt = {k: v for k, v in (('__r%s__' % op, mine),) if v}
                    ot = {k: v for k, v in (('__%s__' % op, theirs),) if v}
                    expect = Protocol.outcome(theirs, mine)
                val = make_val('value', vt, pytype='str' if is_str else 'obj')
                oth = make_val('other', ot)
                other_arg = make_proxy(oth) if other_proxied else oth
                got, printed = run_method(ctx, mod, fn, make_proxy(val), other_arg)
                if isinstance(got, tuple) and got[0] == 'wrapped':
                    res = 'NotImplemented-sentinel' if got[1] == NOTIMPL else got[1]
                elif isinstance(got, tuple) and got[0] == 'raised':
                    res = 'TypeError'   # any failure counts as failing
                elif got == NOTIMPL:
                    res = 'TypeError'   # returning NotImplemented from the slot makes CPython raise TypeError
                else:
                    res = 'unwrapped:%r' % (got,)
                if res != expect:
                    kind = ('wraps-NotImplemented' if res == 'NotImplemented-sentinel' else
                            'fails-where-python-succeeds' if res == 'TypeError' else
                            'succeeds-where-python-fails' if expect == 'TypeError' else 'wrong-result')
                    problems.setdefault(kind, []).append((mine, theirs, other_proxied, res, expect))
            if not problems:
                ctx.ok('R4', 'SandboxResult.' + name, sample={'method': name, 'cells': cells})
                continue
            for kind, items in sorted(problems.items()):
                m, t, op_, res, expect = items[0]
                d = {'V': 'returns a value', 'NI': 'returns NotImplemented', None: 'does not exist'}
                ctx.fail('R4', 'SandboxResult.%s:%s' % (name, kind), mod, fn,
                         "%d of %d behaviour cells deviate from CPython's protocol; e.g. when the value's own method %s "
                         "and the other operand's method %s%s, the proxy gives %s but `%s` gives %s" % (
                             len(items), cells, d[m], d[t], ' (other operand proxied)' if op_ else '', res,
                             'value <op> other' if not reflected else 'other <op> value', expect),
                         {'wraps-NotImplemented': "call('f') %s 'a' for an int result returns a proxy around "
                                                  "NotImplemented instead of raising TypeError" % _sym(op),
                          'fails-where-python-succeeds': "a result whose type lacks %s combined with an operand that "
                                                         "implements the reflected method (e.g. 3 @ Matrix) raises "
                                                         "AttributeError through the proxy" % name,
                          }.get(kind, "operand classes with that behaviour"))


CMP_AST = {'eq': ast.Eq, 'ne': ast.NotEq, 'lt': ast.Lt, 'le': ast.LtE, 'gt': ast.Gt, 'ge': ast.GtE}


def r4c_comparisons(ctx, cls, mod, methods, rid='R4c'):
    ctx.rule(rid, "each rich comparison of the proxy applies exactly its own operator to the unwrapped pair (abstract "
                    "execution with symbolic operands, other operand plain or proxied): deriving > from <= or != from "
                    "== is wrong for partially ordered values (sets, NaN) and for values with their own __ne__")
    names = {v: k for k, v in CMP_AST.items()}
    for op in COMPARISONS:
        name = '__%s__' % op
        if name not in methods:
            continue
        fn = mod.func('SandboxResult.' + name)
        ctx.analysed_function(mod, fn)
        for other_proxied in (False, True, 'the proxy itself'):
            printed = []
            fd = new_fd(ctx, mod, printed)
            fd.compare_hook = lambda o, a, b: ('cmp', names[type(o)], a, b) if type(o) in names else NotImplemented
            val, oth = make_val('value', {}), make_val('other', {})
            me = make_proxy(val)
            if other_proxied == 'the proxy itself':
                # r == r for a result that is not equal to itself (NaN): the value's own comparison decides
                arg, oth = me, val
            else:
                arg = make_proxy(oth) if other_proxied else oth
            try:
                got = fd.call_function(fn, [arg], bound_self=me)
            except Raised as e:
                got = ('raised', e.kind)
            except Inconclusive as e:
                raise AnalysisError("C16 R4c: %s outside the decidable fragment: %s" % (fn._qualname, e))
            want = ('cmp', op, val, oth)
            ok = isinstance(got, tuple) and len(got) == 4 and got[0] == 'cmp' and got[1] == op and got[2] is val \
                and got[3] is oth
            ctx.check(ok, rid, 'SandboxResult.%s%s' % (name, ':same-proxy' if other_proxied == 'the proxy itself' else
                                                       ':proxied-other' if other_proxied else ''), mod, fn,
                      "%s does not return `value %s other` on the unwrapped operands (got %s)" % (
                          name, {'eq': '==', 'ne': '!=', 'lt': '<', 'le': '<=', 'gt': '>', 'ge': '>='}[op],
                          _show(got)),
                      "call('f') %s {3} for a result {1, 2}: the real comparison is False, the proxy answers True "
                      "(partial order); same for NaN" % {'eq': '==', 'ne': '!=', 'lt': '<', 'le': '<=', 'gt': '>',
                                                         'ge': '>='}[op])


def _show(got):
    if isinstance(got, tuple) and got and got[0] == 'cmp':
        return '%r %s %r' % (got[2], got[1], got[3])
    return repr(got)


def _sym(op):
    return {'add': '+', 'sub': '-', 'mul': '*', 'matmul': '@', 'truediv': '/', 'floordiv': '//', 'mod': '%',
            'divmod': 'divmod', 'pow': '**', 'lshift': '<<', 'rshift': '>>', 'and': '&', 'xor': '^', 'or': '|'}[op]


def r5_references(ctx, sym, cls, mod):
    ctx.rule('R5', "every module.attribute used by the proxy resolves against the real stdlib module; every global "
                   "name resolves")
    imports = {}
    for st in mod.tree.body:
        if isinstance(st, ast.Import):
            for a in st.names:
                imports[a.asname or a.name.split('.')[0]] = a.name
    n = 0
    for node in ast.walk(mod.tree):
        if isinstance(node, ast.Attribute) and isinstance(node.value, ast.Name) and node.value.id in imports:
            modname = imports[node.value.id]
            if modname.startswith('pedal'):
                continue
            n += 1
            try:
                real = importlib.import_module(modname)   # stdlib only, never pedal
            except ImportError:
                continue
            ctx.check(hasattr(real, node.attr), 'R5', '%s.%s' % (modname, node.attr), mod, node,
                      "module %s has no attribute %r" % (modname, node.attr),
                      "math.trunc(call('f')) raises AttributeError inside the proxy although it works on the value")
    from ..symbols import BUILTIN_NAMES
    unresolved = set()
    for fn in [x for x in ast.walk(mod.tree) if isinstance(x, ast.FunctionDef)]:
        local = {a.arg for a in fn.args.args + fn.args.kwonlyargs} | \
            ({fn.args.vararg.arg} if fn.args.vararg else set()) | ({fn.args.kwarg.arg} if fn.args.kwarg else set())
        for x in walk_local(fn):
            if isinstance(x, ast.Name) and isinstance(x.ctx, ast.Store):
                local.add(x.id)
        for x in body_walk(fn):
            if isinstance(x, ast.Name) and isinstance(x.ctx, ast.Load) and x.id not in local:
                n += 1
                ok = sym.lookup(mod.name, x.id) is not None or x.id in BUILTIN_NAMES
                if not ok:
                    unresolved.add(fn._qualname)
                    ctx.fail('R5', 'name:%s@%s' % (x.id, fn._qualname), mod, x, "global name %r does not resolve" % x.id,
                             "NameError when the operation is applied to a proxy")
    ctx.ok('R5', 'reference-sweep', sample={'references': n})
    ctx.floor('R5', 'references', n, 20)
    return unresolved


def r8_value_access(ctx, sym, mod):
    ctx.rule('R8', "SandboxResult.__getattribute__, executed abstractly: `value` (which every dunder of the proxy reads) "
                   "and `_actual_value` are the wrapped object itself - also when that object has an attribute named "
                   "value of its own -, __class__ is the wrapped object's class, and any other attribute is the "
                   "wrapped object's attribute, proxied again")
    from .. import symexec
    fn = mod.func('SandboxResult.__getattribute__')
    ctx.analysed_function(mod, fn)
    for has_own_value in (False, True):
        rec = symexec.Recorder()
        own = symexec.marker('the-object.value')
        other = symexec.marker('the-object.other')
        wrapped = Obj('the-object', other=other, __class__=symexec.marker('class-of-the-object'))
        if has_own_value:
            wrapped.attrs['value'] = own
        wrapped.attrs['__closed__'] = True
        me = Obj('proxy', value=wrapped, _actual_context_id=7, _actual_sandbox=symexec.marker('sandbox'),
                 __class__=symexec.marker('SandboxResult-class'))
        me.attrs['__closed__'] = True

        def raw_get(o, name):
            if isinstance(o, Obj) and name in o.attrs:
                return o.attrs[name]
            raise Raised('AttributeError', name)
        ctor = rec.stub('SandboxResult', fn=lambda *a, **k: Obj('new-proxy', args=a or (k.get('value'),)))
        ctor.ASSIGNABLE_ATTRS = None
        fd = symexec.new_fd(sym, mod, calls={
            'object.__getattribute__': raw_get, 'SandboxResult': ctor,
            'hasattr': lambda o, n: isinstance(o, Obj) and n in o.attrs,
            'getattr': lambda o, n, *d: o.attrs[n] if isinstance(o, Obj) and n in o.attrs else (d[0] if d else None)})
        tag = '[object %s an attribute `value`]' % ('with' if has_own_value else 'without')
        for name, want in (('value', wrapped), ('_actual_value', wrapped),
                           ('__class__', wrapped.attrs['__class__'])):
            got, raised = symexec.run(fd, fn, [name], bound_self=me, what='SandboxResult.__getattribute__')
            ctx.check(raised is None and got is want, 'R8', '__getattribute__(%s)%s' % (name, tag), mod, fn,
                      "proxy.%s is %r%s, expected %r" % (name, got, '' if raised is None else ' (raises %s)' %
                                                         raised.kind, want),
                      "student code returning an object with a field called value (a Card, a linked-list node): "
                      "str(), ==, len(), + on the proxy act on that field instead of on the object")
        got, raised = symexec.run(fd, fn, ['other'], bound_self=me, what='SandboxResult.__getattribute__')
        ok = raised is None and isinstance(got, Obj) and got._name == 'new-proxy' and got.attrs['args'] and \
            got.attrs['args'][0] is other
        ctx.check(ok, 'R8', '__getattribute__(other)%s' % tag, mod, fn,
                  "an ordinary attribute of the wrapped object is not returned as a new proxy around that attribute "
                  "(got %r)" % (got,), "call('make').field")


def r6_len(ctx, mod):
    ctx.rule('R6', "the module-level replacement len() calls the saved original on its non-proxy branch (a self-call "
                   "with the unchanged argument is definite infinite recursion)")
    fn = mod.func('len')
    ctx.analysed_function(mod, fn)
    param = fn.args.args[0].arg
    saved = [st for st in mod.tree.body if isinstance(st, ast.Assign) and isinstance(st.value, ast.Name)
             and st.value.id == 'len' and st.lineno < fn.lineno]
    ctx.check(bool(saved), 'R6', 'len:original-saved', mod, fn, "the builtin len is not saved before being shadowed",
              "the replacement cannot reach the real len")
    saved_name = saved[0].targets[0].id if saved else '_original_len'
    for c in calls(fn):
        if isinstance(c.func, ast.Name) and c.func.id == 'len' and len(c.args) == 1 and norm(c.args[0]) == param:
            ctx.fail('R6', 'len:self-recursion', mod, c,
                     "the replacement len() calls itself with the same argument on the non-proxy branch",
                     "pedal.sandbox.result.len([1, 2, 3]) raises RecursionError")
    rets = [n for n in body_walk(fn) if isinstance(n, ast.Return)]
    plain = [r for r in rets if isinstance(r.value, ast.Call) and call_name(r.value) == saved_name
             and norm(r.value.args[0]) == param]
    ctx.check(bool(plain), 'R6', 'len:plain-branch', mod, fn,
              "no branch returns %s(%s) for a plain value" % (saved_name, param),
              "len() of an ordinary list through the replacement")


def r7_operators_for_containers(ctx, cls, mod):
    ctx.rule('R7', "__contains__ and __iter__ go through `in` / iter() on the value, not through value.__contains__ / "
                   "value.__iter__ (absent on objects that are only iterable or only indexable)")
    for name, good, bad in (('__contains__', ('item in self.value', 'operator.contains(self.value, item)'),
                             '__contains__'),
                            ('__iter__', ('iter(self.value)',), '__iter__')):
        fn = [n for n in cls.body if isinstance(n, ast.FunctionDef) and n.name == name]
        if not fn:
            continue
        fn = fn[0]
        ctx.analysed_function(mod, fn)
        rets = [n for n in body_walk(fn) if isinstance(n, ast.Return)]
        src = norm(rets[0].value) if rets else ''
        explicit = any(isinstance(c.func, ast.Attribute) and c.func.attr == bad and 'value' in norm(c.func.value)
                       for c in calls(fn))
        ctx.check(not explicit, 'R7', 'SandboxResult.' + name, mod, fn,
                  "%s calls value.%s() explicitly (%s)" % (name, bad, src),
                  "x in call('f') for a result that is iterable but defines no __contains__ (a generator, or a class "
                  "with only __iter__/__getitem__) raises AttributeError although `in` works on the value")


def r7b_membership(ctx, cls, mod):
    """__contains__ executed abstractly: the answer - True, False, or the TypeError the value raises for an item it
    cannot hold - is the value's own."""
    fn = [n for n in cls.body if isinstance(n, ast.FunctionDef) and n.name == '__contains__']
    if not fn:
        return
    fn = fn[0]
    for behaviour in (True, False, 'TypeError'):
        for item_proxied in (False, True):
            printed = []
            fd = new_fd(ctx, mod, printed)
            val, item = make_val('value', {}), make_val('item', {})
            seen = []

            def hook(o, a, b):
                if isinstance(o, (ast.In, ast.NotIn)):
                    seen.append((a, b))
                    if behaviour == 'TypeError':
                        raise Raised('TypeError', "unhashable type: 'list'")
                    return behaviour if isinstance(o, ast.In) else not behaviour
                return NotImplemented
            fd.compare_hook = hook
            me = make_proxy(val)
            try:
                got = fd.call_function(fn, [make_proxy(item) if item_proxied else item], bound_self=me)
            except Raised as e:
                got = e.kind
            except Inconclusive as e:
                raise AnalysisError("C16 R7: __contains__ outside the decidable fragment: %s" % e)
            # (a proxied item is asked about as the value it stands for: str and bytes containers accept nothing else -
            #  `P('a') in P('abc')` - and for the others the answer is the same)
            ok = got == behaviour and len(seen) == 1 and seen[0][1] is val and seen[0][0] is item
            ctx.check(ok, 'R7', 'SandboxResult.__contains__[%s%s]' % (behaviour, ',proxied item' if item_proxied else ''),
                      mod, fn, "`item in value` %s; `item in proxy` gives %r%s" % (
                          'raises TypeError' if behaviour == 'TypeError' else 'is %r' % behaviour, got,
                          '' if not (seen and item_proxied and seen[0][0] is not item) else
                          ' - and the value is asked about the proxy object of the item, not about the item'),
                      "[1, 2] in call('seen_points') for a set result returns False; on the real value it raises "
                      "TypeError (unhashable type)" if not item_proxied else
                      "evaluate('c') in evaluate('s') with c = 'a', s = 'abc' raises TypeError: 'in <string>' requires "
                      "string as left operand, not SandboxResult; on the real values it is True")


ROUNDING = {'__floor__': 'math.floor', '__ceil__': 'math.ceil', '__trunc__': 'math.trunc', '__round__': 'round'}


def r3b_rounding(ctx, sym, cls, mod):
    """math.floor/ceil/trunc and round() ask the type for its dunder but fall back to __float__ (floor, ceil, trunc)
    when it has none: the proxy's own dunder, executed on a value without these dunders, must go through the builtin
    (the result may be re-wrapped) instead of calling the value's dunder directly."""
    from .. import symexec
    for fn in cls.body:
        if not isinstance(fn, ast.FunctionDef) or fn.name not in ROUNDING:
            continue
        ctx.analysed_function(mod, fn)
        rec = symexec.Recorder()
        value = Obj('student-value')
        value.attrs['__closed__'] = True
        me = symexec.self_obj(mod, cls.name, closed=True, value=value, _actual_value=value)
        symexec.method(me, '_clone_this_result', lambda v, *a, **k: Obj('proxy', wrapped=v))
        want = ROUNDING[fn.name]
        calls_ = {b: rec.stub(b, ret='result-of:' + b) for b in ROUNDING.values()}
        calls_['SandboxResult'] = lambda v, *a, **k: Obj('proxy', wrapped=v)
        fd = symexec.new_fd(sym, mod, calls=calls_)
        got, raised = symexec.run(fd, fn, [], bound_self=me, what='SandboxResult.' + fn.name)
        inner = got.attrs.get('wrapped') if isinstance(got, Obj) else got
        used = [e for e in rec.named(want) if e[1][:1] == (value,)]
        if fn.name == '__round__' and raised is not None and raised.kind == 'AttributeError':
            # round() itself requires __round__: asking the value for it directly is what the builtin does
            ctx.ok('R3', 'SandboxResult.__round__:through-the-builtin', nontrivial=False)
            continue
        ctx.check(raised is None and len(used) == 1 and inner == 'result-of:' + want, 'R3',
                  'SandboxResult.%s:through-the-builtin' % fn.name, mod, fn,
                  "%s on a proxied value that has no %s of its own %s; %s(<value>) works for it (through __float__)" % (
                      fn.name, fn.name, 'raises %s' % raised.kind if raised is not None else 'returns %r' % (inner,),
                      want),
                  "math.floor(call('measure')) for a result object that defines only __float__ raises AttributeError "
                  "although math.floor works on the object itself")


INPLACE = ['__iadd__', '__isub__', '__imul__', '__imatmul__', '__itruediv__', '__ifloordiv__', '__imod__', '__ipow__',
           '__ilshift__', '__irshift__', '__iand__', '__ixor__', '__ior__']


def r9_inplace(ctx, sym, cls, mod):
    ctx.rule('R9', "augmented assignment: Python falls back to the binary dunder (a new proxy) when a class has no "
                   "in-place dunder; any __i<op>__ the proxy does define is executed abstractly on an immutable value "
                   "(the operator returns a new object) and must not change what the proxy wraps - other names bound "
                   "to the same proxy (and sandbox.result) would change with it, unlike the real immutable value")
    from .. import symexec
    defined = [fn for fn in cls.body if isinstance(fn, ast.FunctionDef) and fn.name in INPLACE]
    for fn in defined:
        ctx.analysed_function(mod, fn)
        value, other, fresh = Obj('immutable-value'), Obj('other-operand'), Obj('new-object-from-the-operator')
        me = symexec.self_obj(mod, cls.name, value=value, _actual_value=value)
        me.attrs['__open__'] = True
        symexec.method(me, '_clone_this_result', lambda v, *a, **k: Obj('proxy', value=v))
        calls_ = {'operator.' + n.strip('_'): (lambda *a, **k: fresh) for n in INPLACE}
        calls_.update({'operator.' + n.strip('_')[1:]: (lambda *a, **k: fresh) for n in INPLACE})
        calls_['_unwrap_value_pair'] = lambda a, b: (value, other)
        calls_['SandboxResult'] = lambda v, *a, **k: Obj('proxy', value=v)
        def op_value(*a, **k):
            return fresh
        op_value._fd_callable = True
        extra = {k: op_value for k in calls_ if k.startswith('operator.')}
        fd = symexec.new_fd(sym, mod, calls=calls_, extra=extra)
        got, raised = symexec.run(fd, fn, [other], bound_self=me, what='SandboxResult.' + fn.name)
        ctx.check(raised is None and me.attrs.get('value') is value, 'R9', 'SandboxResult.%s:keeps-identity' % fn.name,
                  mod, fn, "%s on a proxy of an immutable value %s" % (
                      fn.name, 'raises %s' % raised.kind if raised is not None else
                      'rebinds the value the proxy wraps: every other name bound to that proxy now reads the new value'),
                  "first = call('score', 1); total = first; total += call('score', 2): afterwards `first` reads 30 "
                  "although the student's function returned 10")
    ctx.ok('R9', 'in-place dunders examined', sample={'defined': [f.name for f in defined]}, nontrivial=False)


def run(ctx):
    sym = Symbols(ctx.repo)
    mod = ctx.repo.module(RESULT)
    cls = mod.cls('SandboxResult')
    methods = r1_slots(ctx, cls, mod)
    r2_no_output(ctx, sym, cls, mod)
    r3_exact_conversions(ctx, cls, mod)
    r3b_rounding(ctx, sym, cls, mod)
    unresolved = r5_references(ctx, sym, cls, mod)
    r4_operator_semantics(ctx, cls, mod, methods, unresolved)
    r4c_comparisons(ctx, cls, mod, methods)
    r6_len(ctx, mod)
    r8_value_access(ctx, sym, mod)
    r7_operators_for_containers(ctx, cls, mod)
    r7b_membership(ctx, cls, mod)
    # R10: what the proxy wraps is the very object the student code produced (shared with C06.R3)
    from .c06 import r3_result, r3b_result_through_entry_points, SANDBOX as _SB
    r3_result(ctx, sym, ctx.repo.module(_SB), rule='R10')
    r3b_result_through_entry_points(ctx, sym, ctx.repo.module(_SB), rule='R10')

    r9_inplace(ctx, sym, cls, mod)
    ctx.assume("value classes whose __op__ and reflected __rop__ disagree with each other are not modelled")
    ctx.assume("CPython's binary operator protocol (own method, then reflected method, then TypeError) is the oracle")
