"""C12 - verify() reports a syntax error exactly when Python's parser rejects the source."""
import ast

from ..astutil import dotted, calls, call_name, body_walk, walk_local, kw
from ..callgraph import resolve_call, bind_args, Callee
from ..cfg import CFG, ALL_EXC, EXCEPTION_DOWN, describe, down
from ..flow import OptionalFlow
from ..loader import AnalysisError, norm, ancestors
from ..symbols import Symbols, ClassInfo

SOURCE = 'pedal.source.source'
SFEED = 'pedal.source.feedbacks'
UEXC = 'pedal.utilities.exceptions'

# documented failure modes of ast.parse(str): SyntaxError (incl. IndentationError/TabError), ValueError (null bytes
# before 3.12, UnicodeEncodeError for lone surrogates), RecursionError / MemoryError (parser and AST-builder limits)
PARSE_ATOMS = down(SyntaxError) | down(ValueError) | frozenset([RecursionError, MemoryError])
GROUPS = [('IndentationError', down(IndentationError)),
          ('SyntaxError', down(SyntaxError) - down(IndentationError)),
          ('ValueError', down(ValueError)),
          ('RecursionError', frozenset([RecursionError])),
          ('MemoryError', frozenset([MemoryError]))]
WITNESS = {'ValueError': "verify() on \"x = '\\ud800'\" raises UnicodeEncodeError (a ValueError) out of verify()",
           'RecursionError': "verify() on '+'.join(['1'] * 100000) raises RecursionError out of verify()",
           'MemoryError': "verify() on '-' * 20000 + '1' raises MemoryError ('Parser stack overflowed') out of verify()",
           'SyntaxError': "any ill-formed program", 'IndentationError': "any badly indented program"}
OPT_ATTRS = ('lineno', 'offset', 'end_lineno', 'end_offset')


def parse_raises(n):
    if isinstance(n, ast.withitem):
        return ()
    for c in walk_local(n):
        if isinstance(c, ast.Call) and call_name(c) == 'ast.parse' and c.args and not isinstance(c.args[0], ast.Constant):
            return PARSE_ATOMS
    return ()


def r1_handler_coverage(ctx, sym, mod, fn, g):
    ctx.rule('R1', "the ast.parse(code) call in verify() is a raise point for every documented failure mode "
                   "{IndentationError, other SyntaxError, ValueError, RecursionError, MemoryError}; none may reach the "
                   "exceptional exit of verify() (CFG with exception edges)")
    sites = g.nodes_calling(lambda c: call_name(c) == 'ast.parse' and c.args and not isinstance(c.args[0], ast.Constant))
    ctx.require(len(sites) == 1, "verify() no longer has exactly one ast.parse(code) call")
    escaped = frozenset()
    for p, label in g.pred[g.xexit.id]:
        if isinstance(label, frozenset):
            escaped |= label
    for name, atoms in GROUPS:
        ctx.check(not (atoms & escaped), 'R1', 'verify:escapes:' + name, mod, sites[0].ast,
                  "%s raised by ast.parse is not handled: it leaves verify() as a raw exception" % name,
                  WITNESS[name], function='verify',
                  construct='try: ast.parse(code, filename) / handlers: %s' % [
                      norm(h.type) for t in ast.walk(fn) if isinstance(t, ast.Try) for h in t.handlers])
    return sites[0]


def r3_iff(ctx, sym, mod, fn, g, site):
    ctx.rule('R3', "syntax_error / indentation_error are constructed only inside the matching handlers, once on every "
                   "path through the handler; the else-arm (parser accepted) constructs no feedback; success is False "
                   "in each handler and True only in the else-arm; the feedback receives the caught exception's own "
                   "lineno/offset")
    tries = [t for t in ast.walk(fn) if isinstance(t, ast.Try) and any(
        call_name(c) == 'ast.parse' for c in calls(ast.Module(body=t.body, type_ignores=[])))]
    ctx.require(len(tries) <= 1, "verify() has several try statements around ast.parse")
    if not tries:
        return   # R1 reports the unguarded parse
    t = tries[0]
    feedback_ctor = {'syntax_error', 'indentation_error'}
    for c in calls(fn):
        if call_name(c) in feedback_ctor:
            h = [a for a in ancestors(c) if isinstance(a, ast.ExceptHandler)]
            ok = bool(h) and h[0] in t.handlers
            ctx.check(ok, 'R3', 'verify:%s-outside-handler' % call_name(c), mod, c,
                      "%s is constructed outside the handlers of the parse" % call_name(c),
                      "a program CPython accepts gets a syntax-category feedback")
    import builtins
    seen = frozenset()
    for h in t.handlers:
        atoms = g._handler_atoms(h.type) - seen
        seen |= atoms
        if not (atoms & down(SyntaxError)):
            continue
        name = norm(h.type)
        want = 'indentation_error' if atoms <= down(IndentationError) else 'syntax_error'
        hn = g.stmt_nodes[id(h)][0]
        ctors = [x for x in g.nodes_calling(lambda c: call_name(c) in feedback_ctor)
                 if any(a is h for a in ancestors(x.ast))]
        ok = len(ctors) >= 1 and g.must_pass(hn, g.exit, ctors) and \
            not any(b.id in g.successors_avoiding(a, []) for a in ctors for b in ctors)
        ctx.check(ok, 'R3', 'verify:except %s:constructs-once' % name, mod, h,
                  "the handler does not construct its feedback exactly once on every path",
                  "a program CPython rejects gets no (or two) syntax feedback")
        for x in ctors:
            c = [c for c in g.own_calls(x) if call_name(c) in feedback_ctor][0]
            ctx.check(call_name(c) == want, 'R3', 'verify:except %s:class' % name, mod, c,
                      "handler for %s constructs %s, expected %s" % (name, call_name(c), want),
                      "the wrong kind of syntax feedback")
            e = h.name
            ok = e is not None and len(c.args) >= 5 and norm(c.args[0]) == e + '.lineno' and \
                norm(c.args[3]) == e + '.offset' and norm(c.args[4]) == e and norm(c.args[2]) == 'code'
            ctx.check(ok, 'R3', 'verify:except %s:args' % name, mod, c,
                      "the feedback is not given the caught exception's own lineno/offset and the parsed text",
                      "the reported line is not the one CPython reports")
            ctx.check(norm(kw(c, 'report')) == 'report', 'R3', 'verify:except %s:report' % name, mod, c,
                      "feedback not attached to the given report", "feedback lands in another report")
        sets = [n for n in ast.walk(h) if isinstance(n, ast.Assign) and norm(n.targets[0]).endswith("['success']")]
        ctx.check(len(sets) >= 1 and all(isinstance(s.value, ast.Constant) and s.value.value is False for s in sets),
                  'R3', 'verify:except %s:success-false' % name, mod, h, "success is not set False in the handler",
                  "a rejected program is reported as parsed")
    # else arm
    else_calls = [c for st in t.orelse for c in calls(st)]
    ctx.check(not any(call_name(c) in feedback_ctor | {'blank_source'} for c in else_calls), 'R3',
              'verify:else:no-feedback', mod, t, "the else-arm constructs a feedback",
              "an accepted program gets syntax feedback")
    trues = [n for n in ast.walk(fn) if isinstance(n, ast.Assign) and norm(n.targets[0]).endswith("['success']")
             and isinstance(n.value, ast.Constant) and n.value.value is True]
    ctx.check(len(trues) >= 1 and all(any(n in ast.walk(st) for st in t.orelse) for n in trues), 'R3',
              'verify:success-true-only-in-else', mod, t, "success is set True outside the else-arm of the parse",
              "a rejected program is reported as parsed")


def r4_stored_tree(ctx, sym, mod, fn, g, site):
    ctx.rule('R4', "the stored tree is the value of ast.parse applied to the unmodified `code` (code is only "
                   "defaulted from report.submission.main_code, never transformed)")
    c = [c for c in g.own_calls(site) if call_name(c) == 'ast.parse'][0]
    ctx.check(isinstance(c.args[0], ast.Name) and c.args[0].id == 'code', 'R4', 'verify:parses-code', mod, c,
              "ast.parse is applied to %s, not to the submitted text" % norm(c.args[0]),
              "text with leading/trailing whitespace or other differences parses differently from CPython")
    assigns = [n for n in body_walk(fn) if isinstance(n, ast.Assign) and any(norm(t) == 'code' for t in n.targets)]
    ok = all(norm(n.value) == 'report.submission.main_code' for n in assigns)
    ctx.check(ok, 'R4', 'verify:code-unmodified', mod, assigns[0] if assigns else fn,
              "`code` is transformed before parsing (%s)" % [norm(n.value) for n in assigns],
              "the stored tree is not CPython's tree of the submission")
    # the stored ast is the parse result
    tgt = None
    st = site.ast
    if isinstance(st, ast.Assign):
        tgt = norm(st.targets[0])
    stores = [n for n in body_walk(fn) if isinstance(n, ast.Assign) and norm(n.targets[0]).endswith("['ast']")]
    ok = False
    for s in stores:
        if any(a in getattr(s, '_parent', None).__dict__.get('body', []) for a in [s]):
            pass
    in_try_body = [s for s in stores if not any(isinstance(a, ast.ExceptHandler) for a in ancestors(s))]
    ok = len(in_try_body) == 1 and (norm(in_try_body[0].value) == tgt or in_try_body[0] is st)
    ctx.check(ok, 'R4', 'verify:stores-parse-result', mod, in_try_body[0] if in_try_body else fn,
              "report['ast'] on the success path is not the value returned by ast.parse(code)",
              "later tools analyse a different tree")


def r4b_filename_with_code(ctx, sym, mod, fn, g, site):
    code_defaults = g.nodes_where(lambda n: isinstance(n.ast, ast.Assign) and n.kind == 'stmt'
                                  and norm(n.ast.targets[0]) == 'code' and 'main_code' in norm(n.ast.value))
    file_defaults = g.nodes_where(lambda n: isinstance(n.ast, ast.Assign) and n.kind == 'stmt'
                                  and norm(n.ast.targets[0]) == 'filename' and 'main_file' in norm(n.ast.value))
    ok = bool(code_defaults) and bool(file_defaults) and all(
        site.id not in g.successors_avoiding(c, file_defaults) for c in code_defaults)
    ctx.check(ok, 'R6', 'verify:filename-defaulted-with-code', mod, code_defaults[0].ast if code_defaults else fn,
              "when the code is defaulted from the submission there is a path to ast.parse on which the filename is "
              "not the submission's main file (the parameter default 'answer.py' is kept), so line offsets - which are "
              "keyed by the real filename - are not found",
              "a main file called student.py, sections active, syntax error in section 2: the reported line is "
              "section-relative")


def r7_line_indexing(ctx, sym):
    ctx.rule('R7', "no unguarded indexing of a list of source lines by the line CPython reports (CPython counts lone "
                   "CR and form feed differently from str.split('\\n')): a subscript by `line` in syntax_error.__init__ "
                   "needs a length guard or a try")
    fmod = ctx.repo.module(SFEED)
    init = fmod.func('syntax_error.__init__')
    n = 0
    for sub in ast.walk(init):
        if isinstance(sub, ast.Subscript) and isinstance(sub.ctx, ast.Load) and \
                any(isinstance(x, ast.Name) and x.id == 'line' for x in ast.walk(sub.slice)):
            n += 1
            guarded = False
            child = sub
            for a in ancestors(sub):
                if isinstance(a, ast.If) and 'len(' in norm(a.test) and 'line' in norm(a.test):
                    guarded = True
                if isinstance(a, ast.Try) and child in a.body:
                    guarded = True
                if isinstance(a, ast.IfExp) and 'len(' in norm(a.test):
                    guarded = True
                child = a
            ctx.check(guarded, 'R7', 'syntax_error.__init__:%s' % norm(sub), fmod, sub,
                      "`%s` indexes the split source by CPython's line number without a bounds check" % norm(sub),
                      "verify() on 'a = 1\\rb = (\\r' (lone CR line endings): CPython reports line 3, the text has one "
                      "LF-separated line, IndexError leaves verify()")
    ctx.ok('R7', 'line-indexing-sweep', sample={'subscripts_by_line': n}, nontrivial=False)


def r5_blank(ctx, sym, mod, fn, g):
    ctx.rule('R5', "blank_source is constructed exactly under `code.strip() == ''`, outside any handler")
    bs = [c for c in calls(fn) if call_name(c) == 'blank_source']
    ok = len(bs) == 1
    if ok:
        guard = [a for a in ancestors(bs[0]) if isinstance(a, ast.If)]
        ok = bool(guard) and norm(guard[0].test) in ("code.strip() == ''", "not code.strip()", "code.strip() == \"\"") \
            and not any(isinstance(a, ast.ExceptHandler) for a in ancestors(bs[0]))
    ctx.check(ok, 'R5', 'verify:blank', mod, bs[0] if bs else fn,
              "blank_source is not reported exactly for whitespace-only text",
              "an empty submission is not reported as blank (or a non-empty one is)")


def r6_r2_line(ctx, sym):
    ctx.rule('R2', "Optional[int] flow: lineno/offset/end_lineno/end_offset of a caught SyntaxError may be None; "
                   "followed from verify() into syntax_error.__init__ and ExpandedTraceback.build_traceback (and "
                   "FakeFrame / _fix_frame_line), no arithmetic or ordering comparison uses one without a None "
                   "test or default")
    ctx.rule('R6', "the reported line is CPython's line plus submission.line_offsets[filename]")
    fmod = ctx.repo.module(SFEED)
    init = fmod.func('syntax_error.__init__')
    ctx.analysed_function(fmod, init)
    params = [a.arg for a in init.args.args]
    ctx.require(params[:5] == ['self', 'line', 'filename', 'code', 'col_offset'], "syntax_error.__init__ signature")
    flow = OptionalFlow(init, seeds={'line', 'col_offset'})
    n = 0
    for node, text, desc in flow.uses:
        n += 1
        ctx.fail('R2', 'syntax_error.__init__:%s' % desc, fmod, node,
                 "%s uses `%s`, which is None when CPython reports no position" % (desc, text),
                 "verify() on the text 'x\\0' (CPython: 'source code string cannot contain null bytes', lineno None) "
                 "raises TypeError instead of attaching a syntax error")
    if not flow.uses:
        ctx.ok('R2', 'syntax_error.__init__:optional-uses', sample='line/col_offset guarded before arithmetic')
    # R6: lineno field and location
    fields = [n for n in ast.walk(init) if isinstance(n, ast.Dict)]
    lineno_expr = None
    for d in fields:
        for k, v in zip(d.keys, d.values):
            if isinstance(k, ast.Constant) and k.value == 'lineno':
                lineno_expr = v
    defs = {norm(n.targets[0]): n.value for n in body_walk(init) if isinstance(n, ast.Assign)}
    ok = lineno_expr is not None and isinstance(lineno_expr, ast.BinOp) and isinstance(lineno_expr.op, ast.Add) and \
        {norm(lineno_expr.left), norm(lineno_expr.right)} == {'line', 'line_offset'} and \
        norm(defs.get('line_offset')) == 'line_offsets.get(filename, 0)'
    ctx.check(ok, 'R6', 'syntax_error:lineno=line+offset', fmod, lineno_expr if lineno_expr is not None else init,
              "fields['lineno'] is not `line + line_offsets.get(filename, 0)`",
              "a syntax error inside section 2 is reported with the section-relative line")
    loc = [c for c in calls(init) if call_name(c) == 'Location']
    ok = len(loc) == 1 and norm(kw(loc[0], 'line')) in ('line + line_offset', 'line_offset + line')
    ctx.check(ok, 'R6', 'syntax_error:location', fmod, loc[0] if loc else init,
              "the feedback location is not the whole-file line", "location points at the wrong line")
    lo = defs.get('line_offsets')
    ctx.check(any(isinstance(n, ast.Assign) and norm(n.targets[0]) == 'line_offsets'
                  and norm(n.value) == 'report.submission.line_offsets' for n in ast.walk(init)),
              'R6', 'syntax_error:offset-source', fmod, init, "line offsets are not read from the submission",
              "section offsets ignored")
    # ExpandedTraceback
    umod = ctx.repo.module(UEXC)
    bt = umod.func('ExpandedTraceback.build_traceback')
    ctx.analysed_function(umod, bt)

    def src(e):
        return isinstance(e, ast.Attribute) and e.attr in OPT_ATTRS and norm(e.value) == 'self.exception'
    flow = OptionalFlow(bt, source=src)
    for node, text, desc in flow.uses:
        ctx.fail('R2', 'build_traceback:%s' % desc, umod, node,
                 "%s uses `%s`, which is None when CPython reports no position" % (desc, text),
                 "verify() on the text 'x\\0' raises TypeError while building the traceback")
    if not flow.uses:
        ctx.ok('R2', 'build_traceback:optional-uses', sample='offset/lineno defaulted before arithmetic')
    # values handed to FakeFrame whose lineno is shifted by _fix_frame_line
    ff = umod.func('FakeFrame.__init__')
    fix = umod.func('ExpandedTraceback._fix_frame_line')
    ctx.analysed_function(umod, fix)
    shifted = {n.target.attr for n in ast.walk(fix) if isinstance(n, ast.AugAssign)
               and isinstance(n.target, ast.Attribute) and norm(n.target.value) == 'frame'}
    shifted |= {x.attr for n in ast.walk(fix) if isinstance(n, ast.BinOp) for x in (n.left, n.right)
                if isinstance(x, ast.Attribute) and norm(x.value) == 'frame'}
    ffparams = [a.arg for a in ff.args.args][1:]
    stored = {}
    for n in body_walk(ff):
        if isinstance(n, ast.Assign) and isinstance(n.value, ast.Name) and isinstance(n.targets[0], ast.Attribute):
            stored[n.value.id] = n.targets[0].attr
    for call, idx, text in flow.passes:
        if call_name(call) == 'FakeFrame' and isinstance(idx, int) and idx < len(ffparams):
            attr = stored.get(ffparams[idx])
            if attr in shifted:
                ctx.fail('R2', 'build_traceback:FakeFrame(%s=%s)' % (ffparams[idx], text), umod, call,
                         "`%s` (may be None) becomes frame.%s, on which _fix_frame_line does arithmetic" % (text, attr),
                         "verify() on the text 'x\\0' raises TypeError while shifting the fake frame's line")
    ctx.ok('R2', 'build_traceback:FakeFrame-args', sample={'shifted_attrs': sorted(shifted)}, nontrivial=False)
    ctx.floor('R2', 'attributes shifted by _fix_frame_line', len(shifted), 1)


def run(ctx):
    sym = Symbols(ctx.repo)
    mod = ctx.repo.module(SOURCE)
    fn = mod.func('verify')
    ctx.analysed_function(mod, fn)
    g = CFG(fn, raises=parse_raises)
    site = r1_handler_coverage(ctx, sym, mod, fn, g)
    r3_iff(ctx, sym, mod, fn, g, site)
    r4_stored_tree(ctx, sym, mod, fn, g, site)
    r5_blank(ctx, sym, mod, fn, g)
    r6_r2_line(ctx, sym)
    r4b_filename_with_code(ctx, sym, mod, fn, g, site)
    r7_line_indexing(ctx, sym)
    ctx.assume("ast.parse(str) fails only with SyntaxError, ValueError, RecursionError or MemoryError (CPython docs "
               "and observed on 3.12); agreement of the reported line with CPython's for every corrupted text beyond "
               "'it is e.lineno plus the section offset' is not decided")
