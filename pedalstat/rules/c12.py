"""C12 - verify() reports a syntax error exactly when Python's parser rejects the source."""
import ast

from ..astutil import dotted, calls, call_name, body_walk, walk_local, kw
from ..callgraph import resolve_call, bind_args, Callee
from ..cfg import CFG, ALL_EXC, EXCEPTION_DOWN, describe, down
from ..flow import OptionalFlow
from ..fdeval import FD, Obj, Raised, Inconclusive
from ..loader import AnalysisError, norm, ancestors
from ..symbols import Symbols, ClassInfo

SOURCE = 'pedal.source.source'
SFEED = 'pedal.source.feedbacks'
UEXC = 'pedal.utilities.exceptions'

# documented failure modes of ast.parse(str): SyntaxError (incl. IndentationError/TabError), ValueError (null bytes
# before 3.12, UnicodeEncodeError for lone surrogates), RecursionError / MemoryError (parser and AST-builder limits)
PARSE_ATOMS = down(SyntaxError) | down(ValueError) | frozenset([RecursionError, MemoryError])
GROUPS = [('IndentationError', down(IndentationError)),
          ('SyntaxError', down(SyntaxError) - down(IndentationError)),
          ('ValueError', down(ValueError)),
          ('RecursionError', frozenset([RecursionError])),
          ('MemoryError', frozenset([MemoryError]))]
WITNESS = {'ValueError': "verify() on \"x = '\\ud800'\" raises UnicodeEncodeError (a ValueError) out of verify()",
           'RecursionError': "verify() on '+'.join(['1'] * 100000) raises RecursionError out of verify()",
           'MemoryError': "verify() on '-' * 20000 + '1' raises MemoryError ('Parser stack overflowed') out of verify()",
           'SyntaxError': "any ill-formed program", 'IndentationError': "any badly indented program"}
OPT_ATTRS = ('lineno', 'offset', 'end_lineno', 'end_offset')


def parse_raises(n):
    if isinstance(n, ast.withitem):
        return ()
    for c in walk_local(n):
        if isinstance(c, ast.Call) and call_name(c) == 'ast.parse' and c.args and not isinstance(c.args[0], ast.Constant):
            return PARSE_ATOMS
    return ()


def r1_handler_coverage(ctx, sym, mod, fn, g):
    ctx.rule('R1', "the ast.parse(code) call in verify() is a raise point for every documented failure mode "
                   "{IndentationError, other SyntaxError, ValueError, RecursionError, MemoryError}; none may reach the "
                   "exceptional exit of verify() (CFG with exception edges)")
    sites = g.nodes_calling(lambda c: call_name(c) == 'ast.parse' and c.args and not isinstance(c.args[0], ast.Constant))
    ctx.require(len(sites) == 1, "verify() no longer has exactly one ast.parse(code) call")
    escaped = frozenset()
    for p, label in g.pred[g.xexit.id]:
        if isinstance(label, frozenset):
            escaped |= label
    for name, atoms in GROUPS:
        ctx.check(not (atoms & escaped), 'R1', 'verify:escapes:' + name, mod, sites[0].ast,
                  "%s raised by ast.parse is not handled: it leaves verify() as a raw exception" % name,
                  WITNESS[name], function='verify',
                  construct='try: ast.parse(code, filename) / handlers: %s' % [
                      norm(h.type) for t in ast.walk(fn) if isinstance(t, ast.Try) for h in t.handlers])
    return sites[0]


_UNSET = object()


def verify_outcomes(ctx, sym, mod, fn, outcomes=('accepted', 'SyntaxError', 'IndentationError', 'TabError'),
                    exc_filename=_UNSET):
    """verify() executed abstractly for every parser outcome x {code given, code defaulted from the submission} x
    {ordinary text, whitespace-only text}. Yields (scenario dict, observations dict)."""
    from .. import symexec
    import builtins
    tool = sym.const(mod, ast.parse('TOOL_NAME', mode='eval').body)
    for outcome in outcomes:
        for given in (True, False):
            for text, muted, enhance in (('x = 1\n', False, True), ('x = 1\n', True, True), ('x = 1\n', False, False),
                                         ('x = 1\n', True, False), ('  \n\t\n', False, True), ('', False, True)):
                rec = symexec.Recorder()
                tree = symexec.marker('tree-of-the-code')
                empty_tree = symexec.marker('tree-of-empty-text')
                exc = Obj('exception', exc_kind=outcome, lineno=symexec.marker('e.lineno'),
                          offset=symexec.marker('e.offset'), filename=symexec.marker('e.filename'),
                          msg='invalid syntax', end_lineno=None, end_offset=None, text=None)
                if exc_filename is not _UNSET:
                    exc.attrs.update(filename=exc_filename, lineno=None, offset=None, __open__=True,
                                     msg='source code string cannot contain null bytes')

                def parse(src, filename='<unknown>', *a, **k):
                    rec.events.append(('ast.parse', (src, filename) + tuple(a), k))
                    if src == '':
                        if text == '' and not [e for e in rec.named('ast.parse') if e[1][0] == ''][1:]:
                            # the submission itself is the empty text: CPython accepts it
                            if outcome == 'accepted':
                                return tree
                        else:
                            return empty_tree
                    if outcome == 'accepted':
                        return tree
                    raise Raised(outcome, payload=exc)
                store = {'success': None, 'ast': None}
                submission = Obj('submission', main_code=text, main_file='student_main.py', load_error=None)
                report = Obj('report', submission=submission)
                report.attrs['method:__getitem__'] = lambda k: store if k == tool else None

                def b_isinstance(o, t):
                    ts = t if isinstance(t, tuple) else (t,)
                    if isinstance(o, Obj) and 'exc_kind' in o.attrs:
                        k = getattr(builtins, o.attrs['exc_kind'])
                        return any(isinstance(x, type) and issubclass(k, x) for x in ts)
                    return isinstance(o, tuple(x for x in ts if isinstance(x, type)))
                calls_ = {'ast.parse': parse, 'sys.exc_info': lambda: symexec.marker('exc_info'),
                          'isinstance': b_isinstance}
                for name in ('syntax_error', 'indentation_error', 'blank_source', 'source_file_not_found'):
                    calls_[name] = rec.stub(name, ret=Obj(name))
                extra = {k: getattr(builtins, k) for k in ('SyntaxError', 'IndentationError', 'TabError', 'Exception',
                                                           'ValueError', 'BaseException')}
                for name in ('syntax_error', 'indentation_error'):
                    extra[name] = calls_[name]
                fd = symexec.new_fd(sym, mod, calls=calls_, extra=extra)
                kwargs = {'report': report, 'muted': muted, 'enhance': enhance}
                if given:
                    kwargs['code'] = text
                    kwargs['filename'] = 'given.py'
                value, raised = symexec.run(fd, fn, [], kwargs, what='verify')
                yield (dict(outcome=outcome, given=given, text=text, muted=muted, enhance=enhance),
                       dict(value=value, raised=raised, rec=rec, store=store, tree=tree, exc=exc,
                            filename='given.py' if given else 'student_main.py'))


def r3_iff(ctx, sym, mod, fn, g, site):
    ctx.rule('R3', "verify() executed abstractly for every parser outcome (accepted, SyntaxError, IndentationError, "
                   "TabError) x code given/defaulted x ordinary/blank text: exactly one syntax_error (or "
                   "indentation_error for IndentationError and its subclasses) is constructed iff the parser rejected "
                   "the text, it receives the caught exception's own lineno/offset, the parsed text and the report; "
                   "success/return value are False iff rejected; nothing is constructed for accepted text")
    ctx.rule('R4', "the stored tree is the value of ast.parse applied to the unmodified text (the given code, or the "
                   "submission's main code) under the matching filename")
    ctx.rule('R5', "blank_source is constructed exactly for whitespace-only text")
    n = 0
    for sc, ob in verify_outcomes(ctx, sym, mod, fn):
        n += 1
        tag = '[%s,%s,%r%s%s]' % (sc['outcome'], 'given' if sc['given'] else 'defaulted', sc['text'][:6],
                                  ',muted' if sc['muted'] else '', ',enhance=False' if not sc['enhance'] else '')
        rec, store = ob['rec'], ob['store']
        if ob['raised'] is not None:
            ctx.fail('R3', 'verify:raises' + tag, mod, fn, "verify() lets %s escape" % ob['raised'].kind,
                     "verify() on text for which ast.parse raises %s" % sc['outcome'])
            continue
        n_syn, n_ind = len(rec.named('syntax_error')), len(rec.named('indentation_error'))
        # the property accepts either kind of syntax-category feedback for a rejected text
        want = 0 if sc['outcome'] == 'accepted' else 1
        ctx.check(n_syn + n_ind == want, 'R3', 'verify:constructs-once' + tag, mod, fn,
                  "parser outcome %s: %d syntax_error and %d indentation_error constructed, expected %d in all" % (
                      sc['outcome'], n_syn, n_ind, want),
                  "a program CPython %s gets %s syntax feedback" % (
                      'accepts' if sc['outcome'] == 'accepted' else 'rejects',
                      'a' if sc['outcome'] == 'accepted' else 'no (or two, or the wrong kind of)'))
        rejected = sc['outcome'] != 'accepted'
        blank = sc['text'].strip() == ''
        ctx.check(store['success'] is (not rejected) and ob['value'] is (not rejected), 'R3', 'verify:success' + tag,
                  mod, fn, "parser outcome %s: success=%r, returns %r" % (sc['outcome'], store['success'], ob['value']),
                  "a rejected program is reported as parsed (or the reverse)")
        for ev in rec.named('syntax_error') + rec.named('indentation_error'):
            args, kw_ = ev[1], ev[2]
            exc = ob['exc']
            ok = len(args) >= 5 and args[0] is exc.attrs['lineno'] and args[3] is exc.attrs['offset'] and \
                args[4] is exc and args[2] == sc['text'] and kw_.get('report') is not None and \
                kw_['report']._name == 'report'
            ctx.check(ok, 'R3', 'verify:args' + tag, mod, fn,
                      "the feedback is not given the caught exception's own lineno/offset, the exception, the parsed "
                      "text and the report", "the reported line is not the one CPython reports")
        parses = [e for e in rec.named('ast.parse') if e[1][0] == sc['text']]
        ctx.check(len(parses) >= 1 and parses[0][1][1] == ob['filename'], 'R4' if sc['given'] else 'R6',
                  'verify:parses-code' + tag if sc['given'] else 'verify:filename-defaulted-with-code' + tag, mod, fn,
                  "ast.parse is not applied to the unmodified text under the file name %r (calls: %r)" % (
                      ob['filename'], [e[1] for e in rec.named('ast.parse')]),
                  "text with leading/trailing whitespace parses differently from CPython; with the wrong file name the "
                  "line offsets - keyed by the real file name - are not found")
        # ... in CPython's default mode: any other mode/feature switch changes which texts are accepted
        for ev in parses:
            extra_pos = list(ev[1][2:])
            opts = {k: v for k, v in ev[2].items() if k != 'filename'}
            plain = (not extra_pos or extra_pos == ['exec']) and all(
                (k == 'mode' and v == 'exec') or (k == 'type_comments' and v is False) or
                (k == 'feature_version' and v is None) or (k == 'optimize' and v in (-1, 0)) for k, v in opts.items())
            ctx.check(plain, 'R4', 'verify:parses-in-default-mode' + tag, mod, fn,
                      "ast.parse is called with %s%s: the text is judged by another grammar than CPython applies to a "
                      "program" % (extra_pos or '', opts or ''),
                      "`print(total)  # type: prints the total` is a syntax error under type_comments=True although "
                      "CPython runs the program")
        if not rejected:
            ctx.check(store['ast'] is ob['tree'], 'R4', 'verify:stores-parse-result' + tag, mod, fn,
                      "report['ast'] on the success path is %r, not the value returned by ast.parse(code)" % (
                          store['ast'],), "later tools analyse a different tree")
        ctx.check(len(rec.named('blank_source')) == (1 if blank else 0), 'R5', 'verify:blank' + tag, mod, fn,
                  "blank_source constructed %d time(s) for the text %r" % (len(rec.named('blank_source')), sc['text']),
                  "an empty submission is not reported as blank (or a non-empty one is)")
    ctx.floor('R3', 'verify scenarios', n, 20)


def r9_error_without_filename(ctx, sym, mod, fn):
    ctx.rule('R9', "Optional[str] flow: CPython's 'source code string cannot contain null bytes' SyntaxError carries no "
                   "file name (e.filename is None, like its lineno and offset). verify() is executed with such an "
                   "error; the file name and the exception object it hands to the feedback constructor are then fed to "
                   "pedal's own syntax_error.__init__, ExpandedTraceback (constructor, build_traceback, "
                   "_fix_frame_line, format_traceback, FakeFrame) and the methods of every Formatter class pedal "
                   "ships, all executed abstractly: the feedback is constructed without raising under each of them")
    from .. import symexec
    import builtins
    handed = None
    for sc, ob in verify_outcomes(ctx, sym, mod, fn, outcomes=('SyntaxError',), exc_filename=None):
        if sc['given'] or sc['text'] != 'x = 1\n' or sc['muted'] or not sc['enhance']:
            continue
        calls_ = ob['rec'].named('syntax_error')
        ctx.require(ob['raised'] is None and len(calls_) == 1 and len(calls_[0][1]) >= 5,
                    "verify() hands a SyntaxError to syntax_error(line, filename, code, offset, exception, ...)")
        handed = (calls_[0][1][1], ob['exc'].attrs.get('filename'), ob['filename'])
    ctx.require(handed is not None, "verify() scenario with a SyntaxError that has no file name")
    arg_filename, exc_filename, main_file = handed
    fmod = ctx.repo.module(SFEED)
    init = fmod.func('syntax_error.__init__')
    fm = sym.find_class('pedal.core.formatting', 'Formatter')
    classes = sorted(sym.subclasses(fm), key=lambda c: (c.module.name, c.name))
    ctx.floor('R9', 'Formatter classes shipped', len(classes), 5)
    text = 'a\x00\nb\nc'

    def b_isinstance(o, t):
        ts = t if isinstance(t, tuple) else (t,)
        if isinstance(o, Obj) and 'exc_kind' in o.attrs:
            k = getattr(builtins, o.attrs['exc_kind'])
            return any(isinstance(x, type) and issubclass(k, x) for x in ts)
        return isinstance(o, tuple(x for x in ts if isinstance(x, type)))
    for ci in classes:
        for offsets in ({}, {main_file: 10}):
            rec = symexec.Recorder()
            submission = symexec.model_submission(ctx, text, main_file=main_file, line_offsets=dict(offsets),
                                                  instructor_file='on_run.py')
            fmt = symexec.self_obj(ci.module, ci.name)
            report = Obj('report', submission=submission, format=fmt)
            finit = sym.method(ci, '__init__')
            if finit is not None:
                _, raised0 = symexec.run(symexec.new_fd(sym, ci.module), finit[1], [report], bound_self=fmt,
                                         what='%s.__init__' % ci.name)
                ctx.require(raised0 is None, "%s(report) constructs" % ci.name)
            exc = Obj('exception', msg='source code string cannot contain null bytes', lineno=None, offset=None,
                      end_lineno=None, end_offset=None, filename=exc_filename, text=None, exc_kind='SyntaxError')
            me = symexec.self_obj(fmod, 'syntax_error', constant_fields={'suggestion': 'Check line {lineno}'})
            sup = Obj('super')
            symexec.method(sup, '__init__', rec.stub('super().__init__'))
            fd = symexec.new_fd(sym, fmod, calls={
                'wrap_fields': lambda fmt_, fields, *a_, **k_: dict(fields), 'super': lambda *a: sup,
                'get_exception_name': lambda e: 'SyntaxError', 'add_indefinite_article': lambda x: 'a ' + x,
                'traceback.TracebackException': lambda *a, **k: Obj('TracebackException', stack=[]),
                # the traceback of an error raised by ast.parse has one frame: verify() itself
                'traceback.extract_tb': lambda tb, **k: [('/pedal/source/source.py', 140, 'verify',
                                                          'parsed = ast.parse(code, filename)')],
                'isinstance': b_isinstance}, extra={'SyntaxError': SyntaxError})
            _, raised = symexec.run(fd, init, [None, arg_filename, text, None, exc, ('T', exc, None)],
                                    {'report': report}, bound_self=me, what='syntax_error.__init__')
            filed = rec.named('super().__init__')
            ctx.check(raised is None and len(filed) == 1, 'R9',
                      'null-byte-error:%s%s' % (ci.name, ':in-section' if offsets else ''), fmod,
                      getattr(raised, 'node', None) or init,
                      "verify() hands file name %r and an exception whose .filename is %r to syntax_error(); with "
                      "formatter %s its construction %s" % (
                          arg_filename, exc_filename, ci.name,
                          'raises %s (%s)' % (raised.kind, raised.detail) if raised is not None
                          else 'reaches Feedback.__init__ %d time(s)' % len(filed)),
                      "set_formatter(%s); verify() on the text 'a = 1\\0': %s escapes instead of a syntax error "
                      "being attached" % (ci.name, raised.kind if raised is not None else 'an exception'),
                      construct='%s.filename' % ci.name)


def r7b_line_views_agree(ctx, sym):
    """Submission.get_lines executed abstractly: it is the table that syntax_error / the sandbox index by CPython's
    line and bound-check against the fallback `code.split("\\n")` they build for files the submission does not know;
    both must split alike, or the bounds check of one list guards the lookup in the other."""
    from .. import symexec
    smod = ctx.repo.module('pedal.core.submission')
    fn = smod.func('Submission.get_lines')
    ctx.analysed_function(smod, fn)
    for text in ('a = 1\nb = (\n', 'a = 1\rb = (\r', 'a = 1\r\nb = 2', 'x\x0cy\nz', 'x\x0by', 'x\u2028y\n', '', 'one'):
        me = symexec.self_obj(smod, 'Submission', main_code=text, files={'answer.py': text}, _lines_cache={})
        got, raised = symexec.run(symexec.new_fd(sym, smod), fn, [], bound_self=me, what='Submission.get_lines')
        want = text.split('\n')
        ctx.check(raised is None and got == want, 'R7', 'Submission.get_lines[%r]' % text, smod, fn,
                  "get_lines() of the text %r gives %r; the fallback tables built next to it (code.split('\\n')) give "
                  "%r, and one list's length guards the lookup in the other" % (text, got, want),
                  "set_source(code, filename='program.py') with lone-CR line endings and a syntax error past line 1: "
                  "IndexError escapes verify()")


def r8_text_kept(ctx, sym, rule='R8'):
    ctx.rule(rule, "Submission.__init__ and Submission.replace_main executed abstractly for Python files with texts that "
                   "start with a byte order mark, end in blanks, use CR LF, tabs, form feeds or a NUL: the main code "
                   "verify() will parse is the text submitted, character for character (CPython rejects a BOM inside a "
                   "str; a submission stripped of it would be accepted)")
    from .. import symexec
    smod = ctx.repo.module('pedal.core.submission')
    init = smod.func('Submission.__init__')
    rep = smod.func('Submission.replace_main')
    ctx.analysed_function(smod, init)
    ctx.analysed_function(smod, rep)
    texts = ['\ufeffx = 1\n', 'x = 1  \n\n', ' \tx = (\r\n', 'a\x0cb\n', 'x\x00', '', '\n\n', '\ufeff',
             'x = "\u00a0"\u3000\n', 'header = "name\tscore"\nprint(header.split("\t"))\n']
    for text in texts:
        for how in ('main_code=', 'files=', 'replace_main'):
            me = symexec.self_obj(smod, 'Submission')
            fd = symexec.new_fd(sym, smod)
            if how == 'main_code=':
                kwargs = {'main_code': text, 'main_file': 'answer.py'}
            elif how == 'files=':
                kwargs = {'files': {'answer.py': text, 'other.py': 'y = 2'}, 'main_file': 'answer.py'}
            else:
                kwargs = {'main_code': 'old = 0', 'main_file': 'answer.py'}
            _, raised = symexec.run(fd, init, [], kwargs, bound_self=me, what='Submission.__init__')
            if raised is None and how == 'replace_main':
                _, raised = symexec.run(fd, rep, [text], bound_self=me, what='Submission.replace_main')
            files = me.attrs.get('files')
            stored = files.get(me.attrs.get('main_file')) if isinstance(files, dict) else None
            main = me.attrs.get('main_code', stored)
            ok = raised is None and stored == text and (main == text or how == 'files=')
            ctx.check(ok, rule, 'Submission[%s%r]:text-kept' % (how, text), smod, init if how != 'replace_main' else rep,
                      "a submission built with %s %r holds %r as its main file%s" % (
                          how, text, stored, '' if raised is None else ' (raises %s)' % raised.kind),
                      "contextualize_report('\\ufeffx = 1'); verify(): CPython rejects the text (invalid non-printable "
                      "character U+FEFF), pedal attaches nothing")


def r7_line_indexing(ctx, sym):
    ctx.rule('R7', "no unguarded indexing of a list of source lines by the line CPython reports (CPython counts lone "
                   "CR and form feed differently from str.split('\\n')): a subscript by `line` in syntax_error.__init__ "
                   "needs a length guard or a try")
    fmod = ctx.repo.module(SFEED)
    init = fmod.func('syntax_error.__init__')
    n = 0
    for sub in ast.walk(init):
        if isinstance(sub, ast.Subscript) and isinstance(sub.ctx, ast.Load) and \
                any(isinstance(x, ast.Name) and x.id == 'line' for x in ast.walk(sub.slice)):
            n += 1
            guarded = False
            child = sub
            for a in ancestors(sub):
                if isinstance(a, ast.If) and 'len(' in norm(a.test) and 'line' in norm(a.test):
                    guarded = True
                if isinstance(a, ast.Try) and child in a.body:
                    guarded = True
                if isinstance(a, ast.IfExp) and 'len(' in norm(a.test):
                    guarded = True
                child = a
            ctx.check(guarded, 'R7', 'syntax_error.__init__:%s' % norm(sub), fmod, sub,
                      "`%s` indexes the split source by CPython's line number without a bounds check" % norm(sub),
                      "verify() on 'a = 1\\rb = (\\r' (lone CR line endings): CPython reports line 3, the text has one "
                      "LF-separated line, IndexError leaves verify()")
    ctx.ok('R7', 'line-indexing-sweep', sample={'subscripts_by_line': n}, nontrivial=False)
    # the traceback built for the syntax error looks the line's text up as well (shared with C17.R2)
    from .c17 import fix_frame_line_bounds_rule
    fix_frame_line_bounds_rule(ctx, sym, 'R7')


def r6_r2_line(ctx, sym):
    ctx.rule('R2', "Optional[int] flow: lineno/offset/end_lineno/end_offset of a caught SyntaxError may be None; "
                   "followed from verify() into syntax_error.__init__ and ExpandedTraceback.build_traceback (and "
                   "FakeFrame / _fix_frame_line), no arithmetic or ordering comparison uses one without a None "
                   "test or default")
    ctx.rule('R6', "the reported line is CPython's line plus submission.line_offsets[filename]")
    fmod = ctx.repo.module(SFEED)
    init = fmod.func('syntax_error.__init__')
    ctx.analysed_function(fmod, init)
    params = [a.arg for a in init.args.args]
    ctx.require(params[:5] == ['self', 'line', 'filename', 'code', 'col_offset'], "syntax_error.__init__ signature")
    flow = OptionalFlow(init, seeds={'line', 'col_offset'})
    n = 0
    for node, text, desc in flow.uses:
        n += 1
        ctx.fail('R2', 'syntax_error.__init__:%s' % desc, fmod, node,
                 "%s uses `%s`, which is None when CPython reports no position" % (desc, text),
                 "verify() on the text 'x\\0' (CPython: 'source code string cannot contain null bytes', lineno None) "
                 "raises TypeError instead of attaching a syntax error")
    if not flow.uses:
        ctx.ok('R2', 'syntax_error.__init__:optional-uses', sample='line/col_offset guarded before arithmetic')
    # R6: syntax_error.__init__ executed abstractly: the reported line is CPython's line plus the section offset
    from .. import symexec
    # (lines 9 and 12 lie past the end of the eight-line text: CPython counts lone CR / form feed as line breaks,
    # str.split('\n') does not)
    for line, col in ((3, 2), (1, 0), (None, None), (7, None), (9, 0), (12, 1), (8, 200)):
        for filename, offsets, want_off in (('student.py', {'student.py': 10}, 10), ('other.py', {'student.py': 10}, 0),
                                            ('student.py', {}, 0)):
            rec = symexec.Recorder()
            submission = symexec.model_submission(ctx, 'a\nb\nc\nd\ne\nf\ng\nh', main_file='student.py',
                                                  line_offsets=offsets, instructor_file='on_run.py')
            report = Obj('report', submission=submission, format=Obj('format'))
            tb = Obj('traceback')
            symexec.method(tb, 'build_traceback', lambda: ['frame'])
            symexec.method(tb, 'format_traceback', lambda *a: 'TB')
            exc = Obj('exception', msg='invalid syntax', lineno=line, offset=col, exc_kind='SyntaxError')
            me = symexec.self_obj(fmod, 'syntax_error', constant_fields={'suggestion': 'Check line {lineno}'})
            sup = Obj('super')
            symexec.method(sup, '__init__', rec.stub('super().__init__'))
            fd = symexec.new_fd(sym, fmod, calls={
                'get_exception_name': lambda e: 'SyntaxError', 'add_indefinite_article': lambda x: 'a ' + x,
                'ExpandedTraceback': rec.stub('ExpandedTraceback', ret=tb), 'Location': rec.stub('Location', fn=lambda **k: Obj('location', **k)),
                'wrap_fields': lambda fmt, fields, *a_, **k_: dict(fields), 'super': lambda *a: sup})
            _, raised = symexec.run(fd, init, [line, filename, 'a\nb\nc\nd\ne\nf\ng\nh', col, exc, ('T', exc, None)],
                                    {'report': report}, bound_self=me, what='syntax_error.__init__')
            tag = '[line=%r,col=%r,%s,offsets=%r]' % (line, col, filename, offsets)
            if raised is not None:
                ctx.fail('R2', 'syntax_error.__init__:raises' + tag, fmod, getattr(raised, 'node', None) or init,
                         "syntax_error.__init__ raises %s (%s)" % (raised.kind, raised.detail),
                         "verify() on a text for which CPython reports lineno=%r offset=%r" % (line, col))
                continue
            sup_calls = rec.named('super().__init__')
            fields = sup_calls[0][2].get('fields') if len(sup_calls) == 1 else None
            loc = sup_calls[0][2].get('location') if len(sup_calls) == 1 else None
            want_line = (1 if line is None else line) + want_off
            ok = isinstance(fields, dict) and fields.get('lineno') == want_line and isinstance(loc, Obj) and \
                loc.attrs.get('line') == want_line
            ctx.check(ok, 'R6', 'syntax_error:lineno=line+offset' + tag, fmod, init,
                      "CPython line %r in %s with section offsets %r is reported on line %r (location %r); expected %r" % (
                          line, filename, offsets, fields.get('lineno') if isinstance(fields, dict) else fields,
                          loc.attrs.get('line') if isinstance(loc, Obj) else loc, want_line),
                      "a syntax error inside section 2 is reported with the section-relative line")
            tbs = rec.named('ExpandedTraceback')
            ctx.check(len(tbs) == 1 and any(a is offsets for a in tbs[0][1]) or
                      (len(tbs) == 1 and any(v is offsets for v in tbs[0][2].values())), 'R6',
                      'syntax_error:offset-source' + tag, fmod, init,
                      "the submission's line offsets are not handed to the traceback", "section offsets ignored in the "
                      "traceback text")
    # ExpandedTraceback
    umod = ctx.repo.module(UEXC)
    bt = umod.func('ExpandedTraceback.build_traceback')
    ctx.analysed_function(umod, bt)

    def src(e):
        return isinstance(e, ast.Attribute) and e.attr in OPT_ATTRS and norm(e.value) == 'self.exception'
    flow = OptionalFlow(bt, source=src)
    for node, text, desc in flow.uses:
        ctx.fail('R2', 'build_traceback:%s' % desc, umod, node,
                 "%s uses `%s`, which is None when CPython reports no position" % (desc, text),
                 "verify() on the text 'x\\0' raises TypeError while building the traceback")
    if not flow.uses:
        ctx.ok('R2', 'build_traceback:optional-uses', sample='offset/lineno defaulted before arithmetic')
    # the frame pedal makes up for a SyntaxError: build_traceback (with FakeFrame and _fix_frame_line) executed on an
    # error for which CPython reports no position, inside and outside a section
    import builtins

    def b_isinstance(o, t):
        ts = t if isinstance(t, tuple) else (t,)
        if isinstance(o, Obj) and 'exc_kind' in o.attrs:
            k = getattr(builtins, o.attrs['exc_kind'])
            return any(isinstance(x, type) and issubclass(k, x) for x in ts)
        return isinstance(o, tuple(x for x in ts if isinstance(x, type)))
    for lineno, offset in ((None, None), (2, None), (2, 3)):
        for offsets, want in (({'student.py': 10}, (lineno or 1) + 10), ({}, lineno or 1)):
            exc = Obj('exception', msg='m', lineno=lineno, offset=offset, end_lineno=None, end_offset=None,
                      filename='student.py', text=None, exc_kind='SyntaxError')
            me = symexec.self_obj(umod, 'ExpandedTraceback', exception=exc, exc_info=('T', exc, None),
                                  line_offsets=dict(offsets), full_traceback=False, hide_filenames=['on_run.py'],
                                  show_filenames=['student.py'], original_code_lines=['l1', 'l2', 'l3'],
                                  student_files={'student.py': ['l1', 'l2', 'l3']})
            fd = symexec.new_fd(sym, umod, calls={
                'traceback.TracebackException': lambda *a, **k: Obj('TracebackException', stack=[]),
                'isinstance': b_isinstance}, extra={'SyntaxError': SyntaxError})
            frames, raised = symexec.run(fd, bt, [], bound_self=me, what='ExpandedTraceback.build_traceback')
            got = frames[-1].attrs.get('lineno') if raised is None and isinstance(frames, list) and frames and \
                isinstance(frames[-1], Obj) else None
            ctx.check(raised is None and got == want, 'R2',
                      'build_traceback:made-up-frame[lineno=%r,offset=%r,%s]' % (
                          lineno, offset, 'in-section' if offsets else 'whole-file'), umod, bt,
                      "for a SyntaxError with lineno=%r offset=%r and section offsets %r build_traceback %s; expected a "
                      "frame on line %r" % (lineno, offset, offsets, 'raises %s (%s)' % (raised.kind, raised.detail)
                                            if raised is not None else 'ends with a frame on line %r' % got, want),
                      "verify() on the text 'x\\0' raises TypeError while the traceback is being built")


def run_as(ctx, from_rule, as_rule, fn, prefix):
    """Run fn() - a rule of another property that reports under `from_rule` - and file what it reports under `as_rule`
    of this property."""
    before = (len(ctx.obligations), len(ctx.findings))
    had = from_rule in ctx.rules
    saved = ctx.rules.get(from_rule)
    fn()
    desc = ctx.rules.pop(from_rule, '')
    if had:
        ctx.rules[from_rule] = saved
    ctx.rules[as_rule] = prefix + desc
    new_keys = set()
    for i in range(before[0], len(ctx.obligations)):
        rule, key, ok = ctx.obligations[i]
        if rule == from_rule:
            ctx.obligations[i] = (as_rule, key, ok)
            new_keys.add(key)
    for f in ctx.findings[before[1]:]:
        if f.rule == from_rule:
            f.rule = as_rule
    ctx.nontrivial = {(as_rule if (r == from_rule and k in new_keys) else r, k) for r, k in ctx.nontrivial}


def section_offsets(ctx, sym, as_rule='R6s', partition_as=None):
    """The section offset that syntax_error (and TIFA's locate) adds is the one next_section computes: the session table
    of C17.R3 (separate_into_sections -> next_section*, executed abstractly on files with form feeds, U+2028, adjacent
    markers) decides that it is the number of lines CPython counts before the section. Shared with C17; reported here
    under `as_rule`. With partition_as, C17.R1 (the section pattern splits the text without losing a character) is
    reported as well."""
    from . import c17
    smod = ctx.repo.module(c17.SECTIONS)
    try:
        text = sym.const(smod, smod.top_assign('DEFAULT_SECTION_PATTERN'))
    except KeyError:
        raise AnalysisError("DEFAULT_SECTION_PATTERN is not a literal")
    if partition_as is not None:
        run_as(ctx, 'R1', partition_as, lambda: c17.r1_lossless(ctx, sym, smod), "section partition (shared with C17.R1): ")
    import re as _re
    if _re.compile(text).groups != 1:
        return
    run_as(ctx, 'R3', as_rule, lambda: c17.r3_next_section_table(ctx, sym, smod, text),
           "section offsets (shared with C17.R3): ")


def run(ctx):
    sym = Symbols(ctx.repo)
    section_offsets(ctx, sym)
    mod = ctx.repo.module(SOURCE)
    fn = mod.func('verify')
    ctx.analysed_function(mod, fn)
    g = CFG(fn, raises=parse_raises)
    site = r1_handler_coverage(ctx, sym, mod, fn, g)
    r3_iff(ctx, sym, mod, fn, g, site)
    r6_r2_line(ctx, sym)
    r7_line_indexing(ctx, sym)
    r8_text_kept(ctx, sym)
    r7b_line_views_agree(ctx, sym)
    r9_error_without_filename(ctx, sym, mod, fn)
    ctx.assume("ast.parse(str) fails only with SyntaxError, ValueError, RecursionError or MemoryError (CPython docs "
               "and observed on 3.12); agreement of the reported line with CPython's for every corrupted text beyond "
               "'it is e.lineno plus the section offset' is not decided")
