"""C08 - static ensure_*/prevent_* checks agree with the student's actual syntax tree."""
import ast

from ..astutil import dotted, calls, walk_local, body_walk, call_name
from ..fdeval import FD, Obj, truth, Inconclusive, UNKNOWN
from ..loader import AnalysisError, norm
from ..symbols import Symbols

OPS = 'pedal.utilities.operators'
FIND = 'pedal.cait.find_node'
STATIC = 'pedal.assertions.static'
NODE = 'pedal.cait.cait_node'
MATCH = 'pedal.cait.stretchy_tree_matching'

TABLE_KIND = {'COMPARE_OP_NAMES': 'Compare', 'BOOL_OP_NAMES': 'BoolOp',
              'BIN_OP_NAMES': 'BinOp', 'UNARY_OP_NAMES': 'UnaryOp'}


def cpython_op_class(symbol, kind):
    """Class name CPython's own parser assigns to an operator symbol (the oracle; no pedal code)."""
    if kind == 'Compare':
        return type(ast.parse("a %s b" % symbol, mode='eval').body.ops[0]).__name__
    if kind == 'BoolOp':
        return type(ast.parse("a %s b" % symbol, mode='eval').body.op).__name__
    if kind == 'BinOp':
        return type(ast.parse("a %s b" % symbol, mode='eval').body.op).__name__
    if kind == 'UnaryOp':
        return type(ast.parse("%s a" % symbol, mode='eval').body.op).__name__
    raise AssertionError(kind)


def extract_tables(ctx, sym):
    mod = ctx.repo.module(OPS)
    tables = {}
    for name in TABLE_KIND:
        expr = mod.top_assign(name)
        try:
            value = sym.const(mod, expr)
        except KeyError as e:
            raise AnalysisError("C08 R1: %s is no longer a literal table (%s)" % (name, e))
        ctx.require(isinstance(value, dict), "%s is not a dict" % name)
        tables[name] = (value, expr)
    return mod, tables


def r1_symbol_tables(ctx, sym):
    ctx.rule('R1', "each row of COMPARE/BOOL/BIN/UNARY_OP_NAMES maps the symbol to the class name "
                   "CPython's parser gives that symbol (oracle: ast.parse on this interpreter)")
    mod, tables = extract_tables(ctx, sym)
    rows = 0
    for name, (table, expr) in tables.items():
        kind = TABLE_KIND[name]
        for symbol, cls_name in table.items():
            rows += 1
            key = "%s[%r]" % (name, symbol)
            try:
                oracle = cpython_op_class(symbol, kind)
            except SyntaxError:
                ctx.fail('R1', key, mod, expr,
                         "symbol %r is not a %s operator for CPython's parser" % (symbol, kind),
                         "find_operation(%r) can never match" % symbol, construct="%r: %r" % (symbol, cls_name))
                continue
            node = expr
            if isinstance(expr, ast.Dict):
                for k, v in zip(expr.keys, expr.values):
                    if isinstance(k, ast.Constant) and k.value == symbol:
                        node = v
            ctx.check(cls_name == oracle, 'R1', key, mod, node,
                      "table maps %r to %r but CPython parses it as ast.%s; find_operation compares the "
                      "row with type(node).__name__, so the lookup %s" % (
                          symbol, cls_name, oracle,
                          "never matches" if not hasattr(ast, str(cls_name)) else "returns the other operator's nodes"),
                      "student program `a %s b` with ensure_operation(%r) / prevent_operation(%r)" % (
                          symbol, symbol, symbol),
                      sample={'symbol': symbol, 'table': cls_name, 'cpython': oracle},
                      construct="%r: %r" % (symbol, cls_name))
    ctx.floor('R1', 'operator table rows', rows, 25)
    # documented symbols that must be present (property: all comparison, boolean, binary symbols)
    documented = {
        'COMPARE_OP_NAMES': ['==', '!=', '<', '<=', '>', '>=', 'is', 'is not', 'in', 'not in'],
        'BOOL_OP_NAMES': ['and', 'or'],
        'BIN_OP_NAMES': ['+', '-', '*', '/', '//', '%', '**', '>>', '<<', '|', '^', '&', '@'],
        'UNARY_OP_NAMES': ['not', '~'],
    }
    for name, symbols in documented.items():
        for s in symbols:
            ctx.check(s in tables[name][0], 'R1', "%s[%r]:present" % (name, s), mod, tables[name][1],
                      "documented operator symbol %r has no row in %s" % (s, name),
                      "find_operation(%r) silently returns []" % s, construct=name)
    return tables


def r2_name_plumbing(ctx, sym):
    ctx.rule('R2', "CaitNode.ast_name is type(astNode).__name__ and op_name is type(field).__name__ "
                   "(so table rows are compared with CPython class names)")
    mod = ctx.repo.module(NODE)
    ga = mod.func('CaitNode.__getattr__')
    ctx.analysed_function(mod, ga)
    gan = mod.func('CaitNode.get_ast_name')
    ctx.analysed_function(mod, gan)
    # get_ast_name returns type(<param>).__name__
    params = [a.arg for a in gan.args.args]
    rets = [n for n in body_walk(gan) if isinstance(n, ast.Return)]
    ok = bool(rets) and all(
        isinstance(r.value, ast.Attribute) and r.value.attr == '__name__'
        and isinstance(r.value.value, ast.Call) and call_name(r.value.value) == 'type'
        and isinstance(r.value.value.args[0], ast.Name) and r.value.value.args[0].id in params
        for r in rets)
    ctx.check(ok, 'R2', 'CaitNode.get_ast_name', mod, gan,
              "get_ast_name no longer returns type(node).__name__",
              "every ast_name comparison in find_operation / find_function_calls")
    # in __getattr__: node_name = CaitNode.get_ast_name(self.astNode); return node_name under key == 'ast_name'
    defs = {}
    for n in body_walk(ga):
        if isinstance(n, ast.Assign) and len(n.targets) == 1 and isinstance(n.targets[0], ast.Name):
            defs.setdefault(n.targets[0].id, []).append(n.value)

    def is_astnode_type_name(e, depth=0):
        if isinstance(e, ast.Name) and depth < 3:
            ds = defs.get(e.id, [])
            return bool(ds) and all(is_astnode_type_name(d, depth + 1) for d in ds)
        if isinstance(e, ast.Call) and call_name(e) in ('CaitNode.get_ast_name', 'self.get_ast_name') \
                and e.args and norm(e.args[0]) == 'self.astNode':
            return True
        if norm(e) == 'type(self.astNode).__name__':
            return True
        return False

    found_ast_name = False
    found_single = False
    for n in body_walk(ga):
        if isinstance(n, ast.If):
            t = n.test
            if isinstance(t, ast.Compare) and len(t.ops) == 1 and isinstance(t.ops[0], ast.Eq) \
                    and isinstance(t.comparators[0], ast.Constant) and t.comparators[0].value == 'ast_name' \
                    and isinstance(t.left, ast.Name) and t.left.id in ('key', 'item'):
                r = n.body[0] if n.body else None
                if isinstance(r, ast.Return) and is_astnode_type_name(r.value):
                    found_ast_name = True
            if isinstance(t, ast.Compare) and len(t.ops) == 1 and isinstance(t.ops[0], ast.In) \
                    and norm(t.comparators[0]) == 'AST_SINGLE_FUNCTIONS' and norm(t.left) == 'item':
                for st in n.body:
                    if isinstance(st, ast.Return):
                        v = st.value
                        if isinstance(v, ast.Attribute) and v.attr == '__name__' and isinstance(v.value, ast.Call) \
                                and call_name(v.value) == 'type' and isinstance(v.value.args[0], ast.Name):
                            fld = v.value.args[0].id
                            srcs = defs.get(fld, [])
                            good = [s for s in srcs if isinstance(s, ast.Call) and (
                                norm(s.func) in ('self.astNode.__getattribute__',) or
                                (call_name(s) == 'getattr' and norm(s.args[0]) == 'self.astNode'))]
                            if good:
                                found_single = True
    ctx.check(found_ast_name, 'R2', 'CaitNode.__getattr__:ast_name', mod, ga,
              "no `return <type(self.astNode).__name__>` guarded by the 'ast_name' key",
              "find_operation compares op.ast_name with the table row", construct='ast_name branch')
    ctx.check(found_single, 'R2', 'CaitNode.__getattr__:op_name', mod, ga,
              "no `return type(field).__name__` for AST_SINGLE_FUNCTIONS items",
              "find_operation compares binop.op_name with the table row", construct='op_name branch')
    singles = sym.const(mod, mod.top_assign('AST_SINGLE_FUNCTIONS'))
    ctx.check('op_name' in singles, 'R2', 'AST_SINGLE_FUNCTIONS:op_name', mod,
              mod.top_assign('AST_SINGLE_FUNCTIONS'),
              "'op_name' is not a derived attribute any more", "binop.op_name")
    # key = item[:-5] must strip exactly '_name'
    strip_ok = False
    for n in body_walk(ga):
        if isinstance(n, ast.If) and norm(n.test) == 'item in AST_SINGLE_FUNCTIONS':
            for st in n.body:
                if isinstance(st, ast.Assign) and norm(st.targets[0]) == 'key':
                    v = st.value
                    if isinstance(v, ast.Subscript) and isinstance(v.slice, ast.Slice) and v.slice.lower is None \
                            and norm(v.slice.upper) == '-%d' % len('_name') and norm(v.value) == 'item':
                        strip_ok = True
                    elif isinstance(v, ast.Call) and isinstance(v.func, ast.Attribute) and \
                            v.func.attr in ('removesuffix',) and v.args and \
                            isinstance(v.args[0], ast.Constant) and v.args[0].value == '_name':
                        strip_ok = True
    ctx.check(strip_ok, 'R2', 'CaitNode.__getattr__:strip_suffix', mod, ga,
              "the '_name' suffix is not stripped exactly (op_name -> op)",
              "binop.op_name would read the wrong ast field", construct="key = item[:-5]")


def r3_finder(ctx, sym, tables):
    ctx.rule('R3', "find_operation consults each table for its own node kind, appends only on an equal "
                   "class name, the tables' key sets are disjoint; find_function_calls matches Name.id / "
                   "Attribute.attr of Call.func")
    mod = ctx.repo.module(FIND)
    fn = mod.func('find_operation')
    ctx.analysed_function(mod, fn)
    arms = []
    top_if = [s for s in fn.body if isinstance(s, ast.If)]
    ctx.require(top_if, "find_operation has no dispatch chain")
    node = top_if[-1]
    while True:
        arms.append(node)
        if len(node.orelse) == 1 and isinstance(node.orelse[0], ast.If):
            node = node.orelse[0]
        else:
            break
    seen_tables = set()
    for arm in arms:
        t = arm.test
        if not (isinstance(t, ast.Compare) and len(t.ops) == 1 and isinstance(t.ops[0], ast.In)
                and isinstance(t.comparators[0], ast.Name) and t.comparators[0].id in TABLE_KIND):
            raise AnalysisError("C08 R3: unrecognised dispatch test %s" % norm(t))
        table = t.comparators[0].id
        seen_tables.add(table)
        key = 'find_operation:%s' % table
        body_src = arm.body
        arm_body = ast.Module(body=arm.body, type_ignores=[])
        kinds = [c.args[0].value for c in calls(arm_body, 'find_all')
                 if c.args and isinstance(c.args[0], ast.Constant)]
        ok_kind = kinds == [TABLE_KIND[table]]
        ctx.check(ok_kind, 'R3', key + ':kind', mod, arm,
                  "table %s is consulted for node kind %s instead of %s" % (table, kinds, TABLE_KIND[table]),
                  "find_operation on any symbol of that table returns nodes of the wrong kind",
                  construct="if %s: ... find_all(%s)" % (norm(t), kinds))
        # the append must be guarded by an equality between a derived name and TABLE[op_name]
        appended = False
        for n in ast.walk(ast.Module(body=body_src, type_ignores=[])):
            if isinstance(n, ast.If):
                c = n.test
                if isinstance(c, ast.Compare) and len(c.ops) == 1 and isinstance(c.ops[0], ast.Eq):
                    sides = [c.left, c.comparators[0]]
                    tab_side = [s for s in sides if isinstance(s, ast.Subscript) and norm(s.value) == table]
                    attr_side = [s for s in sides if isinstance(s, ast.Attribute)
                                 and s.attr in ('ast_name', 'op_name')]
                    if tab_side and attr_side and any(True for _ in calls(
                            ast.Module(body=n.body, type_ignores=[]), 'append')):
                        want = 'ast_name' if table == 'COMPARE_OP_NAMES' else 'op_name'
                        if attr_side[0].attr == want and norm(tab_side[0].slice) == norm(t.left):
                            appended = True
        ctx.check(appended, 'R3', key + ':compare', mod, arm,
                  "no `if <node>.%s == %s[op_name]: found.append(...)` in this arm" % (
                      'ast_name/op_name', table),
                  "find_operation returns nodes regardless of their operator", construct=norm(t))
        if table == 'COMPARE_OP_NAMES':
            iter_ops = any(isinstance(n, ast.For) and isinstance(n.iter, ast.Attribute) and n.iter.attr == 'ops'
                           for n in ast.walk(arm_body))
            ctx.check(iter_ops, 'R3', key + ':ops', mod, arm,
                      "comparison arm does not iterate over every operator of a chained comparison",
                      "`a < b <= c` with find_operation('<=')", construct=norm(t))
    ctx.check(seen_tables == set(TABLE_KIND), 'R3', 'find_operation:all_tables', mod, fn,
              "find_operation does not consult all four tables (%s)" % sorted(seen_tables),
              "symbols of the missing table are never found", construct='dispatch chain')
    names = list(tables)
    for i, a in enumerate(names):
        for b in names[i + 1:]:
            inter = set(tables[a][0]) & set(tables[b][0])
            ctx.check(not inter, 'R3', 'disjoint:%s/%s' % (a, b), ctx.repo.module(OPS), tables[b][1],
                      "symbols %s appear in both tables; the elif chain shadows the second" % sorted(inter),
                      "find_operation(%r)" % (sorted(inter)[0] if inter else ''), construct='%s & %s' % (a, b))
    # find_function_calls
    fc = mod.func('find_function_calls')
    ctx.analysed_function(mod, fc)
    src = norm(fc)
    kinds = [c.args[0].value for c in calls(fc, 'find_all') if c.args and isinstance(c.args[0], ast.Constant)]
    ctx.check(kinds == ['Call'], 'R3', 'find_function_calls:kind', mod, fc,
              "find_function_calls walks %s, not Call nodes" % kinds, "ensure_function_call('f')")
    want = {('Attribute', 'attr'), ('Name', 'id')}
    got = set()
    for n in ast.walk(fc):
        if isinstance(n, ast.If) and isinstance(n.test, ast.Compare) and isinstance(n.test.ops[0], ast.Eq) \
                and isinstance(n.test.comparators[0], ast.Constant) and norm(n.test.left).endswith('.func.ast_name'):
            kind = n.test.comparators[0].value
            for m in n.body:
                if isinstance(m, ast.If) and isinstance(m.test, ast.Compare) and isinstance(m.test.ops[0], ast.Eq) \
                        and norm(m.test.comparators[0]) == 'name' and isinstance(m.test.left, ast.Attribute) \
                        and any(True for _ in calls(ast.Module(body=m.body, type_ignores=[]), 'append')):
                    got.add((kind, m.test.left.attr))
    ctx.check(got == want, 'R3', 'find_function_calls:match', mod, fc,
              "call-name matching is %s, expected Name.id and Attribute.attr equality" % sorted(got),
              "student program calling f() and obj.f()", construct='if a_call.func.ast_name == ...')


def r4_thresholds(ctx, sym):
    ctx.rule('R4', "decision table of ensure/prevent _check_usage over (threshold, count) in 0..4 squared: "
                   "ensure fires iff count < at_least; prevent fires iff count > at_most")
    mod = ctx.repo.module(STATIC)
    for cls, field, oracle in (
            ('EnsureAssertionFeedback', 'at_least', lambda th, n: n < th),
            ('PreventAssertionFeedback', 'at_most', lambda th, n: n > th)):
        fn = mod.func(cls + '._check_usage')
        ctx.analysed_function(mod, fn)
        params = [a.arg for a in fn.args.args]
        ctx.require(len(params) == 3, "%s._check_usage signature changed" % cls)
        for th in range(5):
            for n in range(5):
                fields = {field: th, 'capacity': ''}
                env = {params[0]: Obj('self', fields=fields), params[1]: 'use_count', params[2]: list(range(n))}
                fd = FD()
                try:
                    from ..fdeval import Raised
                    result = fd.run(fn.body, env)
                except Inconclusive as e:
                    raise AnalysisError("C08 R4: %s._check_usage outside the decidable fragment: %s" % (cls, e))
                t = truth(result) if result is not None else False
                key = "%s._check_usage(%s=%d,count=%d)" % (cls, field, th, n)
                ctx.check(t is not None and bool(t) == oracle(th, n), 'R4', key, mod, fn,
                          "returns %r for %s=%d and %d uses; the property requires %s" % (
                              result, field, th, n, oracle(th, n)),
                          "%s(..., %s=%d) on a program with %d occurrence(s)" % (
                              'ensure_X' if cls.startswith('Ensure') else 'prevent_X', field, th, n),
                          construct='_check_usage', sample={'threshold': th, 'count': n, 'fires': t})
                # the count stored in the fields must be the number of uses
                stored = fields.get('use_count')
                ctx.check(stored == n, 'R4', key + ':count', mod, fn,
                          "the stored count is %r, not the number of uses (%d)" % (stored, n),
                          "message reports a wrong count", construct='self.fields[field_name] = len(uses)')


def _uses_expr(fn):
    """Normalised statements computing `uses`/`calls` in a condition (all but the return)."""
    out = []
    for st in fn.body:
        if isinstance(st, ast.Expr) and isinstance(st.value, ast.Constant):
            continue
        if isinstance(st, ast.Return):
            continue
        if isinstance(st, ast.If) and any(True for _ in calls(st, 'update_location')) \
                and not any(True for _ in calls(st, 'find_all')) and not any(True for _ in calls(st, 'find_matches')):
            continue
        out.append(norm(st))
    return out


def r5_siblings(ctx, sym):
    ctx.rule('R5', "ensure_X and prevent_X compute their occurrence list by the same expression, return "
                   "_check_usage(<field>, uses), and report the location of an element of uses")
    mod = ctx.repo.module(STATIC)
    pairs = 0
    for q, cls in sorted(mod.classes.items()):
        if not q.startswith('ensure_'):
            continue
        other = 'prevent_' + q[len('ensure_'):]
        if other not in mod.classes:
            continue
        if 'condition' not in {s.name for s in cls.body if isinstance(s, ast.FunctionDef)}:
            continue
        e_fn = mod.func(q + '.condition')
        p_fn = mod.func(other + '.condition')
        ctx.analysed_function(mod, e_fn)
        ctx.analysed_function(mod, p_fn)
        if not any(True for _ in calls(e_fn, '_check_usage')):
            continue  # ensure_import / prevent_import: boolean siblings, checked below
        pairs += 1
        a, b = _uses_expr(e_fn), _uses_expr(p_fn)
        ctx.check(a == b, 'R5', '%s/%s:uses' % (q, other), mod, p_fn,
                  "the two siblings count different things: %s vs %s" % (a, b),
                  "a program for which ensure and prevent disagree about the number of occurrences",
                  construct='; '.join(b)[:200])
        for name, fn in ((q, e_fn), (other, p_fn)):
            rets = [n for n in body_walk(fn) if isinstance(n, ast.Return)]
            ok = len(rets) >= 1 and all(
                isinstance(r.value, ast.Call) and norm(r.value.func) == 'self._check_usage'
                and len(r.value.args) == 2 and isinstance(r.value.args[1], ast.Name) for r in rets)
            ctx.check(ok, 'R5', name + ':returns_check_usage', mod, fn,
                      "condition does not return self._check_usage(<field>, <uses>)",
                      "threshold logic bypassed", construct='return ...')
            if ok:
                uses_var = rets[-1].value.args[1].id
                for c in calls(fn, 'update_location'):
                    # location must be derived from an element of the uses list
                    srcs = [n for n in ast.walk(c) if isinstance(n, ast.Subscript)
                            and isinstance(n.value, ast.Name)]
                    okloc = bool(srcs) and all(s.value.id == uses_var for s in srcs)
                    ctx.check(okloc, 'R5', name + ':location', mod, c,
                              "reported location is not taken from one of the counted occurrences",
                              "feedback line does not point at an occurrence", construct=norm(c))
    ctx.floor('R5', 'ensure/prevent sibling pairs', pairs, 5)
    # import siblings: prevent = has_import, ensure = not has_import
    e = mod.func('ensure_import.condition')
    p = mod.func('prevent_import.condition')
    er = [n for n in body_walk(e) if isinstance(n, ast.Return)][-1].value
    pr = [n for n in body_walk(p) if isinstance(n, ast.Return)][-1].value
    ok = isinstance(er, ast.UnaryOp) and isinstance(er.op, ast.Not) and norm(er.operand) == norm(pr) \
        and isinstance(pr, ast.Call) and call_name(pr) == 'has_import'
    ctx.check(ok, 'R5', 'ensure_import/prevent_import', mod, e,
              "ensure_import/prevent_import are no longer complements over has_import",
              "a program importing the module", construct=norm(er) + ' / ' + norm(pr))


def r6_constant_split(ctx, sym):
    ctx.rule('R6', "the Constant split Bool/Num/Str is mutually exclusive and follows CPython value types "
                   "(bool tested by isinstance bool; Num excludes bool); installed as visit_Constant")
    mod = ctx.repo.module(NODE)
    fn = mod.func('CaitNode._handle_visit_constant')
    ctx.analysed_function(mod, fn)
    inner = [n for n in fn.body if isinstance(n, ast.FunctionDef)]
    ctx.require(inner, "_handle_visit_constant no longer defines the visitor closure")
    inner = inner[0]
    preds = {}
    for n in ast.walk(inner):
        if isinstance(n, ast.If) and isinstance(n.test, ast.BoolOp) and isinstance(n.test.op, ast.And):
            kind = None
            rest = []
            for v in n.test.values:
                if isinstance(v, ast.Compare) and isinstance(v.ops[0], ast.Eq) and \
                        isinstance(v.comparators[0], ast.Constant) and v.comparators[0].value in ('Bool', 'Num', 'Str'):
                    kind = v.comparators[0].value
                else:
                    rest.append(v)
            if kind:
                preds[kind] = rest
    ctx.require(set(preds) == {'Bool', 'Num', 'Str'}, "Constant split predicates not recognised: %s" % sorted(preds))

    def model(kind, value):
        res = True
        for v in preds[kind]:
            neg = False
            if isinstance(v, ast.UnaryOp) and isinstance(v.op, ast.Not):
                neg, v = True, v.operand
            if not (isinstance(v, ast.Call) and call_name(v) == 'isinstance' and norm(v.args[0]) == 'node.value'):
                raise AnalysisError("C08 R6: predicate %s outside the recognised isinstance idiom" % norm(v))
            types = v.args[1].elts if isinstance(v.args[1], ast.Tuple) else [v.args[1]]
            tys = tuple({'int': int, 'float': float, 'bool': bool, 'str': str, 'complex': complex,
                         'bytes': bytes}[t.id] for t in types)
            r = isinstance(value, tys)
            res = res and (not r if neg else r)
        return res
    reps = [True, False, 0, 1, -3, 2.5, 0.0, 'a', '', None, b'x', 1j, ...]
    want = {'Bool': lambda v: type(v) is bool, 'Num': lambda v: type(v) in (int, float),
            'Str': lambda v: type(v) is str}
    for kind in ('Bool', 'Num', 'Str'):
        for v in reps:
            got = model(kind, v)
            ctx.check(got == want[kind](v), 'R6', '_handle_visit_constant[%s](%r)' % (kind, v), mod, inner,
                      "a Constant holding %r is %s as %s" % (v, 'counted' if got else 'not counted', kind),
                      "program containing the literal %r with ensure_literal_type / find_all(%r)" % (v, kind),
                      construct='predicate for %s' % kind)
    fa = mod.func('CaitNode.find_all')
    ctx.analysed_function(mod, fa)
    ok = False
    for n in ast.walk(fa):
        if isinstance(n, ast.If):
            t = norm(n.test)
            if "in ('Num', 'Str', 'Bool')" in t:
                names = [s.value.value for s in n.body if isinstance(s, ast.Assign)
                         and isinstance(s.value, ast.Constant)]
                if names == ['visit_Constant']:
                    ok = True
    ctx.check(ok, 'R6', 'find_all:visit_Constant', mod, fa,
              "Num/Str/Bool pseudo-kinds are not installed under the real class name visit_Constant",
              "find_all('Num') on any program (ast.Num does not exist for the parser)", construct='find_all')


def r7_literal_identity(ctx, sym):
    ctx.rule('R7', "the one comparison of primitive field values in shallow_match_main (which decides "
                   "ensure_literal/prevent_literal) distinguishes values CPython's == identifies across "
                   "types (1 == True == 1.0): it must compare types as well as values")
    mod = ctx.repo.module(MATCH)
    fn = mod.func('StretchyTreeMatcher.shallow_match_main')
    ctx.analysed_function(mod, fn)
    sites = []
    for n in ast.walk(fn):
        if isinstance(n, ast.If) and isinstance(n.test, ast.Call) and call_name(n.test) == 'is_primitive':
            for st in n.body:
                if isinstance(st, ast.Assign) and norm(st.targets[0]) == 'is_match':
                    sites.append((n, st))
    ctx.require(len(sites) >= 1, "primitive-field comparison in shallow_match_main not found")
    for guard, st in sites:
        a = norm(guard.test.args[0])
        v = st.value
        verdict = classify_typed_equality(v, mod, sym)
        if verdict is None:
            raise AnalysisError("C08 R7: comparison %s is outside the recognised idioms" % norm(v))
        ctx.check(verdict, 'R7', 'shallow_match_main:primitive_compare', mod, st,
                  "primitive fields are compared with a bare `==`, which identifies 1, True and 1.0 "
                  "(and 0, False, 0.0): a literal of another type counts as an occurrence",
                  "prevent_literal(1) fires on the program `x = True` / `y = 1.0`; ensure_literal(0) is "
                  "satisfied by `False`")


def classify_typed_equality(v, mod, sym):
    """True: type-aware equality; False: bare equality; None: unknown shape."""
    if isinstance(v, ast.Compare) and len(v.ops) == 1 and isinstance(v.ops[0], ast.Eq):
        sides = norm(v.left) + norm(v.comparators[0])
        # (type(a), a) == (type(b), b) style
        if 'type(' in norm(v.left) and 'type(' in norm(v.comparators[0]):
            return True
        return False
    if isinstance(v, ast.BoolOp) and isinstance(v.op, ast.And):
        has_eq = any(isinstance(x, ast.Compare) and isinstance(x.ops[0], ast.Eq) and 'type(' not in norm(x)
                     for x in v.values)
        has_type = any(isinstance(x, ast.Compare) and isinstance(x.ops[0], (ast.Is, ast.Eq))
                       and norm(x).count('type(') == 2 for x in v.values)
        if has_eq and has_type:
            return True
        if has_eq and not has_type:
            # is_match and a == b
            others = [x for x in v.values if not (isinstance(x, ast.Compare))]
            if all(isinstance(x, ast.Name) for x in others):
                return False
        return None
    if isinstance(v, ast.Call):
        cn = call_name(v)
        if cn:
            r = sym.resolve_name(mod, cn.split('.')[-1])
            if r and not isinstance(r, tuple):
                return None
            if r and r[0] == 'func':
                rets = [n for n in body_walk(r[2]) if isinstance(n, ast.Return)]
                if len(rets) == 1:
                    return classify_typed_equality(rets[0].value, r[1], sym)
    return None


def r8_program_identity(ctx, sym):
    ctx.rule('R8', "the tree the ensure_*/prevent_* checks walk is the tree of the code asked for: reparse_if_needed "
                   "(decision table by abstract interpretation over call sequences with and without explicit "
                   "student_code, cached or not) leaves cait['ast'] bound to the parse of the requested code")
    mod = ctx.repo.module('pedal.cait.cait_api')
    fn = mod.func('reparse_if_needed')
    ctx.analysed_function(mod, fn)
    tool = sym.const(mod, ast.parse('TOOL_NAME', mode='eval').body)
    src_tool = sym.const(mod, ast.parse('SOURCE_TOOL_NAME', mode='eval').body)
    from ..fdeval import Raised
    sequences = [[None], [None, None], ['OTHER', None], [None, 'OTHER', None], ['OTHER', 'OTHER', None, 'THIRD', None],
                 ['OTHER']]
    for source_ok in (True, False):
        for seq in sequences:
            cait = {'cache': {}, 'ast': None, 'success': True, 'error': None}
            source = {'success': source_ok, 'ast': ('source-ast', 'MAIN')}
            report = Obj('report', submission=Obj('submission', main_code='MAIN'))
            report.attrs['method:__getitem__'] = lambda k: {tool: cait, src_tool: source}[k]
            for i, code in enumerate(seq):
                fd = FD()
                fd.resolver = lambda n: {'TOOL_NAME': tool, 'SOURCE_TOOL_NAME': src_tool}[n]
                fd.calls['_parse_source'] = lambda c, report=None: ('parsed', c)
                fd.calls['CaitNode'] = lambda a, report=None: ('cait', a)
                try:
                    got = fd.call_function(fn, [], {'student_code': code, 'report': report})
                except (Raised, Inconclusive) as e:
                    raise AnalysisError("C08 R8: reparse_if_needed outside the decidable fragment: %s" % e)
                want_code = code if code is not None else 'MAIN'
                tree = cait['ast']
                ok = got is cait and isinstance(tree, tuple) and tree[0] == 'cait' and tree[1][1] == want_code
                key = 'reparse_if_needed[%s,source_ok=%s]@%d' % (','.join(str(c) for c in seq), source_ok, i)
                ctx.check(ok, 'R8', key, mod, fn,
                          "after the calls %s the tree handed to the static checks is %r, not the parse of %r" % (
                              seq[:i + 1], tree, want_code),
                          "find_asts('For', student_code=REFERENCE) followed by ensure_ast('While') on the submission: "
                          "the check counts nodes of the reference solution", construct='reparse_if_needed')
                if not ok:
                    break
    pp = mod.func('parse_program')
    ok = any(call_name(c) == 'reparse_if_needed' for c in calls(pp))
    ctx.check(ok, 'R8', 'parse_program:uses-reparse', mod, pp, "parse_program no longer goes through reparse_if_needed",
              "static checks see a stale tree")


def run(ctx):
    sym = Symbols(ctx.repo)
    r8_program_identity(ctx, sym)
    tables = r1_symbol_tables(ctx, sym)
    r2_name_plumbing(ctx, sym)
    r3_finder(ctx, sym, tables)
    r4_thresholds(ctx, sym)
    r5_siblings(ctx, sym)
    r6_constant_split(ctx, sym)
    r7_literal_identity(ctx, sym)
    ctx.assume("the parsed program handed to find_all/find_matches is CPython's ast of the submission "
               "(C12.R4); counts for individual programs are not enumerated")
