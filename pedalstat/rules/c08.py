"""C08 - static ensure_*/prevent_* checks agree with the student's actual syntax tree."""
import ast

from ..astutil import dotted, calls, walk_local, body_walk, call_name
from ..fdeval import FD, Obj, truth, Inconclusive, UNKNOWN, Raised
from ..loader import AnalysisError, norm
from ..symbols import Symbols

OPS = 'pedal.utilities.operators'
FIND = 'pedal.cait.find_node'
STATIC = 'pedal.assertions.static'
NODE = 'pedal.cait.cait_node'
MATCH = 'pedal.cait.stretchy_tree_matching'

TABLE_KIND = {'COMPARE_OP_NAMES': 'Compare', 'BOOL_OP_NAMES': 'BoolOp',
              'BIN_OP_NAMES': 'BinOp', 'UNARY_OP_NAMES': 'UnaryOp'}


def cpython_op_class(symbol, kind):
    """Class name CPython's own parser assigns to an operator symbol (the oracle; no pedal code)."""
    if kind == 'Compare':
        return type(ast.parse("a %s b" % symbol, mode='eval').body.ops[0]).__name__
    if kind == 'BoolOp':
        return type(ast.parse("a %s b" % symbol, mode='eval').body.op).__name__
    if kind == 'BinOp':
        return type(ast.parse("a %s b" % symbol, mode='eval').body.op).__name__
    if kind == 'UnaryOp':
        return type(ast.parse("%s a" % symbol, mode='eval').body.op).__name__
    raise AssertionError(kind)


def extract_tables(ctx, sym):
    mod = ctx.repo.module(OPS)
    tables = {}
    for name in TABLE_KIND:
        expr = mod.top_assign(name)
        try:
            value = sym.const(mod, expr)
        except KeyError as e:
            raise AnalysisError("C08 R1: %s is no longer a literal table (%s)" % (name, e))
        ctx.require(isinstance(value, dict), "%s is not a dict" % name)
        tables[name] = (value, expr)
    return mod, tables


def r1_symbol_tables(ctx, sym):
    ctx.rule('R1', "each row of COMPARE/BOOL/BIN/UNARY_OP_NAMES maps the symbol to the class name "
                   "CPython's parser gives that symbol (oracle: ast.parse on this interpreter)")
    mod, tables = extract_tables(ctx, sym)
    rows = 0
    for name, (table, expr) in tables.items():
        kind = TABLE_KIND[name]
        for symbol, cls_name in table.items():
            rows += 1
            key = "%s[%r]" % (name, symbol)
            try:
                oracle = cpython_op_class(symbol, kind)
            except SyntaxError:
                ctx.fail('R1', key, mod, expr,
                         "symbol %r is not a %s operator for CPython's parser" % (symbol, kind),
                         "find_operation(%r) can never match" % symbol, construct="%r: %r" % (symbol, cls_name))
                continue
            node = expr
            if isinstance(expr, ast.Dict):
                for k, v in zip(expr.keys, expr.values):
                    if isinstance(k, ast.Constant) and k.value == symbol:
                        node = v
            ctx.check(cls_name == oracle, 'R1', key, mod, node,
                      "table maps %r to %r but CPython parses it as ast.%s; find_operation compares the "
                      "row with type(node).__name__, so the lookup %s" % (
                          symbol, cls_name, oracle,
                          "never matches" if not hasattr(ast, str(cls_name)) else "returns the other operator's nodes"),
                      "student program `a %s b` with ensure_operation(%r) / prevent_operation(%r)" % (
                          symbol, symbol, symbol),
                      sample={'symbol': symbol, 'table': cls_name, 'cpython': oracle},
                      construct="%r: %r" % (symbol, cls_name))
    ctx.floor('R1', 'operator table rows', rows, 25)
    # documented symbols that must be present (property: all comparison, boolean, binary symbols)
    documented = {
        'COMPARE_OP_NAMES': ['==', '!=', '<', '<=', '>', '>=', 'is', 'is not', 'in', 'not in'],
        'BOOL_OP_NAMES': ['and', 'or'],
        'BIN_OP_NAMES': ['+', '-', '*', '/', '//', '%', '**', '>>', '<<', '|', '^', '&', '@'],
        'UNARY_OP_NAMES': ['not', '~'],
    }
    for name, symbols in documented.items():
        for s in symbols:
            ctx.check(s in tables[name][0], 'R1', "%s[%r]:present" % (name, s), mod, tables[name][1],
                      "documented operator symbol %r has no row in %s" % (s, name),
                      "find_operation(%r) silently returns []" % s, construct=name)
    return tables


class CaitModel:
    """Model CaitNodes whose derived attributes (ast_name, op_name, ops, func, ...) are computed by interpreting
    CaitNode.__getattr__ itself over model ast objects."""

    def __init__(self, ctx, sym):
        from ..fdeval import module_resolver
        self.mod = ctx.repo.module(NODE)
        self.cls = self.mod.cls('CaitNode')
        self.ga = self.mod.func('CaitNode.__getattr__')
        self.gan = self.mod.func('CaitNode.get_ast_name')
        ctx.analysed_function(self.mod, self.ga)
        ctx.analysed_function(self.mod, self.gan)
        self.sym = sym

    def configure(self, fd):
        """Teach an interpreter the handful of reflection builtins __getattr__ uses, on model objects."""
        def b_type(o):
            if isinstance(o, Obj):
                return Obj('type', __name__=o.attrs.get('__astclass__', o._name), __closed__=True)
            return Obj('type', __name__=type(o).__name__, __closed__=True)

        def b_hasattr(o, k):
            if isinstance(o, Obj):
                return k in o.attrs and not k.startswith('__')
            return hasattr(o, k)

        def b_isinstance(o, t):
            ts = t if isinstance(t, tuple) else (t,)
            for x in ts:
                if x == 'ast.AST' and isinstance(o, Obj) and '__astclass__' in o.attrs:
                    return True
                if isinstance(x, type) and not isinstance(o, Obj) and isinstance(o, x):
                    return True
            return False
        fd.calls.setdefault('type', b_type)
        fd.calls.setdefault('hasattr', b_hasattr)
        fd.calls.setdefault('isinstance', b_isinstance)
        fd.functions.setdefault('CaitNode.get_ast_name', self.gan)
        return fd

    def ast(self, cls, **fields):
        o = Obj('ast.' + cls, **fields)
        o.attrs['__astclass__'] = cls
        o.attrs['__closed__'] = True

        def getattribute(k):
            if k in o.attrs and not k.startswith('__'):
                return o.attrs[k]
            from ..fdeval import Raised
            raise Raised('AttributeError', "'%s' object has no attribute %r" % (cls, k))
        o.attrs['method:__getattribute__'] = getattribute
        self.node(o)
        return o

    def node(self, astobj):
        n = Obj('CaitNode<%s>' % astobj.attrs['__astclass__'], astNode=astobj)
        n.attrs['__classdef__'] = self.cls
        n.attrs['__closed__'] = True
        astobj.attrs['cait_node'] = n
        return n

    def fd(self, mod):
        from ..fdeval import module_resolver
        fd = FD(max_steps=200000, resolver=module_resolver(self.sym, mod, extra={'ast.AST': 'ast.AST'}))
        return self.configure(fd)


def r2_name_plumbing(ctx, sym):
    ctx.rule('R2', "CaitNode.__getattr__, interpreted over model ast objects: ast_name is the node's class name, "
                   "op_name the class name of its op field, .ops/.func/.left are the child nodes' CaitNodes (so table "
                   "rows are compared with CPython class names)")
    from ..fdeval import Raised
    cm = CaitModel(ctx, sym)
    fd = cm.fd(cm.mod)
    env = {}

    def attr(node, name):
        try:
            return fd.eval(ast.parse('n.%s' % name, mode='eval').body, {'n': node})
        except Raised as e:
            return 'raises %s' % e.kind
        except Inconclusive as e:
            raise AnalysisError("C08 R2: CaitNode.__getattr__ outside the decidable fragment: %s" % e)
    add = cm.ast('Add')
    binop = cm.ast('BinOp', left=cm.ast('Name', id='a'), op=add, right=cm.ast('Name', id='b'))
    lt, lte = cm.ast('Lt'), cm.ast('LtE')
    cmp_ = cm.ast('Compare', left=cm.ast('Name', id='a'), ops=[lt, lte], comparators=[cm.ast('Name', id='b'),
                                                                                        cm.ast('Name', id='c')])
    call = cm.ast('Call', func=cm.ast('Attribute', value=cm.ast('Name', id='x'), attr='f'), args=[], keywords=[])
    cases = [
        ('BinOp.ast_name', attr(binop.attrs['cait_node'], 'ast_name'), 'BinOp'),
        ('BinOp.op_name', attr(binop.attrs['cait_node'], 'op_name'), 'Add'),
        ('Compare.ast_name', attr(cmp_.attrs['cait_node'], 'ast_name'), 'Compare'),
        ('Compare.ops', attr(cmp_.attrs['cait_node'], 'ops'), [lt.attrs['cait_node'], lte.attrs['cait_node']]),
        ('Lt.ast_name', attr(lt.attrs['cait_node'], 'ast_name'), 'Lt'),
        ('Call.func', attr(call.attrs['cait_node'], 'func'), call.attrs['func'].attrs['cait_node']),
        ('Attribute.attr', attr(call.attrs['func'].attrs['cait_node'], 'attr'), 'f'),
        ('Attribute.ast_name', attr(call.attrs['func'].attrs['cait_node'], 'ast_name'), 'Attribute'),
        ('Name.id', attr(binop.attrs['left'].attrs['cait_node'], 'id'), 'a'),
    ]
    for name, got, want in cases:
        same = (got is want) or (isinstance(want, (str, list)) and isinstance(got, type(want)) and (
            got == want if isinstance(want, str) else len(got) == len(want) and all(x is y for x, y in zip(got, want))))
        ctx.check(same, 'R2', 'CaitNode.__getattr__:' + name, cm.mod, cm.ga,
                  "%s evaluates to %r on the model node, expected %r" % (name, got, want),
                  "find_operation / find_function_calls compare this attribute with CPython class names",
                  construct=name)


OP_CLASSES = {
    'Compare': ['Eq', 'NotEq', 'Lt', 'LtE', 'Gt', 'GtE', 'Is', 'IsNot', 'In', 'NotIn'],
    'BoolOp': ['And', 'Or'],
    'BinOp': ['Add', 'Sub', 'Mult', 'MatMult', 'Div', 'Mod', 'Pow', 'LShift', 'RShift', 'BitOr', 'BitXor', 'BitAnd',
              'FloorDiv'],
    'UnaryOp': ['Invert', 'Not', 'UAdd', 'USub'],
}


def model_tree(cm):
    """A model program containing one node per operator class of every kind, plus chained comparisons. find_all(kind)
    returns the nodes of that kind (CaitNode.find_all's own behaviour is R6's subject); every other attribute of a
    node is computed by CaitNode.__getattr__ itself."""
    by_kind = {}

    def name(x):
        return cm.ast('Name', id=x)
    for kind, classes in OP_CLASSES.items():
        nodes = []
        for cls in classes:
            if kind == 'Compare':
                a = cm.ast('Compare', left=name('a'), ops=[cm.ast(cls)], comparators=[name('b')])
            elif kind == 'BoolOp':
                a = cm.ast('BoolOp', op=cm.ast(cls), values=[name('a'), name('b')])
            elif kind == 'BinOp':
                a = cm.ast('BinOp', left=name('a'), op=cm.ast(cls), right=name('b'))
            else:
                a = cm.ast('UnaryOp', op=cm.ast(cls), operand=name('a'))
            n = a.attrs['cait_node']
            n.attrs['__ops__'] = [cls]
            n._name = '%s[%s]' % (kind, cls)
            nodes.append(n)
        by_kind[kind] = nodes
    for chain in (['Lt', 'LtE'], ['Lt', 'Lt'], ['Eq', 'NotEq', 'Eq']):
        a = cm.ast('Compare', left=name('a'), ops=[cm.ast(c) for c in chain],
                   comparators=[name('b') for _ in chain])
        n = a.attrs['cait_node']
        n.attrs['__ops__'] = list(chain)
        n._name = 'Compare[%s]' % ','.join(chain)
        by_kind['Compare'].append(n)
    root = Obj('root', __open__=True)
    root.attrs['method:find_all'] = lambda kind, *a, **k: list(by_kind.get(kind, [])) if isinstance(kind, str) else \
        [n for kk in kind for n in by_kind.get(kk, [])]
    return root, by_kind


def r3_finder(ctx, sym, tables):
    ctx.rule('R3', "find_operation, executed abstractly for every operator symbol CPython knows (and some non-symbols) "
                   "on a model tree holding one node per operator class of every kind plus chained comparisons: it "
                   "returns exactly the nodes whose operator class is the one CPython's parser assigns to the symbol "
                   "(a chained comparison once per matching operator); find_function_calls likewise returns exactly "
                   "the calls whose callee is a Name/Attribute with that name")
    from ..fdeval import FD, Raised, module_resolver
    mod = ctx.repo.module(FIND)
    fn = mod.func('find_operation')
    ctx.analysed_function(mod, fn)
    cm = CaitModel(ctx, sym)
    symbols = {'Compare': ['==', '!=', '<', '<=', '>', '>=', 'is', 'is not', 'in', 'not in'],
               'BoolOp': ['and', 'or'],
               'BinOp': ['+', '-', '*', '@', '/', '%', '**', '<<', '>>', '|', '^', '&', '//'],
               'UnaryOp': ['~', 'not']}
    n = 0
    for kind, syms in symbols.items():
        for symbol in syms:
            n += 1
            root, by_kind = model_tree(cm)
            fd = cm.fd(mod)
            fd.calls['parse_program'] = lambda *a, **k: root
            try:
                got = fd.call_function(fn, [symbol, root])
            except Raised as e:
                got = 'raises %s' % e.kind
            except Inconclusive as e:
                raise AnalysisError("C08 R3: find_operation outside the decidable fragment: %s" % e)
            cls = cpython_op_class(symbol, kind)
            want = [node for node in by_kind[kind] for c in node.attrs['__ops__'] if c == cls]
            ok = isinstance(got, list) and len(got) == len(want) and all(a is b for a, b in zip(got, want))
            ctx.check(ok, 'R3', 'find_operation(%r)' % symbol, mod, fn,
                      "find_operation(%r) on the model tree returns %s; CPython parses %r as %s, so the answer is %s" % (
                          symbol, got, symbol, cls, want),
                      "ensure_operation(%r) / prevent_operation(%r) on a program using %s" % (symbol, symbol, cls),
                      construct='find_operation')
    # binary symbols that are also unary (+, -): BinOp wins in the documented chain; a non-symbol finds nothing
    for symbol in ('<>', 'plus', ''):
        root, by_kind = model_tree(cm)
        fd = cm.fd(mod)
        try:
            got = fd.call_function(fn, [symbol, root])
        except Raised as e:
            got = 'raises %s' % e.kind
        except Inconclusive as e:
            raise AnalysisError("C08 R3: find_operation outside the decidable fragment: %s" % e)
        ctx.check(got == [], 'R3', 'find_operation(%r):non-symbol' % symbol, mod, fn,
                  "find_operation(%r) returns %s for something that is not an operator" % (symbol, got),
                  "prevent_operation(%r) fires on arbitrary programs" % symbol)
    ctx.floor('R3', 'operator symbols executed', n, 25)
    names = list(tables)
    for i, a in enumerate(names):
        for b in names[i + 1:]:
            inter = set(tables[a][0]) & set(tables[b][0])
            ctx.check(not inter, 'R3', 'disjoint:%s/%s' % (a, b), ctx.repo.module(OPS), tables[b][1],
                      "symbols %s appear in both tables; the elif chain shadows the second" % sorted(inter),
                      "find_operation(%r)" % (sorted(inter)[0] if inter else ''), construct='%s & %s' % (a, b))
    # find_function_calls
    fc = mod.func('find_function_calls')
    ctx.analysed_function(mod, fc)

    def call_node(tag, func):
        n = cm.ast('Call', func=func, args=[], keywords=[]).attrs['cait_node']
        n._name = 'Call[%s]' % tag
        return n
    model_calls = [
        call_node('f()', cm.ast('Name', id='f')),
        call_node('g()', cm.ast('Name', id='g')),
        call_node('x.f()', cm.ast('Attribute', value=cm.ast('Name', id='x'), attr='f')),
        call_node('x.g()', cm.ast('Attribute', value=cm.ast('Name', id='x'), attr='g')),
        call_node('f.g()', cm.ast('Attribute', value=cm.ast('Name', id='f'), attr='g')),
        call_node('h()()', cm.ast('Call', func=cm.ast('Name', id='h'), args=[], keywords=[])),
        call_node('t[0]()', cm.ast('Subscript', value=cm.ast('Name', id='t'), slice=cm.ast('Constant', value=0))),
    ]
    for name, want_tags in (('f', ['f()', 'x.f()']), ('g', ['g()', 'x.g()', 'f.g()']), ('x', []), ('h', [])):
        root = Obj('root', __open__=True)
        root.attrs['method:find_all'] = lambda kind, *a, **k: list(model_calls) if kind == 'Call' else []
        fd = cm.fd(mod)
        fd.calls['parse_program'] = lambda *a, **k: root
        try:
            got = fd.call_function(fc, [name, root])
        except Raised as e:
            got = 'raises %s (%s)' % (e.kind, e.detail)
        except Inconclusive as e:
            raise AnalysisError("C08 R3: find_function_calls outside the decidable fragment: %s" % e)
        tags = [g._name[5:-1] for g in got] if isinstance(got, list) else got
        ctx.check(tags == want_tags, 'R3', 'find_function_calls(%r)' % name, mod, fc,
                  "find_function_calls(%r) on the model calls returns %s, expected %s" % (name, tags, want_tags),
                  "ensure_function_call(%r) on a program calling f(), x.f(), h()() and t[0]()" % name,
                  construct='find_function_calls')


def r4_thresholds(ctx, sym):
    ctx.rule('R4', "decision table of ensure/prevent _check_usage over (threshold, count) in 0..4 squared: "
                   "ensure fires iff count < at_least; prevent fires iff count > at_most")
    mod = ctx.repo.module(STATIC)
    for cls, field, oracle in (
            ('EnsureAssertionFeedback', 'at_least', lambda th, n: n < th),
            ('PreventAssertionFeedback', 'at_most', lambda th, n: n > th)):
        fn = mod.func(cls + '._check_usage')
        ctx.analysed_function(mod, fn)
        params = [a.arg for a in fn.args.args]
        ctx.require(len(params) == 3, "%s._check_usage signature changed" % cls)
        for th in range(5):
            for n in range(5):
                fields = {field: th, 'capacity': ''}
                env = {params[0]: Obj('self', fields=fields), params[1]: 'use_count', params[2]: list(range(n))}
                fd = FD()
                try:
                    from ..fdeval import Raised
                    result = fd.run(fn.body, env)
                except Inconclusive as e:
                    raise AnalysisError("C08 R4: %s._check_usage outside the decidable fragment: %s" % (cls, e))
                t = truth(result) if result is not None else False
                key = "%s._check_usage(%s=%d,count=%d)" % (cls, field, th, n)
                ctx.check(t is not None and bool(t) == oracle(th, n), 'R4', key, mod, fn,
                          "returns %r for %s=%d and %d uses; the property requires %s" % (
                              result, field, th, n, oracle(th, n)),
                          "%s(..., %s=%d) on a program with %d occurrence(s)" % (
                              'ensure_X' if cls.startswith('Ensure') else 'prevent_X', field, th, n),
                          construct='_check_usage', sample={'threshold': th, 'count': n, 'fires': t})
                # the count stored in the fields must be the number of uses
                stored = fields.get('use_count')
                ctx.check(stored == n, 'R4', key + ':count', mod, fn,
                          "the stored count is %r, not the number of uses (%d)" % (stored, n),
                          "message reports a wrong count", construct='self.fields[field_name] = len(uses)')


def _uses_expr(fn):
    """Normalised statements computing `uses`/`calls` in a condition (all but the return)."""
    out = []
    for st in fn.body:
        if isinstance(st, ast.Expr) and isinstance(st.value, ast.Constant):
            continue
        if isinstance(st, ast.Return):
            continue
        if isinstance(st, ast.If) and any(True for _ in calls(st, 'update_location')) \
                and not any(True for _ in calls(st, 'find_all')) and not any(True for _ in calls(st, 'find_matches')):
            continue
        out.append(norm(st))
    return out


def r5_siblings(ctx, sym):
    ctx.rule('R5', "ensure_X and prevent_X, both executed abstractly on the same model program (the finders are stubs "
                   "that record the query and hand back marker nodes): the two siblings hand _check_usage the same "
                   "occurrences - obtained by the same finder queries -, return its verdict, and any location they "
                   "report is taken from one of those occurrences")
    from .. import symexec
    from ..fdeval import Raised
    mod = ctx.repo.module(STATIC)
    pairs = 0
    for q, cls in sorted(mod.classes.items()):
        if not q.startswith('ensure_'):
            continue
        other = 'prevent_' + q[len('ensure_'):]
        if other not in mod.classes:
            continue
        e_ci, p_ci = sym.find_class(STATIC, q), sym.find_class(STATIC, other)
        e_m, p_m = sym.method(e_ci, 'condition'), sym.method(p_ci, 'condition')
        if e_m is None or p_m is None or q in ('ensure_import',):
            continue  # ensure_import / prevent_import: boolean siblings, checked below
        ctx.analysed_function(e_m[0].module, e_m[1])
        ctx.analysed_function(p_m[0].module, p_m[1])
        scenarios = [dict(name='x', literal=5, literal_type=t) for t in (int, str, bool, list, dict, float)] \
            if 'literal_type' in q else [dict(name='x', literal=5, literal_type=int)]
        decided = 0
        for fields in scenarios:
            outcome = {}
            for cname, m in ((q, e_m), (other, p_m)):
                queries = []
                pool = {}

                def found(finder, *args, **kw):
                    key = (finder,) + tuple(a for a in args if isinstance(a, (str, int, float, bool, type(None)))) + \
                        tuple(sorted((k, v) for k, v in kw.items() if isinstance(v, (str, int, float, bool))))
                    queries.append(key)
                    if key not in pool:
                        nodes = []
                        for i in range(2):
                            n_ = Obj('node:%s#%d' % ('/'.join(map(str, key)), i), value=1 if i == 0 else 1.5,
                                     lineno=10 + i, __open__=True)
                            n_.attrs['match_root'] = n_
                            symexec.method(n_, 'match_location', lambda *a, n_=n_: ('location-of', n_))
                            nodes.append(n_)
                        pool[key] = nodes
                    return list(pool[key])
                root = Obj('root')
                symexec.method(root, 'find_all', lambda *a, **k: found('find_all', *a, **k))
                symexec.method(root, 'find_matches', lambda *a, **k: found('find_matches', *a, **k))
                rec = symexec.Recorder()
                verdict = symexec.marker('verdict-of-_check_usage')
                fmt = Obj('format', __open__=True)
                fmt.attrs['__unknown_method__'] = lambda n, *a, **k: 'formatted'
                me = symexec.self_obj(m[0].module, cname, fields=dict(fields, root=root),
                                      report=Obj('report', format=fmt))
                symexec.method(me, '_check_usage', rec.stub('_check_usage', ret=verdict))
                symexec.method(me, 'update_location', rec.stub('update_location'))
                fd = symexec.new_fd(sym, m[0].module, calls={
                    'find_function_calls': lambda *a, **k: found('find_function_calls', *a),
                    'find_operation': lambda *a, **k: found('find_operation', *a),
                    'Location.from_ast': lambda n_: ('location-of', n_), 'repr': repr,
                    'isinstance': lambda o, t: isinstance(o, t) if isinstance(t, (type, tuple)) else False},
                    extra={'AST_NODE_NAMES': {}})
                try:
                    got = fd.call_function(m[1], [], bound_self=me)
                except (Raised, Inconclusive) as ex:
                    outcome = None
                    break
                usage = rec.named('_check_usage')
                locs = rec.named('update_location')
                uses = usage[0][1][1] if len(usage) == 1 and len(usage[0][1]) >= 2 else None
                outcome[cname] = dict(got=got, verdict=verdict, uses=uses, field=usage[0][1][0] if usage else None,
                                      queries=sorted(set(queries)), locs=locs, n_usage=len(usage))
            if outcome is None:
                continue
            decided += 1
            tag = '%s/%s%s' % (q, other, '[%s]' % fields['literal_type'].__name__ if 'literal_type' in q else '')
            e_o, p_o = outcome[q], outcome[other]

            def names(xs):
                return [getattr(x, '_name', x) for x in xs] if isinstance(xs, list) else xs
            ctx.check(e_o['uses'] is not None and p_o['uses'] is not None and names(e_o['uses']) == names(p_o['uses'])
                      and e_o['queries'] == p_o['queries'], 'R5', tag + ':uses', mod, p_m[1],
                      "the two siblings count different things: %s via %s vs %s via %s" % (
                          names(e_o['uses']), e_o['queries'], names(p_o['uses']), p_o['queries']),
                      "a program for which ensure and prevent disagree about the number of occurrences")
            for cname, o in ((q, e_o), (other, p_o)):
                ctx.check(o['n_usage'] == 1 and o['got'] is o['verdict'], 'R5', cname + ':returns_check_usage' + tag[len(q) + len(other) + 1:],
                          mod, (e_m if cname == q else p_m)[1],
                          "condition does not return the verdict of one self._check_usage(<field>, <occurrences>) call",
                          "threshold logic bypassed")
                for ev in o['locs']:
                    arg = ev[1][0] if ev[1] else None
                    src = arg[1] if isinstance(arg, tuple) and arg and arg[0] == 'location-of' else None
                    line_of = [u for u in (o['uses'] or []) if isinstance(u, Obj) and u.attrs.get('lineno') == arg]
                    ctx.check((src is not None and any(src is u for u in (o['uses'] or []))) or bool(line_of), 'R5',
                              cname + ':location' + tag[len(q) + len(other) + 1:], mod, (e_m if cname == q else p_m)[1],
                              "reported location %r is not taken from one of the counted occurrences" % (arg,),
                              "feedback line does not point at an occurrence")
        if decided:
            pairs += 1
        else:
            # conditions outside the fragment: compare the statements computing the occurrences textually
            a_, b_ = _uses_expr(e_m[1]), _uses_expr(p_m[1])
            pairs += 1
            ctx.check(a_ == b_, 'R5', '%s/%s:uses' % (q, other), mod, p_m[1],
                      "the two siblings count different things (textual fallback): %s vs %s" % (a_, b_),
                      "a program for which ensure and prevent disagree about the number of occurrences")
    ctx.floor('R5', 'ensure/prevent sibling pairs', pairs, 5)
    # import siblings, executed abstractly on a model program: ensure_import fires exactly when the queried name is
    # not the module of an `import M [as A]` / `from M import ...` statement, prevent_import exactly when it is
    from .. import symexec
    from ..fdeval import Raised
    e = mod.func('ensure_import.condition')
    p = mod.func('prevent_import.condition')
    ctx.analysed_function(mod, e)
    ctx.analysed_function(mod, p)
    cm = CaitModel(ctx, sym)
    programs = {
        'import numpy as np; import json as math; from os import path; import random': (
            [[('numpy', 'np')], [('json', 'math')], [('random', None)]], ['os']),
        'import math, sys as system': ([[('math', None), ('sys', 'system')]], []),
        'x = 1': ([], []),
    }
    for text, (imports, froms) in programs.items():
        modules = {m for names in imports for m, _ in names} | set(froms)
        import_nodes = [cm.ast('Import', names=[cm.ast('alias', name=m, asname=a) for m, a in names])
                        for names in imports]
        from_nodes = [cm.ast('ImportFrom', module=m, names=[cm.ast('alias', name='path', asname=None)], level=0)
                      for m in froms]
        root = cm.ast('Module', body=import_nodes + from_nodes).attrs['cait_node']

        def find_all(kind, *a, **k):
            return [n.attrs['cait_node'] for n in (import_nodes if kind == 'Import' else
                                                   from_nodes if kind == 'ImportFrom' else [])]
        root.attrs['method:find_all'] = find_all
        for query in ('numpy', 'np', 'json', 'math', 'os', 'path', 'random', 'sys', 'system', 'turtle'):
            for cls_name, fn, fires_when_imported in (('ensure_import', e, False), ('prevent_import', p, True)):
                me = symexec.self_obj(mod, cls_name, fields={'name': query, 'root': root})
                fd = cm.configure(symexec.new_fd(sym, mod, extra={'ast.AST': 'ast.AST'}))
                got, raised = symexec.run(fd, fn, [], bound_self=me, what=cls_name + '.condition')
                want = (query in modules) == fires_when_imported
                outcome = ('raises %s' % raised.kind) if raised is not None else truth(got)
                ctx.check(raised is None and truth(got) is want, 'R5', '%s[%s in %r]' % (cls_name, query, text),
                          mod, fn,
                          "%s(%r) on the program `%s` %s; the program %s the module %r, so it must %s" % (
                              cls_name, query, text, 'fires' if outcome is True else
                              'stays silent' if outcome is False else outcome,
                              'imports' if query in modules else 'does not import', query,
                              'fire' if want else 'stay silent'),
                          "student program `%s` with %s(%r)" % (text, cls_name, query))


def r6_constant_split(ctx, sym):
    ctx.rule('R6', "CaitNode.find_all, executed abstractly on a model program with a model of ast.NodeVisitor's "
                   "dispatch: find_all('Bool'/'Num'/'Str') return exactly the Constant nodes whose value has that "
                   "CPython type (bool is not a Num), find_all(<real class name>) exactly the nodes of that class, in "
                   "document order")
    from ..fdeval import Raised
    cm = CaitModel(ctx, sym)
    mod = cm.mod
    fa = mod.func('CaitNode.find_all')
    ctx.analysed_function(mod, fa)
    if mod.has_func('CaitNode._handle_visit_constant'):
        ctx.analysed_function(mod, mod.func('CaitNode._handle_visit_constant'))
    values = [True, False, 0, 1, -3, 2.5, 0.0, 'a', '', None, b'x', 1j, ...]
    consts = [cm.ast('Constant', value=v) for v in values]
    names = [cm.ast('Name', id='v%d' % i) for i in range(len(values))]
    stmts = [cm.ast('Assign', targets=[n], value=c) for n, c in zip(names, consts)]
    binop = cm.ast('BinOp', left=cm.ast('Name', id='p'), op=cm.ast('Add'), right=cm.ast('Constant', value=7))
    stmts.append(cm.ast('Expr', value=binop))
    # CPython hands out ONE instance per operator / context class: in `w * h * d` both BinOps share the same Mult
    # object (and so the same wrapper); a plain walk of the tree meets it twice - two occurrences
    mult = cm.ast('Mult')
    volume = cm.ast('BinOp', left=cm.ast('BinOp', left=cm.ast('Name', id='w'), op=mult, right=cm.ast('Name', id='h')),
                    op=mult, right=cm.ast('Name', id='d'))
    stmts.append(cm.ast('Expr', value=volume))
    module = cm.ast('Module', body=stmts)
    all_consts = consts + [binop.attrs['right']]
    doc_order = []

    def children(node):
        for k, v in node.attrs.items():
            if k.startswith('__') or k.startswith('method:') or k == 'cait_node':
                continue
            for x in (v if isinstance(v, list) else [v]):
                if isinstance(x, Obj) and '__astclass__' in x.attrs:
                    yield x

    def walk(node):
        doc_order.append(node)
        for c in children(node):
            walk(c)
    walk(module)

    def new_visitor():
        vis = Obj('NodeVisitor')

        def visit(node):
            m = vis.attrs.get('method:visit_' + node.attrs['__astclass__'])
            if m is not None:
                return m(node)
            return generic_visit(node)

        def generic_visit(node):
            for c in children(node):
                visit(c)
        vis.attrs['method:visit'] = visit
        vis.attrs['method:generic_visit'] = generic_visit
        return vis

    def b_setattr(o, name, value):
        if callable(value):
            o.attrs['method:' + name] = value
        else:
            o.attrs[name] = value

    def method_type(f, inst):
        return lambda *a, **k: f(inst, *a, **k)
    want = {'Bool': lambda v: type(v) is bool, 'Num': lambda v: type(v) in (int, float),
            'Str': lambda v: type(v) is str}
    queries = [(k, [c for c in all_consts if want[k](c.attrs['value'])]) for k in ('Bool', 'Num', 'Str')]
    queries.append(('Constant', list(all_consts)))
    queries.append(('BinOp', [binop, volume, volume.attrs['left']]))
    queries.append(('Mult', [mult]))
    queries.append(('Name', [n for n in doc_order if n.attrs['__astclass__'] == 'Name']))
    queries.append((['BinOp', 'Assign'], [n for n in doc_order if n.attrs['__astclass__'] in ('BinOp', 'Assign')]))
    queries.append(('While', []))
    for q, expect in queries:
        fd = cm.fd(mod)
        fd.calls['type'] = lambda o: type(o) if not isinstance(o, Obj) else Obj(
            'type', __name__=o.attrs.get('__astclass__', o._name), __closed__=True)
        fd.calls['ast.NodeVisitor'] = new_visitor
        fd.calls['setattr'] = b_setattr
        fd.calls['MethodType'] = method_type
        fd.calls['types.MethodType'] = method_type
        try:
            got = fd.call_function(fa, [q], bound_self=module.attrs['cait_node'])
        except Raised as e:
            got = 'raises %s (%s)' % (e.kind, e.detail)
        except Inconclusive as e:
            raise AnalysisError("C08 R6: CaitNode.find_all outside the decidable fragment: %s" % e)
        # (doc_order lists a shared node once per occurrence)
        want_nodes = [n.attrs['cait_node'] for n in doc_order if any(n is x for x in expect)]
        ok = isinstance(got, list) and len(got) == len(want_nodes) and all(x is y for x, y in zip(got, want_nodes))

        def show(nodes):
            if not isinstance(nodes, list):
                return nodes
            return [('Constant(%r)' % x.attrs['astNode'].attrs['value']) if isinstance(x, Obj) and
                    x.attrs.get('astNode') is not None and x.attrs['astNode'].attrs.get('__astclass__') == 'Constant'
                    else getattr(x, '_name', x) for x in nodes]
        ctx.check(ok, 'R6', 'find_all(%r)' % (q,), mod, fa,
                  "find_all(%r) on the model program returns %s, expected %s" % (q, show(got), show(want_nodes)),
                  "a program containing the literals %r with ensure_literal_type / find_all(%r)" % (values, q),
                  construct='find_all / _handle_visit_constant')


LITERALS = [1, True, 1.0, 0, False, 0.0, 2, 'a', 'b', '', None, b'a', 1j, ...]


def shallow_match_table(ctx, sym):
    """StretchyTreeMatcher.shallow_match_main executed abstractly on pairs of model nodes. Yields
    (tag, description, matched: bool | 'raises ...', should_match: bool)."""
    from ..fdeval import Raised
    cm = CaitModel(ctx, sym)
    mod = ctx.repo.module(MATCH)
    fn = mod.func('StretchyTreeMatcher.shallow_match_main')
    ctx.analysed_function(mod, fn)

    def iter_fields(node):
        return [(k, v) for k, v in node.attrs.items()
                if not k.startswith('__') and not k.startswith('method:') and k != 'cait_node']

    def run(ins, std, ignores=None, meta=True):
        fd = cm.fd(mod)
        fd.resolver = (lambda inner: (lambda name: 'ast.' + name[4:] if name.startswith('ast.') else inner(name)))(
            fd.resolver)
        base_isinstance = fd.calls['isinstance']

        def b_isinstance(o, t):
            ts = t if isinstance(t, tuple) else (t,)
            for x in ts:
                if isinstance(x, str) and x.startswith('ast.') and isinstance(o, Obj) and \
                        o.attrs.get('__astclass__') == x[4:]:
                    return True
            return base_isinstance(o, tuple(x for x in ts if not (isinstance(x, str) and x != 'ast.AST')))
        fd.calls['isinstance'] = b_isinstance
        fd.calls['type'] = lambda o: type(o) if not isinstance(o, Obj) else Obj(
            'type', __name__=o.attrs.get('__astclass__', o._name), __closed__=True)
        fd.calls['ast.iter_fields'] = iter_fields
        pairs = []
        amap = Obj('AstMap')
        amap.attrs['method:add_node_pairing'] = lambda a, b: pairs.append((a, b))
        fd.calls['AstMap'] = lambda: amap
        me = Obj('matcher')
        me.attrs['__classdef__'] = mod.cls('StretchyTreeMatcher')
        me.attrs['method:metas_match'] = lambda *a, **k: meta
        try:
            got = fd.call_function(fn, [ins.attrs['cait_node'], std.attrs['cait_node'], True, ignores],
                                   bound_self=me)
        except Raised as e:
            return 'raises %s (%s)' % (e.kind, e.detail)
        except Inconclusive as e:
            raise AnalysisError("shallow_match_main outside the decidable fragment: %s" % e)
        if isinstance(got, list) and len(got) == 1 and pairs == [(ins.attrs['cait_node'], std.attrs['cait_node'])]:
            return True
        if got == [] and not pairs:
            return False
        return 'returns %r' % (got,)

    def const(v):
        return cm.ast('Constant', value=v, kind=None)

    def name(x):
        return cm.ast('Name', id=x, ctx=cm.ast('Load'))
    for a in LITERALS:
        for b in LITERALS:
            yield ('literal', 'pattern literal %r against student literal %r' % (a, b), run(const(a), const(b)),
                   type(a) is type(b) and a == b)
    # equal values that are different objects (what two parses of the same text give): content, not identity, decides
    for a in (10 ** 20, 2.5, 1e300, 'two words, not interned', b'some bytes', 3 + 4j, -(10 ** 12)):
        twin = ast.literal_eval(repr(a))
        yield ('literal', 'pattern literal %r against an equal student literal that is another object' % (a,),
               run(const(a), const(twin)), True)
    twin_name = ''.join(['tot', 'al_cost'])
    yield ('content', 'Name total_cost against Name total_cost (another string object)',
           run(name('total_cost'), name(twin_name)), True)
    yield ('kind', 'Constant(1) against Name x', run(const(1), name('x')), False)
    yield ('kind', 'Name x against Constant(1)', run(name('x'), const(1)), False)
    yield ('kind', 'Compare against IfExp (same number of fields)',
           run(cm.ast('Compare', left=name('a'), ops=[cm.ast('Lt')], comparators=[name('b')]),
               cm.ast('IfExp', test=name('a'), body=name('b'), orelse=name('c'))), False)
    yield ('kind', 'operator Add against operator Sub (no fields at all)', run(cm.ast('Add'), cm.ast('Sub')), False)
    yield ('kind', 'Break against Continue', run(cm.ast('Break'), cm.ast('Continue')), False)
    yield ('kind', 'List against Tuple (identical field names)',
           run(cm.ast('List', elts=[name('a')], ctx=cm.ast('Load')),
               cm.ast('Tuple', elts=[name('a')], ctx=cm.ast('Load'))), False)
    yield ('kind', 'operator Add against operator Add', run(cm.ast('Add'), cm.ast('Add')), True)
    yield ('content', 'Name x against Name x', run(name('x'), name('x')), True)
    yield ('content', 'Name x against Name y', run(name('x'), name('y')), False)
    yield ('content', 'Attribute .f against Attribute .g',
           run(cm.ast('Attribute', value=name('o'), attr='f', ctx=cm.ast('Load')),
               cm.ast('Attribute', value=name('o'), attr='g', ctx=cm.ast('Load'))), False)
    yield ('content', 'Attribute .f against Attribute .f',
           run(cm.ast('Attribute', value=name('o'), attr='f', ctx=cm.ast('Load')),
               cm.ast('Attribute', value=name('p'), attr='f', ctx=cm.ast('Load'))), True)
    yield ('content', 'two fields: first differs, last agrees (alias name/asname)',
           run(cm.ast('alias', name='a', asname='z'), cm.ast('alias', name='b', asname='z')), False)
    yield ('content', 'two fields: first agrees, last differs',
           run(cm.ast('alias', name='a', asname='y'), cm.ast('alias', name='a', asname='z')), False)
    yield ('content', 'Global [a, b] against Global [a] (list of identifiers: b occurs nowhere)',
           run(cm.ast('Global', names=['a', 'b']), cm.ast('Global', names=['a'])), False)
    yield ('content', 'Global [a] against Global [a, b]',
           run(cm.ast('Global', names=['a']), cm.ast('Global', names=['a', 'b'])), False)
    yield ('content', 'Global [a, b] against Global [a, b]',
           run(cm.ast('Global', names=['a', 'b']), cm.ast('Global', names=['a', 'b'])), True)
    yield ('content', 'Nonlocal [a, b] against Nonlocal [a, c]',
           run(cm.ast('Nonlocal', names=['a', 'b']), cm.ast('Nonlocal', names=['a', 'c'])), False)
    yield ('optional', 'absent optional child in the pattern (alias asname=None) against a present one',
           run(cm.ast('alias', name='a', asname=None), cm.ast('alias', name='a', asname='z')), True)
    yield ('optional', 'pattern literal None against student literal 5', run(const(None), const(5)), False)
    yield ('ignores', "Name x against Name y with ignores=['id']", run(name('x'), name('y'), ignores=['id']), True)
    yield ('meta', 'Name x against Name x when the meta fields disagree', run(name('x'), name('x'), meta=False), False)
    yield ('structure', 'BinOp against BinOp (children are matched elsewhere)',
           run(cm.ast('BinOp', left=name('a'), op=cm.ast('Add'), right=name('b')),
               cm.ast('BinOp', left=name('c'), op=cm.ast('Sub'), right=name('d'))), True)


def r7_literal_identity(ctx, sym):
    ctx.rule('R7', "shallow_match_main (which decides ensure_literal/prevent_literal), executed abstractly on every "
                   "pair of literal nodes over 14 representative values: a pattern literal matches a student literal "
                   "iff type and value are both equal (CPython's == alone identifies 1, True and 1.0)")
    n = 0
    for tag, desc, got, want in shallow_match_table(ctx, sym):
        if tag != 'literal':
            continue
        n += 1
        ctx.check(got is want, 'R7', 'shallow_match_main:' + desc, ctx.repo.module(MATCH),
                  ctx.repo.module(MATCH).func('StretchyTreeMatcher.shallow_match_main'),
                  "%s: %s, expected %s" % (desc, 'matches' if got is True else ('no match' if got is False else got),
                                           'a match' if want else 'no match'),
                  "prevent_literal(1) fires on the program `x = True` / `y = 1.0`; ensure_literal(0) is satisfied by "
                  "`False`", construct='shallow_match_main')
    ctx.floor('R7', 'literal pairs', n, 150)


def classify_typed_equality(v, mod, sym):
    """True: type-aware equality; False: bare equality; None: unknown shape."""
    if isinstance(v, ast.Compare) and len(v.ops) == 1 and isinstance(v.ops[0], ast.Eq):
        sides = norm(v.left) + norm(v.comparators[0])
        # (type(a), a) == (type(b), b) style
        if 'type(' in norm(v.left) and 'type(' in norm(v.comparators[0]):
            return True
        return False
    if isinstance(v, ast.BoolOp) and isinstance(v.op, ast.And):
        has_eq = any(isinstance(x, ast.Compare) and isinstance(x.ops[0], ast.Eq) and 'type(' not in norm(x)
                     for x in v.values)
        has_type = any(isinstance(x, ast.Compare) and isinstance(x.ops[0], (ast.Is, ast.Eq))
                       and norm(x).count('type(') == 2 for x in v.values)
        if has_eq and has_type:
            return True
        if has_eq and not has_type:
            # is_match and a == b
            others = [x for x in v.values if not (isinstance(x, ast.Compare))]
            if all(isinstance(x, ast.Name) for x in others):
                return False
        return None
    if isinstance(v, ast.Call):
        cn = call_name(v)
        if cn:
            r = sym.resolve_name(mod, cn.split('.')[-1])
            if r and not isinstance(r, tuple):
                return None
            if r and r[0] == 'func':
                rets = [n for n in body_walk(r[2]) if isinstance(n, ast.Return)]
                if len(rets) == 1:
                    return classify_typed_equality(rets[0].value, r[1], sym)
    return None


def r8_program_identity(ctx, sym, rule='R8', entry='parse_program'):
    ctx.rule(rule, "the tree the ensure_*/prevent_* checks and find_matches walk is the tree of the code asked for: "
                   "reparse_if_needed (decision table by abstract interpretation over histories of queries with and "
                   "without explicit student_code, source.verify() runs on the submission or on explicit code - the "
                   "real verify, executed too -, and the submission's text being replaced under the same file name) "
                   "leaves cait['ast'] bound to the parse of the requested code")
    mod = ctx.repo.module('pedal.cait.cait_api')
    fn = mod.func('reparse_if_needed')
    ctx.analysed_function(mod, fn)
    smod = ctx.repo.module('pedal.source.source')
    verify_fn = smod.func('verify')
    ctx.analysed_function(smod, verify_fn)
    tool = sym.const(mod, ast.parse('TOOL_NAME', mode='eval').body)
    src_tool = sym.const(mod, ast.parse('SOURCE_TOOL_NAME', mode='eval').body)
    from ..fdeval import Raised
    # a step is a CAIT query (None = the submission, 'OTHER'/'THIRD' = explicit code, 'BAD' = explicit code CPython
    # rejects), ('verify', code-or-None) = the source tool checks that code, ('replace', text) = the submission's main
    # code is replaced under the same file name and verified (set_source / next_section)
    V, R = 'verify', 'replace'
    # the texts: programs a tidying step would alter (a whitespace-only line inside a string literal, a tab, blanks at
    # the end of a line, a blank first line) - the tree must be that of the text as submitted
    MAIN = 'def f():\n    s = """a\n    \n    b"""\n\treturn s \n'
    MAIN2 = '\n\nx = "\t" \n'
    OTHER = '    \nfor i in y:\n    pass\n   '
    THIRD = 'z = 1'
    names = {MAIN: 'MAIN', MAIN2: 'MAIN2', OTHER: 'OTHER', THIRD: 'THIRD'}
    sequences = [[None], [None, None], [OTHER, None], [None, OTHER, None], [OTHER, OTHER, None, THIRD, None],
                 [OTHER], ['BAD', None], [None, 'BAD', None], ['BAD', OTHER], ['BAD', 'BAD', None],
                 [OTHER, 'BAD', OTHER],
                 [None, (R, MAIN2), None], [None, (R, MAIN2), None, (R, MAIN), None], [(R, MAIN2), None, OTHER, None],
                 [(V, OTHER), None], [(V, None), (V, OTHER), None], [None, (V, OTHER), None],
                 [(V, OTHER), OTHER, None], [(V, 'BAD'), None]]
    from .. import symexec
    reset_fn = mod.functions.get('reset')
    entry_fn = mod.func(entry)
    entry_takes_pattern = [a.arg for a in entry_fn.args.args][:1] == ['pattern']
    for source_ok in (True, False):
        for seq in sequences:
            source = {'success': source_ok, 'ast': ('source-ast', MAIN)}
            store = {}
            submission = Obj('submission', main_code=MAIN, main_file='answer.py', files={'answer.py': MAIN},
                             load_error=None, line_offsets={})
            report = Obj('report', submission=submission)
            report.attrs['method:__getitem__'] = lambda k: source if k == src_tool else store[k]
            report.attrs['method:__setitem__'] = lambda k, v: store.__setitem__(k, v)

            import builtins as _builtins

            def _matcher(pattern):
                m_ = Obj('StretchyTreeMatcher', pattern=pattern)
                symexec.method(m_, 'find_matches', lambda tree, *a_, **k_: [('match', pattern, tree)])
                return m_

            def parse(c, *a, **k):
                if c == 'BAD':
                    raise Raised('SyntaxError', 'invalid syntax', payload=Obj(
                        'exception', exc_kind='SyntaxError', lineno=1, offset=1, filename='answer.py', msg='invalid',
                        end_lineno=None, end_offset=None, text=None))
                return ('parsed', c)
            fd = symexec.new_fd(sym, mod, calls={'ast.parse': parse, 'system_error': lambda *a, **k: None,
                                                 'CaitNode': lambda a, report=None: ('cait', a),
                                                 'StretchyTreeMatcher': lambda pattern, *a_, **k_: _matcher(pattern)},
                                extra={'MAIN_REPORT': report})

            def b_isinstance(o, t):
                ts = t if isinstance(t, tuple) else (t,)
                if isinstance(o, Obj) and 'exc_kind' in o.attrs:
                    k_ = getattr(_builtins, o.attrs['exc_kind'])
                    return any(isinstance(x, type) and issubclass(k_, x) for x in ts)
                return isinstance(o, tuple(x for x in ts if isinstance(x, type)))
            quiet = lambda *a, **k: None
            vcalls = {'ast.parse': lambda c, *a, **k: ('source-ast', c) if c != 'BAD' else parse(c),
                      'syntax_error': quiet, 'indentation_error': quiet, 'blank_source': quiet,
                      'source_file_not_found': quiet, 'sys.exc_info': lambda: ('T', 'E', None),
                      'isinstance': b_isinstance}
            vextra = {k_: getattr(_builtins, k_) for k_ in ('SyntaxError', 'IndentationError', 'TabError', 'Exception',
                                                            'ValueError', 'BaseException')}
            vextra.update(MAIN_REPORT=report, syntax_error=quiet, indentation_error=quiet)
            vfd = symexec.new_fd(sym, smod, calls=vcalls, extra=vextra)
            # the tool's own reset() builds the per-report data (whatever keys it uses)
            if reset_fn is not None:
                symexec.run(fd, reset_fn, [], {'report': report}, what='cait reset')
            else:
                store[tool] = {'cache': {}, 'ast': None, 'success': True, 'error': None}
            cait = store[tool]
            if source_ok:
                # the usual setting: the environment verified the submission before the instructor script runs
                _, vraised = symexec.run(vfd, verify_fn, [], {'report': report}, what='source.verify')
                if vraised is not None:
                    raise AnalysisError("source.verify raises %s in the program-identity model" % vraised.kind)
            for i, step in enumerate(seq):
                if isinstance(step, tuple):
                    kind_, text = step
                    if kind_ == R:
                        submission.attrs['main_code'] = text
                        submission.attrs['files']['answer.py'] = text
                        text = None
                    if source_ok:
                        # the source tool is in use: it (re)checks the text
                        _, vraised = symexec.run(vfd, verify_fn, [], dict({'report': report}, **(
                            {'code': text} if text is not None else {})), what='source.verify')
                        if vraised is not None:
                            raise AnalysisError("source.verify raises %s in the program-identity model" % vraised.kind)
                    continue
                code = step
                got, raised = symexec.run(fd, fn, [], {'student_code': code, 'report': report},
                                          what='reparse_if_needed')
                want_code = code if code is not None else submission.attrs['main_code']
                tree = cait['ast']
                if raised is not None:
                    ok = False
                elif code == 'BAD':
                    ok = got is cait and not cait['success']
                else:
                    ok = got is cait and bool(cait['success']) and isinstance(tree, tuple) and tree[0] == 'cait' \
                        and tree[1][1] == want_code
                show = [names.get(s_, s_) if not isinstance(s_, tuple) else '%s(%s)' % (s_[0], names.get(s_[1], s_[1])) for s_ in seq]
                key = 'reparse_if_needed[%s,source_ok=%s]@%d' % (','.join(str(c) for c in show), source_ok, i)
                ctx.check(ok, rule, key, mod, fn,
                          "after the history %s the static checks are handed the tree %r with success=%r%s; expected %s" % (
                              show[:i + 1], tree, cait.get('success'), '' if raised is None else ' (raises %s)' %
                              raised.kind, 'success=False' if code == 'BAD' else 'the parse of %r with success=True' %
                              want_code),
                          "find_asts('For', student_code=REFERENCE) followed by ensure_ast('While') on the submission: "
                          "the check counts nodes of the reference solution; verify(snippet) before the first CAIT "
                          "query: every check answers for the snippet", construct='reparse_if_needed')
                if not ok:
                    break
                # the entry point itself, where it takes a pattern (find_matches): what it returns was matched against
                # the tree of the code asked for - now, not when the same pattern was asked before
                if entry_takes_pattern:
                    pattern = 'for _x_ in ___:\n    pass'
                    got_m, raised_m = symexec.run(fd, entry_fn, [pattern], {'student_code': code, 'report': report},
                                                  what=entry)
                    if code == 'BAD':
                        ok_m = raised_m is None and got_m == []
                    else:
                        ok_m = raised_m is None and isinstance(got_m, list) and len(got_m) == 1 and \
                            got_m[0][:2] == ('match', pattern) and isinstance(got_m[0][2], tuple) and \
                            got_m[0][2][0] == 'cait' and got_m[0][2][1][1] == want_code
                    ctx.check(ok_m, rule, '%s[%s,source_ok=%s]@%d' % (entry, ','.join(str(c) for c in show), source_ok, i),
                              mod, entry_fn,
                              "after the history %s, %s(pattern) returns %r%s; expected the matches in the tree of %s" % (
                                  show[:i + 1], entry, got_m, '' if raised_m is None else ' (raises %s)' % raised_m.kind,
                                  'nothing (the code does not parse)' if code == 'BAD' else names.get(want_code, want_code)),
                              "set_source(part one); find_matches('for _x_ in ___: pass'); next_section(); the same "
                              "find_matches call answers for part one again", construct=entry)
                    if not ok_m:
                        break
    pp = mod.func(entry)
    # (directly, or through helpers of the same module)
    reach, work_ = set(), [pp]
    while work_:
        f_ = work_.pop()
        for c in calls(f_):
            n_ = call_name(c)
            if n_ and n_ not in reach:
                reach.add(n_)
                if n_ in mod.functions and len(reach) < 200:
                    work_.append(mod.functions[n_])
    ok = 'reparse_if_needed' in reach
    ctx.check(ok, rule, '%s:uses-reparse' % entry, mod, pp, "%s no longer goes through reparse_if_needed" % entry,
              "static checks see a stale tree")


def r9_reported_position(ctx, sym):
    ctx.rule('R9', "Location.from_ast executed abstractly on model nodes (a plain statement, a decorated function and "
                   "class, a CaitNode-like wrapper): the position reported for an occurrence is the node's own lineno / "
                   "col_offset - the line on which a node of that kind starts")
    from .. import symexec
    lmod = ctx.repo.module('pedal.core.location')
    fn = lmod.func('Location.from_ast')
    ctx.analysed_function(lmod, fn)
    deco = Obj('ast.Name', lineno=5, col_offset=1, __open__=True)
    nodes = {'plain statement': Obj('ast.Assign', lineno=5, col_offset=0, __closed__=True),
             'decorated function': Obj('ast.FunctionDef', lineno=7, col_offset=0, decorator_list=[deco], __closed__=True),
             'decorated class': Obj('ast.ClassDef', lineno=9, col_offset=4, decorator_list=[deco, deco], __closed__=True),
             'undecorated function': Obj('ast.FunctionDef', lineno=3, col_offset=0, decorator_list=[], __closed__=True)}
    for what, node in nodes.items():
        made = []

        def location(line=None, col=None, *a, **k):
            made.append((line, col))
            return Obj('Location', line=line, col=col)
        cls_stub = Obj('Location-class')
        fd = symexec.new_fd(sym, lmod, calls={
            'Location': location, 'min': min, 'max': max,
            'getattr': lambda o, n, *d: o.attrs[n] if isinstance(o, Obj) and n in o.attrs else (
                d[0] if d else (_ for _ in ()).throw(Raised('AttributeError', n))),
            'hasattr': lambda o, n: isinstance(o, Obj) and n in o.attrs})
        got, raised = symexec.run(fd, fn, [node], bound_self=cls_stub, what='Location.from_ast')
        want = (node.attrs['lineno'], node.attrs['col_offset'])
        ok = raised is None and isinstance(got, Obj) and (got.attrs.get('line'), got.attrs.get('col')) == want
        ctx.check(ok, 'R9', 'Location.from_ast[%s]' % what, lmod, fn,
                  "a %s starting on line %d is reported at %r%s" % (
                      what, want[0], (got.attrs.get('line'), got.attrs.get('col')) if isinstance(got, Obj) else got,
                      '' if raised is None else ' (raises %s)' % raised.kind),
                  "prevent_ast('FunctionDef') on a decorated function reports the decorator's line, where no "
                  "FunctionDef starts")


def run(ctx):
    sym = Symbols(ctx.repo)
    r8_program_identity(ctx, sym)
    tables = r1_symbol_tables(ctx, sym)
    r2_name_plumbing(ctx, sym)
    r3_finder(ctx, sym, tables)
    r4_thresholds(ctx, sym)
    r5_siblings(ctx, sym)
    r6_constant_split(ctx, sym)
    r7_literal_identity(ctx, sym)
    r9_reported_position(ctx, sym)
    # R10: the text CAIT parses is the submission's main code; that main code is the text submitted, character for
    # character, string literals with unusual blanks included (shared with C12.R8 / C06.R1)
    from .c12 import r8_text_kept
    r8_text_kept(ctx, sym, rule='R10')
    ctx.assume("the parsed program handed to find_all/find_matches is CPython's ast of the submission "
               "(C12.R4); counts for individual programs are not enumerated")
