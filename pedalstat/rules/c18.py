"""C18 - TIFA analyses every parsable program, deterministically and idempotently."""
import ast
import itertools

from ..astutil import dotted, calls, call_name, body_walk, walk_local, is_self_attr, kw
from ..cfg import CFG, EXCEPTION_DOWN, describe, down
from ..fdeval import FD, Obj, Raised, Inconclusive
from ..loader import AnalysisError, norm, enclosing_function, ancestors
from ..resolution import unresolved_globals, self_attr_misses, arity_mismatches, first_use_line
from ..symbols import Symbols, ClassInfo
from .c12 import PARSE_ATOMS

VISITOR = 'pedal.tifa.tifa_visitor'
COMMANDS = 'pedal.tifa.commands'
TYPES = 'pedal.types.new_types'
SCOPE = ('pedal.tifa', 'pedal.types')
# node kinds that older interpreters / Skulpt produce and that CPython >= 3.8 folds into ast.Constant; a handler for
# one of them is harmless as long as visit_Constant exists
LEGACY_CONSTANT_KINDS = ('Num', 'Str', 'Bytes', 'NameConstant', 'Ellipsis', 'Bool')


def in_scope(m):
    return any(m.name == s or m.name.startswith(s + '.') for s in SCOPE)


def r1_never_raises(ctx, sym):
    ctx.rule('R1', "Tifa.process_code executed abstractly for every failure point (the parse, the traversal, neither) x "
                   "exception class, in the state an aborted traversal leaves behind (a current node without a line "
                   "number): nothing leaves process_code, a failure is recorded by exactly one analysis.fail(error) "
                   "with the raised error and one system_error on the tool's report, and the analysis object is "
                   "returned on every path")
    from .. import symexec
    mod = ctx.repo.module(VISITOR)
    fn = mod.func('Tifa.process_code')
    ctx.analysed_function(mod, fn)
    kinds = ['SyntaxError', 'ValueError', 'RecursionError', 'MemoryError', 'KeyError', 'AttributeError', 'TypeError']
    n = 0
    for where in ('none', 'parse', 'traverse'):
        for kind in (kinds if where != 'none' else [None]):
            for with_submission in (True, False):
                n += 1
                rec = symexec.Recorder()
                err = Obj('error', exc_kind=kind)
                analysis = Obj('TifaAnalysis')
                symexec.method(analysis, 'fail', rec.stub('analysis.fail'))
                tree = symexec.marker('tree')

                def parse(*a, **k):
                    rec.events.append(('ast.parse', a, k))
                    if where == 'parse':
                        raise Raised(kind, payload=err)
                    return tree

                def process_ast(t):
                    rec.events.append(('process_ast', (t,), {}))
                    if where == 'traverse':
                        raise Raised(kind, payload=err)
                submission = Obj('submission', main_file='answer.py', line_offsets={'answer.py': 3}) \
                    if with_submission else None
                report = Obj('report', submission=submission)
                # the node the traversal was at when it failed: ast nodes such as `arguments` carry no lineno
                broken_node = Obj('ast.arguments')
                broken_node.attrs['__closed__'] = True
                me = symexec.self_obj(mod, 'Tifa', report=report, analysis=None, node_chain=[broken_node],
                                      final_node=broken_node, line_offset=0)
                symexec.method(me, 'process_ast', process_ast)
                fd = symexec.new_fd(sym, mod, calls={
                    'ast.parse': parse, 'TifaAnalysis': lambda *a, **k: analysis,
                    'system_error': rec.stub('system_error', ret=Obj('feedback')),
                    'str': lambda x: 'text of the error', 'Location': lambda *a, **k: Obj('location')})
                value, raised = symexec.run(fd, fn, ['x = 1', None], bound_self=me, what='Tifa.process_code')
                tag = 'process_code[%s raises %s%s]' % (where, kind, '' if with_submission else ',no submission')
                ctx.check(raised is None, 'R1', tag + ':never-raises', mod, getattr(raised, 'node', None) or fn,
                          "%s raised while %s leaves process_code as %s" % (
                              kind, {'parse': 'parsing', 'traverse': 'traversing', 'none': 'nothing failed'}[where],
                              getattr(raised, 'kind', None)),
                          "a valid program containing a construct TIFA mishandles (internal KeyError/AttributeError): "
                          "tifa_analysis() raises instead of returning a failed analysis")
                if raised is not None:
                    continue
                fails, sys_ = rec.named('analysis.fail'), rec.named('system_error')
                if where == 'none':
                    ok = not fails and not sys_ and value is analysis and len(rec.named('process_ast')) == 1 and \
                        rec.named('process_ast')[0][1][0] is tree
                    ctx.check(ok, 'R1', tag + ':clean', mod, fn,
                              "a program that parses and traverses records %d failure(s), %d system error(s), returns "
                              "%r" % (len(fails), len(sys_), value), "every analysis is reported as failed")
                    continue
                ok = len(fails) == 1 and fails[0][1] and fails[0][1][0] is err and len(sys_) == 1 and \
                    sys_[0][2].get('report') is report
                ctx.check(ok, 'R1', 'process_code:handler@%s[%s%s]' % (where, kind, '' if with_submission else
                                                                        ',no submission'), mod, fn,
                          "the failure is not recorded by one analysis.fail(error) and one system_error on the tool's "
                          "report (%d / %d)" % (len(fails), len(sys_)),
                          "an internal failure is silently reported as a completed analysis")
                ctx.check(value is analysis, 'R1', tag + ':returns-analysis', mod, fn,
                          "process_code returns %r instead of the analysis" % (value,), "tifa_analysis returns None")
                if where == 'parse':
                    ctx.check(not rec.named('process_ast'), 'R1', tag + ':no-traversal', mod, fn,
                              "the traversal runs although the parse failed", "a second system error")
    ctx.floor('R1', 'process_code scenarios', n, 25)
    line_offset_rule(ctx, sym, 'R1')
    borrowed_position_rule(ctx, sym, 'R1')


def r1c_constants_complete(ctx, sym):
    ctx.rule('R1c', "Tifa.visit_Constant (and get_pedal_type_from_value behind it), executed abstractly for a literal of "
                    "every type CPython's parser can put into a Constant node (int, float, complex, str, bytes, bool, "
                    "None, Ellipsis), with evaluate_type honouring its contract (it takes syntax-tree nodes): the "
                    "visit completes with a pedal type")
    from .. import symexec
    mod = ctx.repo.module(VISITOR)
    fn = mod.func('Tifa.visit_Constant')
    ctx.analysed_function(mod, fn)
    standins = {}
    for (mname, q), ci in sym.classes.items():
        if mname.startswith('pedal.types') and '.' not in q:
            f = (lambda nm: (lambda *a, **k: Obj(nm, args=a, __cls__=nm)))(q)
            f._fd_callable = True
            f._fd_class = q
            standins[q] = f

    def evaluate_type(node):
        if isinstance(node, Obj) and '__astclass__' in node.attrs:
            return Obj('evaluated-type')
        # what the real method does with anything else: NodeVisitor.generic_visit -> node._fields
        raise Raised('AttributeError', "%r object has no attribute '_fields'" % type(node).__name__)

    def b_isinstance(v, t):
        ts = t if isinstance(t, tuple) else (t,)
        if isinstance(v, Obj):
            return any(getattr(x, '_fd_class', None) == v.attrs.get('__cls__') for x in ts)
        return isinstance(v, tuple(x for x in ts if isinstance(x, type)))
    for value in (1, 1.5, 1j, 's', b'b', True, None, Ellipsis):
        me = symexec.self_obj(mod, 'Tifa', report=Obj('report'))
        symexec.method(me, 'evaluate_type', evaluate_type)
        fd = symexec.new_fd(sym, mod, calls={'isinstance': b_isinstance, 'type': lambda v: type(v)}, extra=standins)
        node = Obj('Constant', value=value, kind=None)
        node.attrs['__astclass__'] = 'Constant'
        got, raised = symexec.run(fd, fn, [node], bound_self=me, what='Tifa.visit_Constant')
        ctx.check(raised is None and isinstance(got, Obj), 'R1c', 'visit_Constant(%r)' % (value,), mod, fn,
                  "visiting the literal %r %s" % (value, 'returns %r' % (got,) if raised is None else
                                                   'raises %s (%s)' % (raised.kind, raised.detail)),
                  "any program containing the literal %r (e.g. `data = %r`): TIFA ends with a system error instead of "
                  "an analysis" % (value, value))


def r1d_container_literals(ctx, sym):
    ctx.rule('R1d', "Tifa.visit_Tuple / visit_List / visit_Set executed abstractly on an empty and a two-element literal, "
                    "the pedal type constructed by its own __init__ (interpreted): a tuple type holds the sequence of "
                    "its element types (empty for `()`), list/set types say whether they are empty - whatever later "
                    "code iterates or tests is of the kind the constructor documents")
    from .. import symexec
    mod = ctx.repo.module(VISITOR)
    for vname in ('visit_Tuple', 'visit_List', 'visit_Set'):
        try:
            fn = mod.func('Tifa.' + vname)
        except AnalysisError:
            continue
        ctx.analysed_function(mod, fn)
        for n_elts in (0, 2):
            elts = [Obj('element-node-%d' % i) for i in range(n_elts)]
            visited = {id(e): Obj('IntType') for e in elts}
            me = symexec.self_obj(mod, 'Tifa', report=Obj('report'))
            symexec.method(me, 'visit', lambda node: visited[id(node)])
            fd = symexec.new_fd(sym, mod, calls={
                'isinstance': lambda o, t: False, 'widest_type': lambda xs: xs[0] if xs else None,
                'all': lambda xs: all(bool(x) for x in xs)})
            got, raised = symexec.run(fd, fn, [Obj('literal-node', elts=elts)], bound_self=me, what='Tifa.' + vname)
            ok = raised is None and isinstance(got, Obj)
            detail = ''
            if ok and vname == 'visit_Tuple':
                et = got.attrs.get('element_types')
                ok = isinstance(et, (tuple, list)) and len(et) == n_elts and all(
                    x is visited[id(e)] for x, e in zip(et, elts))
                detail = "element_types = %r" % (et,)
            elif ok:
                flag = got.attrs.get('is_empty')
                ok = flag is (n_elts == 0)
                detail = "is_empty = %r" % (flag,)
            ctx.check(ok, 'R1d', '%s[%d element(s)]' % (vname, n_elts), mod, fn,
                      "visiting a literal with %d element(s) %s" % (n_elts, ('builds a type with ' + detail) if
                                                                 raised is None else 'raises %s' % raised.kind),
                      "t = ()\nu = t + (1,)   -> TIFA ends with a system error ('bool' object is not iterable) instead "
                      "of an analysis")


def line_offset_rule(ctx, sym, rule):
    """The line offset used by TifaCore.locate() is the submission's offset for the file analysed (process_code
    executed abstractly for the main file, another known file and an unknown file)."""
    from .. import symexec
    mod = ctx.repo.module(VISITOR)
    fn = mod.func('Tifa.process_code')
    rec = symexec.Recorder()
    submission = Obj('submission', main_file='answer.py', line_offsets={'answer.py': 3, 'other.py': 9})
    me = symexec.self_obj(mod, 'Tifa', report=Obj('report', submission=submission), analysis=None, node_chain=[],
                          line_offset=0)
    # process_ast and reset() are pedal's own (interpreted); the traversal is replaced by one visit that locates a node
    # on line 5 - the way every issue obtains its position
    node = Obj('ast-node', lineno=5, col_offset=0, end_lineno=5, end_col_offset=3)
    for name in ('_finish_scope', '_collect_top_level_variables'):
        symexec.method(me, name, lambda *a, **k: None)
    for fname, want in ((None, 3), ('other.py', 9), ('unknown.py', 0)):
        located = []
        fd = symexec.new_fd(sym, mod, calls={'ast.parse': lambda *a, **k: 'tree',
                                             'Location': lambda line=None, *a, **k: Obj('Location', line=line),
                                             'reset_builtin_modules': lambda *a, **k: None})
        symexec.method(me, 'visit', lambda tree, fd=fd, located=located: located.append(
            fd.call_method(me, 'locate', [node])))
        _, raised = symexec.run(fd, fn, ['x = 1', fname], bound_self=me, what='Tifa.process_code')
        lines = [l.attrs.get('line') if isinstance(l, Obj) else l for l in located]
        ctx.check(raised is None and lines == [5 + want], rule, 'tifa:line_offset-source[%s]' % fname, mod, fn,
                  "analysing %s locates a node of line 5 on line %r%s; the submission's offset for that file is %r, so "
                  "the issue belongs on line %d" % (fname or 'the main file', lines, '' if raised is None else
                                                    ' (raises %s)' % raised.kind, want, 5 + want),
                  "TIFA lines ignore the active section")


def borrowed_position_rule(ctx, sym, rule):
    """Tifa.fill_in_location executed abstractly (a comprehension clause has no position of its own and borrows that of
    the enclosing expression), with a section offset in force: locating the clause afterwards gives the same line as
    locating the expression - the offset is applied once."""
    from .. import symexec
    mod = ctx.repo.module(VISITOR)
    fn = mod.func('Tifa.fill_in_location')
    ctx.analysed_function(mod, fn)
    for offset in (0, 4):
        source = Obj('ast.ListComp', lineno=6, col_offset=8, end_lineno=7, end_col_offset=30)
        clause = Obj('ast.comprehension')
        me = symexec.self_obj(mod, 'Tifa', line_offset=offset, node_chain=[source], final_node=None)
        fd = symexec.new_fd(sym, mod, calls={
            'Location': lambda line=None, col=None, *a, **k: Obj('Location', line=line, col=col)})
        _, raised = symexec.run(fd, fn, [clause, source], bound_self=me, what='Tifa.fill_in_location')
        where = []
        if raised is None:
            for n_ in (source, clause):
                try:
                    loc = fd.call_method(me, 'locate', [n_])
                    where.append((loc.attrs.get('line'), loc.attrs.get('col')) if isinstance(loc, Obj) else loc)
                except Raised as e:
                    where.append('raises %s' % e.kind)
                except Inconclusive as e:
                    raise AnalysisError("locate is outside the decidable fragment: %s" % e)
        ok = raised is None and len(where) == 2 and where[0] == where[1] == (6 + offset, 8) and \
            source.attrs.get('lineno') == 6
        ctx.check(ok, rule, 'tifa:fill_in_location[offset %d]' % offset, mod, fn,
                  "with a section offset of %d, an expression on line 6 is located at %r and the comprehension clause "
                  "that borrowed its position at %r%s" % (offset, where[0] if where else None,
                                                         where[1] if len(where) > 1 else None,
                                                         '' if raised is None else ' (raises %s)' % raised.kind),
                  "independent sections: an undefined name in `[x for x in data]` of section 2 is reported with the "
                  "section offset added twice")


def locate_positionless_rule(ctx, sym, rule):
    """TifaCore.locate executed abstractly on a node that carries no position (ast.match_case, ast.arguments, ...):
    it may fail (the analysis is then reported as failed) but must not invent a line - line 0 or the bare section
    offset is not a line of any node of the analysed source."""
    from .. import symexec
    core = ctx.repo.module('pedal.tifa.tifa_core')
    loc = core.func('TifaCore.locate')
    ctx.analysed_function(core, loc)
    for offset in (0, 7):
        node = Obj('ast.match_case')
        node.attrs['__closed__'] = True
        me = symexec.self_obj(core, 'TifaCore', line_offset=offset, node_chain=[node], final_node=None)

        def b_getattr(o, name, *default):
            if isinstance(o, Obj) and name in o.attrs:
                return o.attrs[name]
            if default:
                return default[0]
            raise Raised('AttributeError', name)
        fd = symexec.new_fd(sym, core, calls={'Location': lambda line=None, *a, **k: Obj('Location', line=line),
                                              'getattr': b_getattr,
                                              'hasattr': lambda o, n: isinstance(o, Obj) and n in o.attrs})
        got, raised = symexec.run(fd, loc, [node], bound_self=me, what='TifaCore.locate')
        line = got.attrs.get('line') if isinstance(got, Obj) else got
        ok = raised is not None or line is None or (isinstance(line, int) and line >= 1 + offset)
        ctx.check(ok, rule, 'tifa:locate-positionless[offset=%d]' % offset, core, loc,
                  "a node without a position is located on line %r (section offset %d): no node of the analysed source "
                  "is on that line" % (line, offset),
                  "a function with a `match` statement after its `return`: action_after_return is reported on line 0 "
                  "of a 9-line program")


def tifa_cache_offset_rule(ctx, sym, rule):
    """tifa_analysis executed abstractly twice on the same text while the submission's line offset for the main file
    changes in between (an identical chunk in a later independent section): the second call must be a new analysis -
    its issues are on other lines of the file - while a repetition under the same offset is served from the cache."""
    from .. import symexec
    mod = ctx.repo.module(COMMANDS)
    fn = mod.func('tifa_analysis')
    ctx.analysed_function(mod, fn)
    tool = sym.const(mod, ast.parse('TIFA_TOOL_NAME', mode='eval').body)
    for first, second in ((2, 4), (0, 3), (3, 0), (2, 2), (0, 0)):
        ran = []
        offsets = {'answer.py': first}
        submission = Obj('submission', main_code='print(q)', main_file='answer.py', line_offsets=offsets)
        inst = Obj('tifa')

        def process_code(code, *a, **k):
            ran.append((code, offsets.get('answer.py', 0)))
            return Obj('analysis@offset=%d' % offsets.get('answer.py', 0), success=True)
        symexec.method(inst, 'process_code', process_code)
        data = {'analyses': {}, 'instance': inst, 'latest': None}
        report = Obj('report', submission=submission)
        symexec.method(report, '__getitem__', lambda k: data if k == tool else None)
        fd = symexec.new_fd(sym, mod, extra={'MAIN_REPORT': report})
        a1, r1 = symexec.run(fd, fn, [], {'report': report}, what='tifa_analysis')
        if second:
            offsets['answer.py'] = second
        else:
            offsets.pop('answer.py', None)
        a2, r2 = symexec.run(fd, fn, [], {'report': report}, what='tifa_analysis')
        want_runs = 1 if first == second else 2
        ok = r1 is None and r2 is None and len(ran) == want_runs and (a1 is a2) == (first == second)
        ctx.check(ok, rule, 'tifa_analysis:offset[%d->%d]' % (first, second), mod, fn,
                  "the same text analysed under line offset %d and then %d: process_code ran %d time(s), the second "
                  "call returned %s; expected %d run(s)" % (first, second, len(ran), getattr(a2, '_name', a2), want_runs),
                  "'a = 0\\n##### Part 1\\nprint(q)\\n##### Part 2\\nprint(q)\\n' in independent sections: the "
                  "analysis of section 2 is served from section 1's cache entry - its issue is reported on line 3 "
                  "instead of 5 and no feedback is attached")


def r2_idempotent(ctx, sym):
    ctx.rule('R2', "decision table of tifa_analysis (abstract interpretation) over cache hit / miss / explicit code / "
                   "default code: a hit returns the cached result without running the analysis; a miss runs "
                   "process_code exactly once, stores the result under the same code, and returns it")
    mod = ctx.repo.module(COMMANDS)
    fn = mod.func('tifa_analysis')
    ctx.analysed_function(mod, fn)
    tool = sym.const(mod, ast.parse('TIFA_TOOL_NAME', mode='eval').body)
    for explicit, cached, succeeds in itertools.product((True, False), (True, False), (True, False)):
        ran = []
        inst = Obj('tifa')
        fresh = Obj('RESULT', success=succeeds, error=None if succeeds else 'internal failure')
        inst.attrs['method:process_code'] = lambda code, *a, **k: (ran.append(code) or fresh)
        code = 'print(1)'
        data = {'analyses': {code: 'CACHED'} if cached else {}, 'instance': inst, 'latest': None}
        report = Obj('report', submission=Obj('submission', main_code=code, main_file='answer.py', line_offsets={},
                                              __open__=True))
        report.attrs['method:__getitem__'] = lambda k: data if k == tool else None
        from ..fdeval import module_resolver
        fd = FD(max_steps=100000, resolver=module_resolver(sym, mod))
        try:
            got = fd.call_function(fn, [code] if explicit else [], {'report': report})
            # idempotence is about the *repeated* call: ask again
            again = fd.call_function(fn, [code] if explicit else [], {'report': report})
        except (Raised, Inconclusive) as e:
            raise AnalysisError("C18 R2: tifa_analysis outside the decidable fragment: %s" % e)
        if cached:
            ok = got == 'CACHED' and again == 'CACHED' and not ran
            why = "a repeated analysis returned %r / %r and ran process_code %d time(s)" % (got, again, len(ran))
        else:
            ok = got is fresh and again is fresh and ran == [code] and fresh in data['analyses'].values()
            why = "a first analysis (%s) returned %r, the repetition %r; process_code ran %d time(s); cached %r" % (
                'completed' if succeeds else 'failed internally', got, again, len(ran), data['analyses'])
        ctx.check(ok, 'R2', 'tifa_analysis[explicit=%s,cached=%s,%s]' % (
            explicit, cached, 'completed' if succeeds else 'failed'), mod, fn, why,
                  "tifa_analysis() twice on the same code: the second call attaches the issues to the report again",
                  construct='tifa_analysis')
    # the cache lives in per-report tool data
    init = ctx.repo.module('pedal.tifa')
    reset = [f for q, f in init.functions.items() if q == 'reset']
    if reset:
        ok = any(isinstance(n, ast.Dict) and any(isinstance(k, ast.Constant) and k.value == 'analyses' and
                                                 isinstance(v, ast.Dict) and not v.keys
                                                 for k, v in zip(n.keys, n.values)) for n in ast.walk(reset[0]))
        ctx.check(ok, 'R2', 'tifa.reset:fresh-cache', init, reset[0],
                  "the tool reset does not start with an empty analyses cache",
                  "a result cached for another submission is returned")


def r3_resolution(ctx, sym):
    ctx.rule('R3', "resolution completeness over pedal/tifa and pedal/types (symtable scoping): every global name read "
                   "in a function binds in the module (incl. star imports) or builtins; every self.X load names an "
                   "attribute of the class, its bases (stdlib bases inspected) or a mixin subclass; every call whose "
                   "callee resolves to a pedal function/constructor matches its arity and keyword names; every "
                   "visit_X handler names a real ast class or is called explicitly")
    n_names = n_self = n_calls = 0
    for m in ctx.repo.modules.values():
        if not in_scope(m):
            continue
        miss, n = unresolved_globals(m, sym)
        n_names += n
        for name, line, scope in miss:
            node = first_use_line(m, line, name)
            ctx.fail('R3', 'name:%s@%s:%s' % (name, m.name.split('.', 1)[-1], scope), m, node or m.tree,
                     "global name %r does not resolve in %s" % (name, scope),
                     "a program that drives this branch makes the analysis end in NameError -> system_error "
                     "(internal failure instead of a completed analysis)", function=scope)
        bad, n = arity_mismatches(sym, m)
        n_calls += n
        for call, callee, why in bad:
            q = getattr(enclosing_function(call), '_qualname', '<module>')
            ctx.fail('R3', 'arity:%s->%s@%s' % (norm(call.func), callee.qualname, q), m, call,
                     "call does not match %s.%s: %s" % (callee.module.name, callee.qualname, why),
                     "a program that drives this call makes the analysis end in TypeError -> system_error",
                     function=q)
    for ci in sym.classes.values():
        if not in_scope(ci.module):
            continue
        miss, n = self_attr_misses(sym, ci)
        n_self += n
        for meth, node in miss:
            ctx.fail('R3', 'self-attr:%s.%s@%s' % (ci.name, node.attr, meth.name), ci.module, node,
                     "self.%s is read but no class in the hierarchy of %s defines or assigns it" % (node.attr, ci.name),
                     "a program that drives this branch makes the analysis end in AttributeError -> system_error")
    ctx.floor('R3', 'global name reads', n_names, 500)
    ctx.floor('R3', 'self attribute reads', n_self, 400)
    ctx.floor('R3', 'resolved calls', n_calls, 300)
    ctx.ok('R3', 'resolution-sweep', sample={'global_reads': n_names, 'self_reads': n_self, 'calls': n_calls})
    # visitors
    vmod = ctx.repo.module(VISITOR)
    tifa = sym.find_class(VISITOR, 'Tifa')
    called = {c.func.attr for c in ast.walk(vmod.tree) if isinstance(c, ast.Call)
              and isinstance(c.func, ast.Attribute)}
    n = 0
    for c in sym.mro(tifa):
        for name in c.methods:
            if name.startswith('visit_'):
                n += 1
                kind = name[len('visit_'):]
                if kind in LEGACY_CONSTANT_KINDS and any('visit_Constant' in k.methods for k in sym.mro(tifa)):
                    ctx.ok('R3', 'visitor:' + name, nontrivial=False)   # folded into Constant since 3.8 (Skulpt compat)
                    continue
                ctx.check(hasattr(ast, kind) or name in called, 'R3', 'visitor:' + name, c.module, c.methods[name],
                          "%s is neither an ast node class nor called explicitly: the handler is dead and the node kind "
                          "it was meant for falls to generic_visit" % name,
                          "a program using that construct is analysed without the intended rule")
    ctx.floor('R3', 'visit_* handlers', n, 30)


def r4_builtin_tables(ctx, sym):
    ctx.rule('R4', "builtin function tables: every FunctionType(...) entry gives `definition` a callable (function name "
                   "or lambda) and `returns` a class, a lambda or one of the string shorthands FunctionType.__init__ "
                   "compares against (extracted from its source)")
    tmod = ctx.repo.module(TYPES)
    init = tmod.func('FunctionType.__init__')
    ctx.analysed_function(tmod, init)
    shorthands = set()
    for n in ast.walk(init):
        if isinstance(n, ast.Compare) and isinstance(n.left, ast.Name) and n.left.id == 'returns':
            for c in n.comparators:
                if isinstance(c, ast.Constant) and isinstance(c.value, str):
                    shorthands.add(c.value)
    ctx.floor('R4', 'returns shorthands', len(shorthands), 2)
    params = [a.arg for a in init.args.args][1:]
    n = 0
    for m in ctx.repo.modules.values():
        if not in_scope(m) and not m.name.startswith('pedal.sandbox.library') and not m.name.startswith(
                'pedal.types.library'):
            continue
        for call in ast.walk(m.tree):
            if not (isinstance(call, ast.Call) and call_name(call) == 'FunctionType'):
                continue
            bound = {}
            for i, a in enumerate(call.args):
                if i < len(params):
                    bound[params[i]] = a
            for k in call.keywords:
                if k.arg:
                    bound[k.arg] = k.value
            n += 1
            name = norm(bound.get('name')) if 'name' in bound else '?'
            d = bound.get('definition')
            if d is not None and not (isinstance(d, ast.Constant) and d.value is None):
                ok = isinstance(d, (ast.Name, ast.Attribute, ast.Lambda))
                if isinstance(d, ast.Name):
                    r = sym.resolve_name(m, d.id)
                    ok = (isinstance(r, tuple) and r[0] == 'func') or enclosing_function(call) is not None
                ctx.check(ok, 'R4', 'FunctionType(%s):definition' % name, m, call,
                          "definition=%s is not callable; FunctionType stores it as given and TIFA calls it when the "
                          "student calls the function" % norm(d),
                          "any program calling %s(...) makes the analysis abort with \"'str' object is not callable\" "
                          "and a system error" % name.strip("'"))
            r = bound.get('returns')
            if isinstance(r, ast.Constant) and isinstance(r.value, str):
                ctx.check(r.value in shorthands, 'R4', 'FunctionType(%s):returns' % name, m, call,
                          "returns=%r is not one of the shorthands %s" % (r.value, sorted(shorthands)),
                          "calling %s(...) makes the analysis abort (a str is called as a type factory)" % name)
    ctx.floor('R4', 'FunctionType table entries', n, 60)
    ctx.ok('R4', 'table-sweep', sample={'entries': n, 'shorthands': sorted(shorthands)})


def r4d_builtin_definitions_total(ctx, sym):
    ctx.rule('R4d', "every *_definition function of pedal.types.builtin (the typing rules of round, sum, ... - called "
                    "while TIFA visits a call) executed abstractly on arguments of pedal's own plain types (float, "
                    "int, str, list[int]; no, one and two arguments): none raises - an AttributeError there turns an "
                    "ordinary beginner program into one TIFA 'could not process'")
    from .. import symexec
    from ..fdeval import Obj, Raised, Inconclusive
    bmod = ctx.repo.module('pedal.types.builtin')
    tmod = ctx.repo.module('pedal.types.new_types')

    def class_of(o):
        cd = o.attrs.get('__classdef__')
        return sym.classes.get((cd._module.name, cd._qualname)) if cd is not None else None

    def b_type(o):
        return o.attrs['__classdef__'] if isinstance(o, Obj) and '__classdef__' in o.attrs else type(o)

    def b_isinstance(o, t):
        ts = t if isinstance(t, tuple) else (t,)
        if isinstance(o, Obj) and '__classdef__' in o.attrs:
            mro = list(sym.mro(class_of(o)))
            return any(getattr(x, '_fd_class', None) is not None and
                       any(getattr(k, 'node', None) is x._fd_class for k in mro) for x in ts)
        return any(isinstance(x, type) and isinstance(o, x) for x in ts)

    def build(expr):
        f = ast.parse("def _expression():\n    return %s" % expr).body[0]
        f._module, f._qualname = tmod, '_expression'
        return symexec.new_fd(sym, tmod, calls={'isinstance': b_isinstance, 'type': b_type}).call_function(f, [])
    argsets = {'()': [], '(float)': ['FloatType()'], '(int)': ['IntType()'], '(float, int)': ['FloatType()', 'IntType()'],
               '(int, int)': ['IntType()', 'IntType()'], '(str)': ['StrType(False)'],
               '(list[int])': ['ListType(False, IntType())']}
    n = 0
    for q in sorted(bmod.functions):
        if not q.endswith('_definition') or '.' in q:
            continue
        fn = bmod.func(q)
        ctx.analysed_function(bmod, fn)
        for tag, exprs in argsets.items():
            for named in ({}, {'ndigits': 'IntType()', 'key': 'IntType()'}):
                try:
                    args = [build(e) for e in exprs]
                    kw = {k: build(e) for k, e in named.items()}
                except (Raised, Inconclusive) as e:
                    raise AnalysisError("C18 R4d: model arguments cannot be built: %s" % e)
                tifa = Obj('tifa', __open__=True)
                tifa.attrs['__unknown_method__'] = lambda name, *a, **k: Obj('tifa-result', __open__=True)
                fd = symexec.new_fd(sym, bmod, calls={'isinstance': b_isinstance, 'type': b_type})
                try:
                    fd.call_function(fn, [tifa, Obj('function', __open__=True), Obj('callee', __open__=True), args, kw,
                                          Obj('Location')])
                    raised = None
                except Raised as e:
                    raised = e
                except Inconclusive:
                    continue
                n += 1
                ctx.check(raised is None, 'R4d', '%s%s%s' % (q, tag, ' with keywords' if named else ''), bmod, fn,
                          "%s applied to arguments of types %s%s raises %s (%s)" % (
                              q, tag, ' and keyword arguments' if named else '',
                              raised.kind if raised is not None else '', raised.detail if raised is not None else ''),
                          "average = total / count; print(round(average, 2)) - TIFA reports that it could not process "
                          "the program")
    ctx.floor('R4d', 'definition x argument cells decided', n, 30)


def r5_determinism(ctx, sym):
    ctx.rule('R5', "no iteration over a set/frozenset expression, random, id() or hash() ordering reaches an _issue "
                   "call in pedal/tifa and pedal/types")
    n = 0
    for m in ctx.repo.modules.values():
        if not in_scope(m):
            continue
        for node in ast.walk(m.tree):
            it = None
            if isinstance(node, ast.For):
                it = node.iter
            elif isinstance(node, ast.comprehension):
                it = node.iter
            if it is None:
                continue
            n += 1
            setlike = isinstance(it, (ast.Set, ast.SetComp)) or (isinstance(it, ast.Call) and call_name(it) in (
                'set', 'frozenset'))
            if not setlike:
                continue
            body = node.body if isinstance(node, ast.For) else []
            issues = [c for st in body for c in ast.walk(st) if isinstance(c, ast.Call)
                      and isinstance(c.func, ast.Attribute) and c.func.attr in ('_issue', 'append', 'store_variable')]
            q = getattr(enclosing_function(node), '_qualname', '<module>')
            ctx.check(not issues, 'R5', 'set-iteration@%s:%s' % (m.name.split('.', 1)[-1], q), m, node,
                      "issues/state are produced while iterating over a set (hash order): the order of issues can "
                      "differ between runs", "analysing the same code in two interpreters gives issues in another order")
        for c in ast.walk(m.tree):
            if isinstance(c, ast.Call) and (call_name(c) or '').startswith('random.'):
                ctx.fail('R5', 'random@' + m.name, m, c, "TIFA consults random", "analysis differs between runs")
    ctx.ok('R5', 'iteration-sweep', sample={'loops': n})
    ctx.floor('R5', 'loops inspected', n, 50)


def r5b_builtin_lookup_copies(ctx, sym):
    ctx.rule('R5b', "get_builtin_name (decision table by abstract interpretation) hands out a copy of every entry of "
                    "the process-lifetime BUILTIN_NAMES table, functions and constructors alike, and None for unknown "
                    "names: a shared entry mutated by one analysis (list[int] parameterises the constructor) changes "
                    "the next analysis")
    mod = ctx.repo.module('pedal.types.builtin')
    fn = mod.func('get_builtin_name')
    ctx.analysed_function(mod, fn)

    from .. import symexec

    def entry(kind):
        o = Obj(kind, kind=kind)

        def copy():
            return Obj('COPY', kind=kind, copy_of=o)
        o.attrs['method:clone_mutably'] = copy
        o.attrs['method:clone'] = copy
        return o
    table = {'len': entry('FunctionType'), 'list': entry('ListConstructor'), 'int': entry('IntConstructor'),
             '__name__': entry('StrType')}
    # one interpreter for all look-ups: module-level memo tables behave as within one process
    fd = symexec.new_fd(sym, mod, calls={'isinstance': lambda o, t: isinstance(o, Obj) and o.attrs.get('kind') == t},
                        extra={'BUILTIN_NAMES': table, 'FunctionType': 'FunctionType'})
    for name in list(table) + ['nope']:
        got, raised = symexec.run(fd, fn, [name], what='get_builtin_name')
        again, raised2 = symexec.run(fd, fn, [name], what='get_builtin_name')
        if name in table:
            ok = raised is None and raised2 is None and all(
                isinstance(g, Obj) and g._name == 'COPY' and g.attrs.get('copy_of') is table[name]
                for g in (got, again)) and got is not again
            why = ("the shared table entry itself" if got is table[name] else
                   "the same copy on every look-up" if got is again else repr(got))
        else:
            ok = raised is None and got is None and again is None
            why = repr(got)
        ctx.check(ok, 'R5b', 'get_builtin_name[%s]' % name, mod, fn,
                  "get_builtin_name(%r) returns %s; every look-up of a known name must hand out a fresh copy (None for "
                  "an unknown name)" % (name, why),
                  "names = list(); ...; scores: list[int] analysed twice in one process: the second analysis sees the "
                  "constructor already parameterised and reports an extra issue")


def r5c_constructor_entries_are_copied(ctx, sym):
    ctx.rule('R5c', "get_builtin_name executed abstractly on a table holding instances of pedal's own constructor "
                    "types (list, dict, set, tuple, int, str - built by their real constructors): every look-up hands "
                    "out an object that is not the table entry, so indexing it (list[int]) cannot parameterise the "
                    "shared constructor for later analyses")
    from .. import symexec, fdeval as _fdeval
    from ..fdeval import Obj, Raised, Inconclusive
    bmod = ctx.repo.module('pedal.types.builtin')
    tmod = ctx.repo.module('pedal.types.new_types')
    fn = bmod.func('get_builtin_name')

    def class_of(o):
        cd = o.attrs.get('__classdef__')
        return sym.classes.get((cd._module.name, cd._qualname)) if cd is not None else None

    def b_type(o):
        return o.attrs['__classdef__'] if isinstance(o, Obj) and '__classdef__' in o.attrs else type(o)

    def b_isinstance(o, t):
        ts = t if isinstance(t, tuple) else (t,)
        if isinstance(o, Obj) and '__classdef__' in o.attrs:
            mro = list(sym.mro(class_of(o)))
            return any(getattr(x, '_fd_class', None) is not None and
                       any(getattr(k, 'node', None) is x._fd_class for k in mro) for x in ts)
        return any(isinstance(x, type) and isinstance(o, x) for x in ts)

    def build(expr):
        f = ast.parse("def _expression():\n    return %s" % expr).body[0]
        f._module, f._qualname = tmod, '_expression'
        return symexec.new_fd(sym, tmod, calls={'isinstance': b_isinstance, 'type': b_type}).call_function(f, [])
    n = 0
    for name, expr in (('list', 'ListConstructor()'), ('dict', 'DictConstructor()'), ('set', 'SetConstructor()'),
                       ('tuple', 'TupleConstructor()'), ('int', 'IntConstructor()'), ('str', 'StrConstructor()')):
        try:
            entry = build(expr)
        except (Raised, Inconclusive):
            continue        # a constructor type the interpreter cannot build: R5b (modelled entries) still applies
        if not isinstance(entry, Obj):
            continue
        table = {name: entry}
        fd = symexec.new_fd(sym, bmod, calls={'isinstance': b_isinstance, 'type': b_type},
                            extra={'BUILTIN_NAMES': table})
        try:
            first = fd.call_function(fn, [name])
            second = fd.call_function(fn, [name])
        except (Raised, Inconclusive):
            continue
        n += 1
        ok = isinstance(first, Obj) and first is not entry and second is not entry and first is not second and \
            table[name] is entry
        ctx.check(ok, 'R5c', 'get_builtin_name[%s]:real-constructor' % name, bmod, fn,
                  "looking up %r hands out %s" % (name, 'the shared table entry itself' if first is entry or
                                                  second is entry else 'the same copy twice' if first is second else
                                                  repr(first)),
                  "scores: list[int] in one submission; a bare list() in the next is typed as a list of integers")
    ctx.floor('R5c', 'constructor entries decided with real instances', n, 3)


def r6_issue_locations(ctx, sym):
    ctx.rule('R6', "sibling agreement over every TIFA issue class, each constructor executed abstractly: the location "
                   "the visitor hands in (self.locate(): the node's own line plus the section offset) is the "
                   "location Feedback.__init__ receives - no issue is recorded without its line")
    from .. import symexec
    from ..fdeval import Obj, Raised, Inconclusive
    fmod = ctx.repo.module('pedal.tifa.feedbacks')
    n = 0
    for cname, cls in sorted(fmod.classes.items()):
        init = [m for m in cls.body if isinstance(m, ast.FunctionDef) and m.name == '__init__']
        if not init:
            continue
        params = [a.arg for a in init[0].args.args][1:]
        if 'location' not in params:
            continue
        n += 1
        ctx.analysed_function(fmod, init[0])
        loc = Obj('location-from-locate', line=7, col=0, __open__=True)
        rec = symexec.Recorder()
        sup = Obj('super')
        symexec.method(sup, '__init__', rec.stub('super().__init__'))
        fmt = Obj('format', __open__=True)
        fmt.attrs['__unknown_method__'] = lambda name, *a, **k: 'formatted'
        report = Obj('report', format=fmt, __open__=True)
        me = symexec.self_obj(fmod, cname)
        args = [loc if p == 'location' else Obj('arg:' + p, __open__=True, name='n', singular_name='a thing',
                                                 plural_name='things') for p in params]
        fd = symexec.new_fd(sym, fmod, calls={'super': lambda *a: sup, 'str': lambda *a: 'text',
                                              'len': lambda *a: 2, 'isinstance': lambda *a: False},
                            extra={'MAIN_REPORT': report})
        got = None
        try:
            fd.call_function(init[0], args, {'report': report}, bound_self=me)
            built = rec.named('super().__init__')
            if len(built) == 1:
                got = built[0][2].get('location')
            decided = True
        except (Raised, Inconclusive):
            # constructor outside the fragment: fall back to the argument handed to super().__init__
            decided = False
            for c in ast.walk(init[0]):
                if isinstance(c, ast.Call) and isinstance(c.func, ast.Attribute) and c.func.attr == '__init__':
                    for k in c.keywords:
                        if k.arg == 'location' and isinstance(k.value, ast.Name) and k.value.id == 'location':
                            got = loc
        ctx.check(got is loc, 'R6', '%s:location-recorded' % cname, fmod, init[0],
                  "%s(location, ...) hands %s to Feedback.__init__ as the issue's location (%s); every other TIFA "
                  "issue records the location it was given" % (
                      cname, 'nothing' if got is None else repr(got), 'executed' if decided else 'syntactic fallback'),
                  "a program calling a number (`x = 5\\nx()`): the not_a_function issue has location None, so it "
                  "has no line and anything ordering or offsetting issues by line fails on it")
    ctx.floor('R6', 'TIFA issue classes with a location', n, 15)


def r7_unnamed_caller(ctx, sym):
    ctx.rule('R7', "a call used as a statement whose caller is not a name - `\"abc\".upper()`, `(1).bit_length()` - is "
                   "in the introductory subset: identify_caller returns None for it (by its own docstring), and "
                   "visit_Expr hands that None to unused_returned_value. The issue's constructor is executed abstractly "
                   "with name None and a string name under the methods of every Formatter class pedal ships: it does "
                   "not raise (a raise here turns the whole analysis into an internal failure)")
    from .. import symexec
    fmod = ctx.repo.module('pedal.tifa.feedbacks')
    init = fmod.func('unused_returned_value.__init__')
    ctx.analysed_function(fmod, init)
    fm = sym.find_class('pedal.core.formatting', 'Formatter')
    classes = sorted(sym.subclasses(fm), key=lambda c: (c.module.name, c.name))
    ctx.floor('R7', 'Formatter classes shipped', len(classes), 5)
    for ci in classes:
        fmt = symexec.self_obj(ci.module, ci.name)
        finit = sym.method(ci, '__init__')
        if finit is not None:
            _, raised0 = symexec.run(symexec.new_fd(sym, ci.module), finit[1], [Obj('report')], bound_self=fmt,
                                     what='%s.__init__' % ci.name)
            ctx.require(raised0 is None, "%s(report) constructs" % ci.name)
        for name in (None, 'helper'):
            rec = symexec.Recorder()
            report = Obj('report', format=fmt)
            me = symexec.self_obj(fmod, 'unused_returned_value')
            sup = Obj('super')
            symexec.method(sup, '__init__', rec.stub('super().__init__'))
            fd = symexec.new_fd(sym, fmod, calls={'super': lambda *a: sup})
            _, raised = symexec.run(fd, init, [Obj('location', line=1), name, 'method', Obj('StrType')],
                                    {'report': report}, bound_self=me, what='unused_returned_value.__init__')
            ctx.check(raised is None and len(rec.named('super().__init__')) == 1, 'R7',
                      'unused_returned_value[name=%r,%s]' % (name, ci.name), fmod, getattr(raised, 'node', None) or init,
                      "with caller name %r and formatter %s the issue's constructor %s" % (
                          name, ci.name, 'raises %s (%s)' % (raised.kind, raised.detail) if raised is not None
                          else 'does not reach Feedback.__init__ exactly once'),
                      "set_formatter(%s) (BlockPy's default is HtmlFormatter); tifa_analysis() on the one-line program "
                      "\"abc\".upper(): success is False, 'NoneType' object is not subscriptable" % ci.name,
                      construct='%s.name' % ci.name)


def run(ctx):
    sym = Symbols(ctx.repo)
    r5b_builtin_lookup_copies(ctx, sym)
    r5c_constructor_entries_are_copied(ctx, sym)
    r6_issue_locations(ctx, sym)
    locate_positionless_rule(ctx, sym, 'R6')
    r7_unnamed_caller(ctx, sym)
    # R6s: the offset locate() adds inside a section is the number of lines CPython counts before it (an offset that is
    # too large puts the issue's line outside the analysed source); shared with C17.R3
    from .c12 import section_offsets
    section_offsets(ctx, sym, as_rule='R6s')
    r1_never_raises(ctx, sym)
    r1c_constants_complete(ctx, sym)
    from .c19 import binop_cells_callable
    ctx.rule('R4b', "every cell of VALID_BINOP_TYPES accepts the (left, right) call apply_binary_operation makes "
                    "(a cell that cannot be called that way turns an ordinary program into a TIFA system error)")
    binop_cells_callable(ctx, sym, 'R4b')
    ctx.rule('R4c', "every result function of VALID_BINOP_TYPES, executed abstractly on model container operands (both "
                    "with elements of unrelated types, left empty, right empty): a container result taken from a "
                    "non-empty operand keeps an element type - a result whose element type is None makes the next "
                    "operation on it fail inside the analysis")
    from .c19 import extract_binop_table, executed_result
    omod, _, table = extract_binop_table(ctx, sym)
    seen_fns = set()
    for op, rows in table.items():
        for lcls, cols in (rows.items() if isinstance(rows, dict) else ()):
            for rcls, cell in (cols.items() if isinstance(cols, dict) else ()):
                name = str(cell)
                if name in seen_fns or not name.isidentifier():
                    continue
                seen_fns.add(name)
                r = sym.resolve_name(omod, name)
                if not (isinstance(r, tuple) and r[0] == 'func'):
                    continue
                problems = []
                res = executed_result(sym, r[1], r[2], problems)
                if res is None:
                    continue        # outside the fragment: R4b and C19.R1 still speak about this cell
                ctx.analysed_function(r[1], r[2])
                ctx.check(not problems, 'R4c', 'binop-result:%s:element-type' % name, r[1], r[2],
                          "%s: %s" % (name, '; '.join(problems[:2])),
                          "a = [1] + ['x']; a = a + [2.5] - TIFA fails with AttributeError: 'NoneType' object has no "
                          "attribute ... and the program is reported as one TIFA could not analyse")
    ctx.floor('R4c', 'result functions of the operator table', len(seen_fns), 5)
    r2_idempotent(ctx, sym)
    tifa_cache_offset_rule(ctx, sym, 'R2')
    r3_resolution(ctx, sym)
    r1d_container_literals(ctx, sym)    # after R3: an unresolved name is R3's finding, not an undecidable visitor
    r4_builtin_tables(ctx, sym)
    r4d_builtin_definitions_total(ctx, sym)
    r5_determinism(ctx, sym)
    ctx.assume("'completes for every introductory program' is decided only through resolution completeness and the "
               "builtin tables; issue lines lying within the source follow from locate() using the node's own lineno")
