"""C19 - TIFA's operator typing and value typing agree with what CPython does at run time."""
import ast
import operator

from ..astutil import dotted, calls, call_name, body_walk, walk_local
from ..fdeval import FD, Obj, Inconclusive, UNKNOWN, truth
from ..loader import AnalysisError, norm
from ..symbols import Symbols, ClassInfo
from ..tables import literal, Sym

OPS = 'pedal.types.operations'
TYPES = 'pedal.types.new_types'
NORM = 'pedal.types.normalize'
VISITOR = 'pedal.tifa.tifa_visitor'

PY_OPS = {
    'ast.Add': operator.add, 'ast.Sub': operator.sub, 'ast.Mult': operator.mul, 'ast.Div': operator.truediv,
    'ast.FloorDiv': operator.floordiv, 'ast.Mod': operator.mod, 'ast.Pow': operator.pow,
    'ast.LShift': operator.lshift, 'ast.RShift': operator.rshift, 'ast.BitOr': operator.or_,
    'ast.BitXor': operator.xor, 'ast.BitAnd': operator.and_, 'ast.MatMult': operator.matmul,
}
OP_SYMBOL = {'ast.Add': '+', 'ast.Sub': '-', 'ast.Mult': '*', 'ast.Div': '/', 'ast.FloorDiv': '//',
             'ast.Mod': '%', 'ast.Pow': '**', 'ast.LShift': '<<', 'ast.RShift': '>>', 'ast.BitOr': '|',
             'ast.BitXor': '^', 'ast.BitAnd': '&', 'ast.MatMult': '@'}

# frozen representative values per run-time type (includes empty containers, negatives, and values for
# which CPython's *result type* depends on the value: 2 ** -1, (-8) ** 0.5)
REPS = {
    int: [0, 1, -2, 7],
    float: [0.5, -8.0, 2.0],
    str: ['', 'ab'],
    list: [[], [1], ['a']],
    tuple: [(), (1,), ('a', 2)],
    bool: [True, False],
    set: [set(), {1}, {2, 3}],
}
# pedal class that a variable holding a value of the python type gets after promote()
CORE = {int: 'IntType', float: 'FloatType', str: 'StrType', list: 'ListType', tuple: 'TupleType'}
EXTRA = {bool: 'BoolType', set: 'SetType'}
# python value types each pedal class stands for (conformance oracle)
CONFORMS = {
    'IntType': (int,), 'FloatType': (float,), 'NumType': (int, float, complex), 'BoolType': (bool,),
    'StrType': (str,), 'ListType': (list,), 'TupleType': (tuple,), 'SetType': (set,), 'DictType': (dict,),
}
NUM_MEMBERS = {'NumType': (int, float)}   # operand classes standing for several run-time types


def executed_result(sym, mod, fn, container_problems=None):
    """A cell's result function executed abstractly on model operands (both with elements of unrelated types, left
    empty, right empty): each result is ('operand', i) - a clone of an operand -, ('class', name) - a newly built pedal
    type -, or ('not-a-type', text). None if the function lies outside the interpreter's fragment."""
    from .. import symexec
    from ..fdeval import Obj as _Obj, Raised as _Raised, Inconclusive as _Inc

    def elem_type(name):
        t = _Obj('type:' + name, __tname__=name)
        for nm in ('clone', 'shallow_clone', 'clone_mutably'):
            symexec.method(t, nm, lambda *a, **k: elem_type(name))
        return t

    def operand(i, empty, elem):
        o = _Obj('operand%d' % i, is_empty=empty, element_type=None if empty else elem_type(elem),
                 element_types=[] if empty else [elem_type(elem)], __operand__=i)
        o.attrs['__open__'] = True

        def clone(*a, **k):
            c = _Obj('clone of operand%d' % i, **{k_: v for k_, v in o.attrs.items() if not k_.startswith('method:')})
            c.attrs['clone_of'] = i
            for nm in ('clone', 'shallow_clone', 'clone_mutably'):
                symexec.method(c, nm, clone)
            return c
        for nm in ('clone', 'shallow_clone', 'clone_mutably'):
            symexec.method(o, nm, clone)
        return o
    out = set()
    for l_empty, r_empty in ((False, False), (True, False), (False, True)):
        left, right = operand(0, l_empty, 'IntType'), operand(1, r_empty, 'StrType')
        same = lambda a, b: isinstance(a, _Obj) and isinstance(b, _Obj) and \
            a.attrs.get('__tname__') == b.attrs.get('__tname__')
        fd = symexec.new_fd(sym, mod, calls={'is_subtype': same, 'tuple': lambda x=(): tuple(x), 'list': lambda x=(): list(x)})
        try:
            res = fd.call_function(fn, [left, right])
        except _Raised as e:
            out.add(('not-a-type', 'raises %s' % e.kind))
            continue
        except _Inc:
            return None
        if isinstance(res, _Obj) and 'clone_of' in res.attrs:
            out.add(('operand', res.attrs['clone_of']))
            src = (left, right)[res.attrs['clone_of']]
            if container_problems is not None and not src.attrs['is_empty'] and \
                    not isinstance(res.attrs.get('element_type'), _Obj):
                container_problems.append("with %s left and %s right operand the resulting container's element type is "
                                          "%r" % ('an empty' if l_empty else 'a non-empty',
                                                  'an empty' if r_empty else 'a non-empty', res.attrs.get('element_type')))
        elif isinstance(res, _Obj) and '__operand__' in res.attrs:
            out.add(('operand', res.attrs['__operand__']))
        elif isinstance(res, _Obj) and '__classdef__' in res.attrs:
            cd = res.attrs['__classdef__']
            ci = sym.classes.get((getattr(getattr(cd, '_module', None), 'name', None), getattr(cd, '_qualname', cd.name)))
            names = [k.name for k in sym.mro(ci)] if ci is not None else []
            out.add(('class', cd.name) if 'Type' in names else ('not-a-type', 'an instance of %s' % cd.name))
        else:
            out.add(('not-a-type', repr(res)))
    return out


def abstract_result(sym, mod, fn_name, container_problems=None):
    """A cell's result function: executed on model operands where possible, else abstracted by its return
    expressions."""
    r = sym.resolve_name(mod, fn_name)
    if isinstance(r, ClassInfo):
        return {('class', r.name)}
    if not (isinstance(r, tuple) and r[0] == 'func'):
        raise AnalysisError("C19 R1: cell function %s does not resolve" % fn_name)
    fn = r[2]
    executed = executed_result(sym, r[1], fn, container_problems)
    if executed is not None:
        return executed
    params = [a.arg for a in fn.args.args]
    out = set()
    for n in body_walk(fn):
        if isinstance(n, ast.Return):
            out.add(_abstract_expr(sym, r[1], n.value, params))
    return out


def _abstract_expr(sym, mod, e, params):
    if isinstance(e, ast.Name) and e.id in params:
        return ('operand', params.index(e.id))
    if isinstance(e, ast.Call):
        if isinstance(e.func, ast.Attribute) and e.func.attr in ('clone', 'shallow_clone', 'clone_mutably') \
                and isinstance(e.func.value, ast.Name) and e.func.value.id in params:
            return ('operand', params.index(e.func.value.id))
        d = dotted(e.func)
        if d:
            c = sym.resolve_name(mod, d.split('.')[0]) if '.' not in d else sym.resolve_expr(mod, e.func)
            if isinstance(c, ClassInfo):
                names = [k.name for k in sym.mro(c)]
                if 'Type' in names:
                    return ('class', c.name)
    return ('not-a-type', norm(e))


def extract_binop_table(ctx, sym):
    mod = ctx.repo.module(OPS)
    expr = mod.top_assign('VALID_BINOP_TYPES')
    from ..tables import table_by_execution
    table = table_by_execution(sym, mod, 'VALID_BINOP_TYPES')
    ctx.require(isinstance(table, dict) and table, "VALID_BINOP_TYPES is not a literal dict")
    return mod, expr, table


def binop_cells_callable(ctx, sym, rule):
    """Every cell of VALID_BINOP_TYPES (all rows, not only the core types) is called as cell(left, right) by
    apply_binary_operation: it must be a function of two positional parameters (or a class whose constructor takes
    two)."""
    mod, expr, table = extract_binop_table(ctx, sym)
    n = 0
    for op, rows in table.items():
        if not isinstance(rows, dict):
            continue
        for l, cols in rows.items():
            if not isinstance(cols, dict):
                continue
            for r_, cell in cols.items():
                n += 1
                name = str(cell)
                res = sym.resolve_name(mod, name) if name.isidentifier() else None
                ok, why = True, ''
                if isinstance(res, ClassInfo):
                    init = sym.method(res, '__init__')
                    params = [a.arg for a in init[1].args.args][1:] if init else []
                    required = len(params) - len(init[1].args.defaults) if init else 0
                    ok = init is not None and (len(params) >= 2 or init[1].args.vararg is not None) and required <= 2
                    why = "class %s, whose constructor takes %s" % (name, params or 'no arguments')
                elif isinstance(res, tuple) and res and res[0] == 'func':
                    a_ = res[2].args
                    params = [x.arg for x in a_.args]
                    ok = (len(params) >= 2 or a_.vararg is not None) and len(params) - len(a_.defaults) <= 2
                    why = "function %s(%s)" % (name, ', '.join(params))
                elif name == '<lambda>':
                    ok = True
                else:
                    ok, why = False, "%r, which does not resolve to a function or class" % name
                ctx.check(ok, rule, 'VALID_BINOP_TYPES[%s][%s][%s]:callable' % (str(op).split('.')[-1], l, r_), mod,
                          expr, "the cell is %s; apply_binary_operation calls it as cell(left, right), which raises "
                          "TypeError" % why,
                          "a program applying %s to a %s and a %s: TIFA ends with a system error instead of an "
                          "analysis" % (str(op).split('.')[-1], l, r_), construct='VALID_BINOP_TYPES')
    ctx.floor(rule, 'binary operator cells', n, 80)


def r1_binop_table(ctx, sym):
    ctx.rule('R1', "VALID_BINOP_TYPES, exhaustively: (a) a core pair for which CPython raises TypeError on all "
                   "representatives has no cell (-> ImpossibleType -> incompatible_types); (b) a present cell's "
                   "abstract result is a pedal Type to which every CPython result value conforms")
    mod, expr, table = extract_binop_table(ctx, sym)
    cells = 0
    abstract_cache = {}
    for op in table:
        ctx.require(op in PY_OPS, "unknown operator key %s in VALID_BINOP_TYPES" % op)
    # (a) over core x core for every operator CPython has, including operators missing from the table
    core_items = list(CORE.items())
    for op, pyop in PY_OPS.items():
        rows = table.get(op, {})
        for lt, lcls in core_items:
            for rt, rcls in core_items:
                verdicts = []
                for a in REPS[lt]:
                    for b in REPS[rt]:
                        try:
                            pyop(a, b)
                            verdicts.append('ok')
                        except TypeError:
                            verdicts.append('TypeError')
                        except (ZeroDivisionError, OverflowError, ValueError, MemoryError):
                            pass
                if not verdicts:
                    continue
                present = rcls in rows.get(Sym(lcls), {})
                key = "VALID_BINOP_TYPES[%s][%s][%s]" % (op.split('.')[1], lcls, rcls)
                if all(v == 'TypeError' for v in verdicts):
                    ctx.check(not present, 'R1', key + ':absent', mod, expr,
                              "CPython raises TypeError for %s %s %s on every representative, but the table has a "
                              "cell, so TIFA reports nothing" % (lt.__name__, OP_SYMBOL[op], rt.__name__),
                              "x = %r; y = %r; x %s y" % (REPS[lt][-1], REPS[rt][-1], OP_SYMBOL[op]),
                              construct=key, sample={'cpython': 'TypeError', 'cell': present})
    # (b) every present cell
    cls_to_py = {v: k for k, v in list(CORE.items()) + list(EXTRA.items())}
    for op, rows in table.items():
        pyop = PY_OPS[op]
        for lcls, cols in rows.items():
            for rcls, fn_name in cols.items():
                cells += 1
                key = "VALID_BINOP_TYPES[%s][%s][%s]" % (op.split('.')[1], lcls, rcls)
                if fn_name not in abstract_cache:
                    abstract_cache[fn_name] = abstract_result(sym, mod, str(fn_name))
                results = abstract_cache[fn_name]
                bad = [r for r in results if r[0] == 'not-a-type']
                if bad or not results:
                    node = sym.resolve_name(mod, str(fn_name))
                    ctx.fail('R1', key + ':type', node[1] if isinstance(node, tuple) else mod,
                             node[2] if isinstance(node, tuple) else expr,
                             "the cell's result function %s returns %s, which is not a pedal Type" % (
                                 fn_name, bad[0][1] if bad else 'nothing'),
                             "a = (1, 2); b = (3,); c = a + b  -> the recorded type of c is a Python object, "
                             "later is_subtype/clone calls on it fail")
                    continue
                ltypes = NUM_MEMBERS.get(str(lcls)) or ((cls_to_py[str(lcls)],) if str(lcls) in cls_to_py else None)
                rtypes = NUM_MEMBERS.get(str(rcls)) or ((cls_to_py[str(rcls)],) if str(rcls) in cls_to_py else None)
                if ltypes is None or rtypes is None:
                    raise AnalysisError("C19 R1: no representatives for cell %s" % key)
                verdict_pairs = 0
                nonconf = []
                for lt in ltypes:
                    for rt in rtypes:
                        for a in REPS[lt]:
                            for b in REPS[rt]:
                                try:
                                    val = pyop(a, b)
                                except TypeError:
                                    # value pair CPython rejects: no conformance verdict (NumType rows)
                                    continue
                                except (ZeroDivisionError, OverflowError, ValueError, MemoryError):
                                    continue
                                verdict_pairs += 1
                                for res in results:
                                    if res[0] == 'class':
                                        allowed = CONFORMS.get(res[1])
                                        if allowed is None:
                                            raise AnalysisError("C19 R1: no conformance rule for %s" % res[1])
                                        ok = type(val) in allowed
                                    else:
                                        ok = type(val) is (lt if res[1] == 0 else rt)
                                    if not ok:
                                        nonconf.append((a, b, val, res))
                if verdict_pairs == 0:
                    # cell whose operand classes never succeed in CPython: covered by (a) for core pairs
                    ctx.info("%s: no CPython-accepted representative pair" % key)
                    continue
                if nonconf:
                    a, b, val, res = nonconf[0]
                    ctx.fail('R1', key + ':conforms', mod, expr,
                             "cell types the result as %s but CPython computes %r %s %r = %r (%s)" % (
                                 res[1] if res[0] == 'class' else ('the %s operand' % ('left', 'right')[res[1]]),
                                 a, OP_SYMBOL[op], b, val, type(val).__name__),
                             "x = %r; y = %r; z = x %s y  -> TIFA infers %s for z" % (
                                 a, b, OP_SYMBOL[op], res[1] if res[0] == 'class' else 'operand type'),
                             construct="%s -> %s" % (key, fn_name))
                else:
                    ctx.ok('R1', key + ':conforms', sample={'cell': key, 'result': sorted(map(str, results)),
                                                            'pairs': verdict_pairs})
    ctx.floor('R1', 'operator cells', cells, 100)
    return table


def r2_dispatch(ctx, sym, table):
    ctx.rule('R2', "apply_binary_operation (decision table by abstract interpretation): AnyType short-circuits, "
                   "literals are promoted, the table is indexed by exact operator/left/right classes, every miss "
                   "falls through to ImpossibleType; visit_BinOp issues incompatible_types exactly under "
                   "isinstance(result, ImpossibleType)")
    mod = ctx.repo.module(OPS)
    fn = mod.func('apply_binary_operation')
    ctx.analysed_function(mod, fn)

    def mk(cls, literal_of=None, parents=()):
        return Obj(cls, cls=cls, promoted=literal_of, parents=list(parents))

    def b_isinstance(o, c):
        if not isinstance(o, Obj):
            return False
        if c == 'AnyType':
            return o.attrs['cls'] == 'AnyType'
        if c == 'LiteralValue':
            return o.attrs.get('promoted') is not None
        raise Inconclusive('isinstance against %r' % (c,))

    def m_promote(o):
        return mk(o.attrs['promoted'])

    cellfn = lambda l, r: ('CELL', l.attrs['cls'], r.attrs['cls'])
    tbl = {'OP': {'L': {'R': cellfn}}}
    scenarios = [
        ('any-left', mk('AnyType'), mk('R'), 'OP', lambda l, r: r),
        ('any-right', mk('L'), mk('AnyType'), 'OP', lambda l, r: l),
        ('hit', mk('L'), mk('R'), 'OP', ('CELL', 'L', 'R')),
        ('hit-literals', mk('LitL', 'L'), mk('LitR', 'R'), 'OP', ('CELL', 'L', 'R')),
        ('miss-op', mk('L'), mk('R'), 'OTHER', 'IMPOSSIBLE'),
        ('miss-left', mk('X'), mk('R'), 'OP', 'IMPOSSIBLE'),
        ('miss-right', mk('L'), mk('X'), 'OP', 'IMPOSSIBLE'),
        ('swapped', mk('R'), mk('L'), 'OP', 'IMPOSSIBLE'),
        # a class without a row of its own is a miss even when a more general parent type has one: CPython rejects
        # 1.5 << 2 although "numbers" can be shifted
        ('miss-left-parent-has-row', mk('X', parents=[mk('L')]), mk('R'), 'OP', 'IMPOSSIBLE'),
        ('miss-right-parent-has-row', mk('L'), mk('X', parents=[mk('R')]), 'OP', 'IMPOSSIBLE'),
    ]
    from ..fdeval import module_resolver
    for name, l, r, op, want in scenarios:
        fd = FD(calls={'isinstance': b_isinstance,
                       'type': lambda o: o.attrs['cls'] if isinstance(o, Obj) else o,
                       'ImpossibleType': lambda: 'IMPOSSIBLE',
                       'AnyType': lambda: mk('AnyType')},
                methods={'promote': m_promote},
                resolver=module_resolver(sym, mod, extra={'VALID_BINOP_TYPES': tbl, 'AnyType': 'AnyType',
                                                          'LiteralValue': 'LiteralValue'}))
        try:
            got = fd.call_function(fn, [Obj('op', cls=op), l, r])
        except Inconclusive as e:
            raise AnalysisError("C19 R2: apply_binary_operation outside the decidable fragment: %s" % e)
        except Raised as e:
            got = 'raises %s' % e.kind
        expect = want(l, r) if callable(want) else want
        same = (got is expect) if isinstance(expect, Obj) else (got == expect)
        ctx.check(same, 'R2', 'apply_binary_operation:' + name, mod, fn,
                  "scenario %s returns %r, expected %r" % (name, got, expect),
                  "a binary operation whose operand classes %s" % name, construct='apply_binary_operation')
    # visit_BinOp executed abstractly with marker operands
    from .. import symexec
    vmod = ctx.repo.module(VISITOR)
    vb = vmod.func('Tifa.visit_BinOp')
    ctx.analysed_function(vmod, vb)
    for impossible in (False, True):
        rec = symexec.Recorder()
        lt, rt, opn = symexec.marker('left-type'), symexec.marker('right-type'), symexec.marker('op')
        result = Obj('ImpossibleType' if impossible else 'result-type')
        node = Obj('BinOp', left=Obj('expr', tag='L'), right=Obj('expr', tag='R'), op=opn)
        me = symexec.self_obj(vmod, 'Tifa', report=Obj('report'))
        symexec.method(me, 'visit', lambda x: {'L': lt, 'R': rt}[x.attrs['tag']])
        symexec.method(me, 'locate', lambda *a: 'here')
        symexec.method(me, '_issue', rec.stub('_issue'))
        fd = symexec.new_fd(sym, vmod, calls={
            'apply_binary_operation': rec.stub('apply_binary_operation', ret=result),
            'isinstance': lambda o, t: isinstance(o, Obj) and o._name == t,
            'incompatible_types': rec.stub('incompatible_types', ret=Obj('feedback'))},
            extra={'ImpossibleType': 'ImpossibleType'})
        got, raised = symexec.run(fd, vb, [node], bound_self=me, what='Tifa.visit_BinOp')
        ap = rec.named('apply_binary_operation')
        ok = raised is None and len(ap) == 1 and ap[0][1][0] is opn and ap[0][1][1] is lt and ap[0][1][2] is rt and \
            len(rec.named('_issue')) == (1 if impossible else 0) and got is result
        ctx.check(ok, 'R2', 'visit_BinOp:issue[%s]' % ('impossible' if impossible else 'typed'), vmod, vb,
                  "visit_BinOp does not apply the table to (node.op, visit(left), visit(right)), issue "
                  "incompatible_types exactly when the result is an ImpossibleType, and return the result "
                  "(%d issue(s), %d table call(s))" % (len(rec.named('_issue')), len(ap)),
                  "x = 'a' + 1", construct='visit_BinOp')


def class_table_value(sym, ci, attr):
    """Resolve a class attribute including module-level `A.x = B.x = NAME` and `for c in [..]: c.x = ...`."""
    return None


def extract_orderable(ctx, sym):
    """class name -> frozenset of class names (class body + the module-level assignment forms)."""
    mod = ctx.repo.module(TYPES)
    out = {}
    base = sym.find_class(TYPES, 'Type')
    for ci in sym.classes.values():
        if ci.module is mod and 'orderable' in ci.attrs:
            v = literal(ci.attrs['orderable'], resolve_consts=False)
            out[ci.name] = frozenset(str(x) for x in v)
    consts = {}
    for st in mod.tree.body:
        if isinstance(st, ast.Assign):
            tgt_attrs = [t for t in st.targets if isinstance(t, ast.Attribute) and t.attr == 'orderable']
            if tgt_attrs:
                if len(tgt_attrs) != len(st.targets):
                    raise AnalysisError("C19 R3: mixed orderable assignment")
                val = st.value
                if isinstance(val, ast.Name) and val.id in consts:
                    v = consts[val.id]
                else:
                    v = frozenset(str(x) for x in literal(val, resolve_consts=False))
                for t in tgt_attrs:
                    out[dotted(t.value)] = v
            elif len(st.targets) == 1 and isinstance(st.targets[0], ast.Name):
                try:
                    v = literal(st.value, resolve_consts=False)
                    if isinstance(v, frozenset):
                        consts[st.targets[0].id] = frozenset(str(x) for x in v)
                except AnalysisError:
                    pass
        elif isinstance(st, ast.For) and any(isinstance(n, ast.Attribute) and n.attr == 'orderable'
                                             for n in ast.walk(st)):
            # for c in [A, B]: c.orderable = frozenset([c])
            if not (isinstance(st.target, ast.Name) and isinstance(st.iter, (ast.List, ast.Tuple))
                    and len(st.body) == 1 and isinstance(st.body[0], ast.Assign)):
                raise AnalysisError("C19 R3: unrecognised orderable loop")
            var = st.target.id
            asg = st.body[0]
            if not (norm(asg.targets[0]) == var + '.orderable'):
                raise AnalysisError("C19 R3: unrecognised orderable loop body")
            for el in st.iter.elts:
                v = literal(asg.value, resolve_consts=False)
                out[dotted(el)] = frozenset(dotted(el) if str(x) == var else str(x) for x in v)
    return out


def orderable_of(sym, orderable, cls_name):
    ci = sym.find_class(TYPES, cls_name)
    for c in sym.mro(ci):
        if c.name in orderable:
            return orderable[c.name]
    return frozenset()


PY_REPR = {int: ['IntType', 'LiteralInt'], float: ['FloatType', 'LiteralFloat'],
           str: ['StrType', 'LiteralStr'], list: ['ListType'], tuple: ['TupleType']}


def r3_comparisons(ctx, sym):
    ctx.rule('R3', "ordering: for every ordered pair of core types on which CPython's < raises TypeError for all "
                   "representatives, type(right) is not in left.orderable (class tables extracted); membership: "
                   "where `x in y` always raises, y's allows_membership is false for x; visit_Compare skips only "
                   "Eq/NotEq/Is/IsNot unconditionally")
    orderable = extract_orderable(ctx, sym)
    mod = ctx.repo.module(TYPES)
    n = 0
    for lt in PY_REPR:
        for rt in PY_REPR:
            verdicts = []
            for a in REPS[lt]:
                for b in REPS[rt]:
                    try:
                        a < b
                        verdicts.append('ok')
                    except TypeError:
                        verdicts.append('TypeError')
            always_err = all(v == 'TypeError' for v in verdicts)
            for lcls in PY_REPR[lt]:
                for rcls in PY_REPR[rt]:
                    n += 1
                    allowed = rcls in orderable_of(sym, orderable, lcls)
                    key = "orderable[%s][%s]" % (lcls, rcls)
                    if always_err:
                        ctx.check(not allowed, 'R3', key, mod, sym.find_class(TYPES, lcls).node,
                                  "CPython raises TypeError for %s < %s on every representative but %s.orderable "
                                  "contains %s, so visit_Compare reports nothing" % (
                                      lt.__name__, rt.__name__, lcls, rcls),
                                  "x = %r; y = %r; x < y" % (REPS[lt][-1], REPS[rt][-1]), construct=key,
                                  sample={'cpython': 'TypeError', 'orderable': allowed})
                    else:
                        ctx.ok('R3', key, sample={'cpython': 'value-dependent/ok', 'orderable': allowed},
                               nontrivial=False)
    ctx.floor('R3', 'ordering pairs', n, 60)
    # membership
    parents = {}
    for ci in sym.classes.values():
        if ci.module is mod and 'parents' in ci.attrs and ci.attrs['parents'] is not None:
            try:
                v = literal(ci.attrs['parents'], resolve_consts=False)
                parents[ci.name] = [str(x[1]) if isinstance(x, tuple) else str(x) for x in v]
            except AnalysisError:
                parents[ci.name] = None

    def subtype(a, b, depth=0):
        """Model of is_subtype(A(), B()) for argument-free instances, derived from the parents tables."""
        if a == b:
            return True
        if depth > 6:
            return False
        ps = None
        for c in sym.mro(sym.find_class(TYPES, a)):
            if c.name in parents:
                ps = parents[c.name]
                break
        if ps is None:
            return None
        res = False
        for p in ps:
            r = subtype(p, b, depth + 1)
            if r is None:
                return None
            res = res or r
        return res

    for rt in PY_REPR:
        for lt in PY_REPR:
            verdicts = []
            for a in REPS[lt]:
                for b in REPS[rt]:
                    try:
                        a in b
                        verdicts.append('ok')
                    except TypeError:
                        verdicts.append('TypeError')
            if not all(v == 'TypeError' for v in verdicts):
                continue
            for rcls in PY_REPR[rt]:
                ci = sym.find_class(TYPES, rcls)
                owner, fn = sym.method(ci, 'allows_membership')
                ctx.analysed_function(owner.module, fn)
                rets = [x for x in body_walk(fn) if isinstance(x, ast.Return)]
                for lcls in PY_REPR[lt]:
                    key = "allows_membership[%s in %s]" % (lcls, rcls)
                    verdict = None
                    if len(rets) == 1:
                        v = rets[0].value
                        if isinstance(v, ast.Constant) and v.value is False:
                            verdict = False
                        elif isinstance(v, ast.Constant) and v.value is True:
                            verdict = True
                        elif isinstance(v, ast.Call) and call_name(v) == 'is_subtype' and \
                                isinstance(v.args[0], ast.Name) and isinstance(v.args[1], ast.Call):
                            verdict = subtype(lcls, call_name(v.args[1]))
                    if verdict is None:
                        raise AnalysisError("C19 R3: %s.allows_membership outside the recognised idioms" % owner.name)
                    ctx.check(not verdict, 'R3', key, owner.module, fn,
                              "CPython raises TypeError for `%s in %s` but %s.allows_membership accepts it" % (
                                  lt.__name__, rt.__name__, rcls),
                              "x = %r; y = %r; x in y" % (REPS[lt][-1], REPS[rt][-1]), construct=key)
    # visit_Compare, executed abstractly for every comparison operator x {ordering allowed or not} x {membership
    # allowed or not}, also inside a chained comparison
    from .. import symexec
    from ..fdeval import Obj as _Obj
    vmod = ctx.repo.module(VISITOR)
    vc = vmod.func('Tifa.visit_Compare')
    ctx.analysed_function(vmod, vc)
    families = {'Eq': 'equality', 'NotEq': 'equality', 'Is': 'equality', 'IsNot': 'equality',
                'Lt': 'ordering', 'LtE': 'ordering', 'Gt': 'ordering', 'GtE': 'ordering',
                'In': 'membership', 'NotIn': 'membership'}
    n_cmp = 0
    for opname, family in families.items():
        for orderable_ok in (True, False):
            for member_ok in (True, False):
                for chained in (False, True):
                    n_cmp += 1
                    rec = symexec.Recorder()
                    right_t = _Obj('right-type', __cls__='RightType')
                    symexec.method(right_t, 'allows_membership', lambda l: member_ok)
                    left_t = _Obj('left-type', __cls__='LeftType',
                                  orderable=frozenset(['RightType']) if orderable_ok else frozenset())
                    symexec.method(left_t, 'allows_membership', lambda l: True)
                    left_t.attrs['orderable'] = left_t.attrs['orderable'] | (frozenset(['LeftType']))
                    types = {'L': left_t, 'R': right_t}
                    ops = [_Obj('op', __astclass__=opname)]
                    comps = [_Obj('expr', tag='R')]
                    if chained:
                        # a harmless first link (left == left) in front of the operator under test
                        ops = [_Obj('op', __astclass__='Eq')] + ops
                        comps = [_Obj('expr', tag='L')] + comps
                    node = _Obj('Compare', left=_Obj('expr', tag='L'), ops=ops, comparators=comps)
                    me = symexec.self_obj(vmod, 'Tifa', report=_Obj('report'))
                    symexec.method(me, 'visit', lambda x: types[x.attrs['tag']])
                    symexec.method(me, 'locate', lambda *a: 'here')
                    symexec.method(me, '_issue', rec.stub('_issue'))

                    def b_isinstance(o, t):
                        ts = t if isinstance(t, tuple) else (t,)
                        return isinstance(o, _Obj) and any(isinstance(x, str) and x == 'ast.' + str(
                            o.attrs.get('__astclass__')) for x in ts)
                    fd = symexec.new_fd(sym, vmod, calls={
                        'isinstance': b_isinstance, 'type': lambda o: o.attrs.get('__cls__') if isinstance(o, _Obj) else type(o),
                        'incompatible_types': rec.stub('incompatible_types', ret=_Obj('feedback')),
                        'BoolType': lambda *a: _Obj('BoolType')})
                    _, raised = symexec.run(fd, vc, [node], bound_self=me, what='Tifa.visit_Compare')
                    issued = len(rec.named('_issue'))
                    want = 0 if family == 'equality' else (
                        (0 if orderable_ok else 1) if family == 'ordering' else (0 if member_ok else 1))
                    ctx.check(raised is None and issued == want, 'R3',
                              'visit_Compare:%s[orderable=%s,membership=%s%s]' % (
                                  opname, orderable_ok, member_ok, ',chained' if chained else ''), vmod, vc,
                              "operator %s (%s family) with the right type %sin left.orderable and "
                              "right.allows_membership(left)=%s: %d incompatible-types issue(s), expected %d%s" % (
                                  opname, family, '' if orderable_ok else 'not ', member_ok, issued, want,
                                  '' if raised is None else '; raises ' + raised.kind),
                              "x = 'a'; y = 1; x < y   /   1 in 5", construct='visit_Compare')
    ctx.floor('R3', 'visit_Compare scenarios', n_cmp, 60)


def r4_value_typing(ctx, sym):
    ctx.rule('R4', "get_pedal_type_from_value: no generator is stored by a Type constructor (one-shot iterables make "
                   "the type unstable on repeated queries); the per-value classes are decided by R4e")
    mod = ctx.repo.module(NORM)
    fn = mod.func('get_pedal_type_from_value')
    ctx.analysed_function(mod, fn)
    value = fn.args.args[0].arg
    # (a) generic escape rule over all Type constructors in pedal/types and pedal/tifa
    type_base = sym.find_class(TYPES, 'Type')
    n_sites = 0
    for m in ctx.repo.modules.values():
        if not (m.name.startswith('pedal.types') or m.name.startswith('pedal.tifa')):
            continue
        for call in ast.walk(m.tree):
            if not isinstance(call, ast.Call):
                continue
            gens = [(i, a) for i, a in enumerate(call.args) if isinstance(a, ast.GeneratorExp)]
            if not gens:
                continue
            d = dotted(call.func)
            if d is None:
                continue
            c = sym.resolve_expr(m, call.func)
            if not (isinstance(c, ClassInfo) and type_base in sym.mro(c)):
                continue
            init = sym.method(c, '__init__')
            if init is None:
                continue
            owner, init_fn = init
            params = [a.arg for a in init_fn.args.args][1:]
            for i, g in gens:
                n_sites += 1
                if i >= len(params):
                    continue
                p = params[i]
                stored = [n for n in body_walk(init_fn) if isinstance(n, ast.Assign)
                          and isinstance(n.value, ast.Name) and n.value.id == p
                          and any(isinstance(t, ast.Attribute) and isinstance(t.value, ast.Name)
                                  and t.value.id == 'self' for t in n.targets)]
                rebound = [n for n in body_walk(init_fn) if isinstance(n, ast.Assign)
                           and any(isinstance(t, ast.Name) and t.id == p for t in n.targets)
                           and isinstance(n.value, ast.Call) and call_name(n.value) in ('tuple', 'list')
                           and any(isinstance(a, ast.Name) and a.id == p for a in n.value.args)
                           and n in init_fn.body]
                key = "%s:%s(<genexp>)" % (getattr(_encl(call), '_qualname', '<module>'), c.name)
                if m is not mod:
                    # outside value typing (e.g. TIFA's model of zip()): same latent slip, but not a clause of C19
                    if stored and not rebound:
                        ctx.info("%s: generator stored by %s outside value typing (not a C19 clause)" % (
                            m.loc(call), c.name))
                    continue
                ctx.check(not stored or bool(rebound), 'R4', key, m, call,
                          "a generator expression is passed to %s, whose __init__ stores the argument as self.%s "
                          "unmaterialised; the first traversal exhausts it, so later is_subtype/clone/is_empty see "
                          "an empty sequence" % (c.name, stored[0].targets[0].attr if stored else '?'),
                          "t = get_pedal_type_from_value((1, 'a')); is_subtype(t, t) differs between the first "
                          "and the second call")


def r4e_value_typing_executed(ctx, sym):
    ctx.rule('R4e', "get_pedal_type_from_value executed abstractly on scalar and container representatives (the "
                    "latter also when no common element type exists), in both orders within "
                    "one process (module-level state such as a cache is shared between the calls, as at run time): "
                    "the class of the result is the literal/plain pedal type of the value's own Python type. 1, 1.0 "
                    "and True are equal and hash alike, so any value-keyed memo confuses them")
    from ..fdeval import FD, Obj, Inconclusive, Raised, module_resolver
    mod = ctx.repo.module(NORM)
    fn = mod.func('get_pedal_type_from_value')
    # helper functions of the module, interpreted inline; pedal classes and other pedal functions stay symbolic
    functions = {}
    calls = {}
    standins = {}
    for st in mod.tree.body:
        if isinstance(st, ast.FunctionDef):
            functions[st.name] = st
    used = {n.id for n in ast.walk(mod.tree) if isinstance(n, ast.Name)}
    for name in sorted(used):
        if name in functions:
            continue
        r = sym.resolve_name(mod, name)
        if isinstance(r, ClassInfo):
            standins[name] = (lambda nm: (lambda *a, **k: Obj(nm, args=a, __cls__=nm)))(r.name)
            standins[name]._fd_class = r.name
        elif isinstance(r, tuple) and r and r[0] == 'func':
            standins[name] = (lambda nm: (lambda *a, **k: (None if (nm == 'widest_type' and mode['widest_none'])
                                                           else Obj('result-of-' + nm, args=a, __cls__=None))))(name)
        else:
            continue
        standins[name]._fd_callable = True
    mode = {'widest_none': False}

    def _isinstance(v, t):
        ts = t if isinstance(t, tuple) else (t,)
        if isinstance(v, Obj):
            cls = v.attrs.get('__cls__')
            ci = sym.find_class(TYPES, cls) if cls else None
            names = [k.name for k in sym.mro(ci)] if ci is not None else []
            return any(getattr(x, '_fd_class', None) in names for x in ts)
        return isinstance(v, tuple(x for x in ts if isinstance(x, type)))
    calls['isinstance'] = _isinstance
    calls['type'] = lambda v: type(v)
    want = {bool: 'BoolType', int: 'IntType', float: 'FloatType', str: 'StrType', type(None): 'NoneType',
            complex: 'NumType', tuple: 'TupleType', list: 'ListType', set: 'SetType', frozenset: 'FrozenSetType',
            dict: 'DictType'}
    scalars = [True, 1, 1.0, 0, 0.0, False, -1, -1.0, 'a', '', None, 1j, (1, 1.0), (1.0, 1), (True, 1), 2, 2.0]
    containers = [(), [], [1, 2], [1, 'a'], set(), {1}, {1, 'a'}, frozenset(), frozenset({1, 'a'}), {}, {'a': 1},
                  {1: 'a', 2: 'b'}, {'a': 1, 'b': 'x'}, [[1], [2]], {'k': [1, 2]}]
    n = 0
    for order_name, seq in (('forward', scalars + containers), ('backward', list(reversed(scalars + containers))),
                            ('no-common-element-type', containers)):
        mode['widest_none'] = order_name == 'no-common-element-type'
        fd = FD(calls=calls, functions=functions, max_steps=200000,
                resolver=module_resolver(sym, mod, extra=standins))
        for v in seq:
            try:
                got = fd.call_function(fn, [v, None])
            except Raised as e:
                got = Obj('raised ' + e.kind, __cls__=None)
            except Inconclusive as e:
                raise AnalysisError("C19 R4e: get_pedal_type_from_value(%r) is outside the decidable fragment: %s" % (
                    v, e))

            def conforms(t, val):
                cls = t.attrs.get('__cls__') if isinstance(t, Obj) else None
                ci = sym.find_class(TYPES, cls) if cls else None
                if ci is None:
                    return False
                if not (want[type(val)] in [k.name for k in sym.mro(ci)] or _parent_chain_has(sym, ci, want[type(val)])):
                    return False
                if isinstance(val, (list, set, frozenset, dict)):
                    return True
                if isinstance(val, tuple):
                    elems = t.attrs['args'][0] if t.attrs.get('args') else ()
                    try:
                        elems = list(elems)
                    except TypeError:
                        return False
                    return len(elems) == len(val) and all(conforms(a, b) for a, b in zip(elems, val))
                # a literal type must carry the value itself (LiteralInt(1) for 1, not for True)
                a = t.attrs.get('args') or ()
                return not a or (type(a[0]) is type(val) and a[0] == val)
            n += 1
            ctx.check(conforms(got, v), 'R4e', 'get_pedal_type_from_value(%s):%s' % (
                repr(v) if not isinstance(v, (set, frozenset)) else '%s(%r)' % (type(v).__name__, sorted(v, key=repr)),
                order_name),
                      mod, fn, "get_pedal_type_from_value(%r), called after %s in the same process, yields %s%s; "
                      "expected a %s" % (v, 'the earlier representatives', got,
                                         getattr(got, 'attrs', {}).get('args', ''), want[type(v)]),
                      "type 1 and then 1.0 (or True) in one process", construct='get_pedal_type_from_value')
    ctx.floor('R4e', 'value-typing evaluations', n, 30)


def _parent_chain_has(sym, ci, name, depth=0):
    if depth > 5:
        return False
    for c in sym.mro(ci):
        if c.name == name:
            return True
        p = c.attrs.get('parents')
        if p is not None and isinstance(p, ast.List):
            for el in p.elts:
                if isinstance(el, ast.Call):
                    pc = sym.resolve_expr(c.module, el.func)
                    if isinstance(pc, ClassInfo) and _parent_chain_has(sym, pc, name, depth + 1):
                        return True
            return False
    return False


def _encl(node):
    from ..loader import enclosing_function
    return enclosing_function(node)


def r5_reflexive(ctx, sym):
    ctx.rule('R5', "every class that overrides is_subtype accepts an operand of its own class: two separately built, "
                   "equal instances of the class (pedal's own constructors, executed) are subtypes of each other; where "
                   "an instance cannot be built by the interpreter the override must test type(self) == type(other) "
                   "or delegate to super().is_subtype (syntactic fallback)")
    from .. import symexec, fdeval as _fdeval
    from ..fdeval import Obj, Raised, Inconclusive
    tmod = ctx.repo.module(TYPES)
    base = sym.find_class(TYPES, 'Type')
    # how to build an instance of the classes whose constructor needs arguments
    builders = {'ListType': 'ListType(False, IntType())', 'SetType': 'SetType(False, StrType(False))',
                'FrozenSetType': 'FrozenSetType(False, IntType())', 'GeneratorType': 'GeneratorType(False, IntType())',
                'ElementContainerType': 'ListType(False, IntType())',    # (abstract: through a concrete subclass)
                'TupleType': 'TupleType([IntType(), StrType(False)])',
                'DictType': 'DictType([(StrType(False), IntType())])', 'StrType': 'StrType(False)',
                'LiteralInt': 'LiteralInt(5)', 'LiteralFloat': 'LiteralFloat(2.5)', 'LiteralStr': "LiteralStr('x')",
                'LiteralBool': 'LiteralBool(True)'}

    def class_of(o):
        cd = o.attrs.get('__classdef__')
        return sym.classes.get((cd._module.name, cd._qualname)) if cd is not None else None

    def b_type(o):
        return o.attrs['__classdef__'] if isinstance(o, Obj) and '__classdef__' in o.attrs else type(o)

    def b_isinstance(o, t):
        ts = t if isinstance(t, tuple) else (t,)
        ts = tuple(type if (x is _fdeval._BUILTINS.get('type') or x is b_type) else x for x in ts)
        if isinstance(o, Obj) and '__classdef__' in o.attrs:
            mro = list(sym.mro(class_of(o)))
            return any(getattr(x, '_fd_class', None) is not None and
                       any(getattr(k, 'node', None) is x._fd_class for k in mro) for x in ts)
        return any(isinstance(x, type) and isinstance(o, x) for x in ts)

    def build(expr):
        fn_ = ast.parse("def _expression():\n    return %s" % expr).body[0]
        fn_._module, fn_._qualname = tmod, '_expression'
        fd = symexec.new_fd(sym, tmod, calls={'isinstance': b_isinstance, 'type': b_type}, max_steps=400000)
        return fd.call_function(fn_, [])
    n = 0
    for ci in sym.subclasses(base):
        if 'is_subtype' not in ci.methods:
            continue
        fn = ci.methods['is_subtype']
        ctx.analysed_function(ci.module, fn)
        n += 1
        decided = None
        if ci.module is tmod:
            expr = builders.get(ci.name, ci.name + '()')
            try:
                one, two = build(expr), build(expr)
                if isinstance(one, Obj) and isinstance(two, Obj):
                    fd = symexec.new_fd(sym, tmod, calls={'isinstance': b_isinstance, 'type': b_type}, max_steps=400000)
                    decided = fd.call_function(tmod.func('is_subtype'), [one, two]) is True
            except (Raised, Inconclusive):
                decided = None
        if decided is None:
            src = norm(fn)
            decided = 'type(self) == type(other)' in src or 'type(other) == type(self)' in src or \
                'type(self) is type(other)' in src or 'super().is_subtype(' in src
            if ci.name in ('ClassType', 'InstanceType'):
                # nominal types: compared by name / parent class, reflexive by name equality
                decided = decided or ('.name' in src) or ('parent' in src)
        ctx.check(decided, 'R5', ci.name + '.is_subtype', ci.module, fn,
                  "two equal instances of %s are not subtypes of each other (no same-class acceptance path)" % ci.name,
                  "is_subtype(t, t) is false for a %s" % ci.name, construct=ci.name + '.is_subtype')
    ctx.floor('R5', 'is_subtype overrides', n, 8)


def r6_lattice_executed(ctx, sym):
    ctx.rule('R6', "pedal's own type classes executed abstractly (constructors, get_pedal_type_from_value, the module "
                   "function is_subtype, StrType.allows_membership): (a) the type computed for tuple, int, float and bool "
                   "values is a subtype of itself and of the normalised form of the value's Python type "
                   "(TYPE_STRINGS[name]().as_type()), tuples of any length and nesting included; (b) an empty list or "
                   "set is not a subtype of an unrelated type, so `[] in 'ab'` - a TypeError in CPython - is not "
                   "accepted by the membership check")
    from .. import symexec, fdeval as _fdeval
    from ..fdeval import Obj, Raised, Inconclusive
    nmod = ctx.repo.module(NORM)
    tmod = ctx.repo.module(TYPES)

    def class_of(o):
        cd = o.attrs.get('__classdef__')
        return sym.classes.get((cd._module.name, cd._qualname)) if cd is not None else None

    def b_type(o):
        return o.attrs['__classdef__'] if isinstance(o, Obj) and '__classdef__' in o.attrs else type(o)

    def b_isinstance(o, t):
        ts = t if isinstance(t, tuple) else (t,)
        ts = tuple(type if (x is _fdeval._BUILTINS.get('type') or x is b_type) else x for x in ts)
        if isinstance(o, Obj) and '__classdef__' in o.attrs:
            mro = list(sym.mro(class_of(o)))
            return any(getattr(x, '_fd_class', None) is not None and
                       any(k is x._fd_class or getattr(k, 'node', None) is x._fd_class for k in mro) for x in ts)
        return any(isinstance(x, type) and isinstance(o, x) for x in ts)

    def evaluate(expr, mod):
        fn = ast.parse("def _expression():\n    return %s" % expr).body[0]
        fn._module, fn._qualname = mod, '_expression'
        fd = symexec.new_fd(sym, mod, calls={'isinstance': b_isinstance, 'type': b_type}, max_steps=400000)
        try:
            return fd.call_function(fn, [])
        except Raised as e:
            return 'raises %s' % e.kind
        except Inconclusive as e:
            raise AnalysisError("C19 R6: %s is outside the decidable fragment: %s" % (expr, e))

    def subtype(a, b):
        fd = symexec.new_fd(sym, tmod, calls={'isinstance': b_isinstance, 'type': b_type}, max_steps=400000)
        try:
            return fd.call_function(tmod.func('is_subtype'), [a, b])
        except Raised as e:
            return 'raises %s' % e.kind
        except Inconclusive as e:
            raise AnalysisError("C19 R6: is_subtype is outside the decidable fragment: %s" % e)
    ctx.analysed_function(tmod, tmod.func('is_subtype'))
    ctx.analysed_function(nmod, nmod.func('get_pedal_type_from_value'))
    values = [(1, 'a'), (), (1,), (1, (2, 'b')), (1.5, True, 'x'), ((), ()), 5, 0, 2.5, True, False]
    for v in values:
        t = evaluate("get_pedal_type_from_value(%r)" % (v,), nmod)
        n = evaluate("TYPE_STRINGS[%r]().as_type()" % (type(v).__name__,), nmod)
        for what, other in (('itself', t), ('the normalised %s type' % type(v).__name__, n)):
            got = subtype(t, other) if isinstance(t, Obj) and isinstance(other, Obj) else 'no type (%r, %r)' % (t, other)
            ctx.check(got is True, 'R6', 'value-type[%r]:subtype-of-%s' % (v, what.split()[0]), tmod,
                      tmod.func('is_subtype'),
                      "the pedal type of the value %r is %s a subtype of %s (is_subtype gives %r)" % (
                          v, 'not' if got is False else 'not decidably', what, got),
                      "assert_type((1, 'a'), tuple) fails; a repeated tuple does not conform to its inferred type")
    lattice = [("is_subtype(ListType(True), StrType(False))", False), ("is_subtype(SetType(True), IntType())", False),
               ("is_subtype(ListType(True), TupleType([]))", False), ("is_subtype(ListType(True), ListType(True))", True),
               ("StrType(False).allows_membership(ListType(True))", False),
               ("StrType(False).allows_membership(ListType(False, IntType()))", False),
               ("StrType(False).allows_membership(SetType(True))", False),
               ("StrType(False).allows_membership(StrType(False))", True)]
    for expr, want in lattice:
        got = evaluate(expr, tmod)
        ctx.check(got is want, 'R6', 'lattice:%s' % expr, tmod, tmod.func('is_subtype'),
                  "%s is %r, expected %r" % (expr, got, want),
                  "a = []; b = 'ab'; a in b - CPython raises TypeError, TIFA reports nothing")


def r7_type_names_total(ctx, sym):
    ctx.rule('R7', "reporting incompatible types needs the operand types' names: singular_name and plural_name of "
                   "pedal's own types, executed abstractly on instances of every core kind - empty containers and the "
                   "empty tuple included - never raise (a failure there ends the analysis without the report CPython's "
                   "TypeError calls for)")
    from .. import symexec, fdeval as _fdeval
    from ..fdeval import Obj, Raised, Inconclusive
    tmod = ctx.repo.module(TYPES)

    def class_of(o):
        cd = o.attrs.get('__classdef__')
        return sym.classes.get((cd._module.name, cd._qualname)) if cd is not None else None

    def b_type(o):
        return o.attrs['__classdef__'] if isinstance(o, Obj) and '__classdef__' in o.attrs else type(o)

    def b_isinstance(o, t):
        ts = t if isinstance(t, tuple) else (t,)
        if isinstance(o, Obj) and '__classdef__' in o.attrs:
            mro = list(sym.mro(class_of(o)))
            return any(getattr(x, '_fd_class', None) is not None and
                       any(getattr(k, 'node', None) is x._fd_class for k in mro) for x in ts)
        return any(isinstance(x, type) and isinstance(o, x) for x in ts)
    exprs = ['TupleType([])', 'TupleType([IntType()])', 'TupleType([IntType(), StrType(False)])',
             'TupleType([IntType(), StrType(False), FloatType()])', 'ListType(True)', 'ListType(False, IntType())',
             'ListType(False, TupleType([]))', 'SetType(True)', 'DictType([])', 'DictType([(StrType(False), IntType())])',
             'IntType()', 'FloatType()', 'StrType(False)', 'StrType(True)', 'BoolType()', 'NoneType()', 'NumType()']
    n = 0
    for expr in exprs:
        for prop in ('singular_name', 'plural_name'):
            f = ast.parse("def _expression():\n    return (%s).%s" % (expr, prop)).body[0]
            f._module, f._qualname = tmod, '_expression'
            fd = symexec.new_fd(sym, tmod, calls={'isinstance': b_isinstance, 'type': b_type}, max_steps=400000)
            try:
                got = fd.call_function(f, [])
                raised = None
            except Raised as e:
                got, raised = None, e
            except Inconclusive:
                continue
            n += 1
            ctx.check(raised is None and isinstance(got, str), 'R7', 'type-name[%s.%s]' % (expr, prop), tmod,
                      tmod.func('TupleType.singular_name') if tmod.has_func('TupleType.singular_name') else None,
                      "%s of %s %s" % (prop, expr, 'raises %s (%s)' % (raised.kind, raised.detail) if raised is not None
                                       else 'is %r' % (got,)),
                      "left = 3; right = (); left + right - CPython raises TypeError, TIFA ends without an "
                      "incompatible_types report")
    ctx.floor('R7', 'type names decided', n, 20)


def r8_variable_type_follows_assignment(ctx, sym):
    ctx.rule('R8', "TIFA's store_variable / load_variable executed abstractly (the flow core of C09) on straight-line "
                   "programs that assign one variable twice with different types: the type an operand read afterwards "
                   "carries is the type of the last value assigned - also when that type is a subtype of what the "
                   "variable held before (unknown, then str; number, then float; empty list, then list of str)")
    from .c09 import AbstractTifa
    at = AbstractTifa(ctx, sym)
    for first, second in (('WIDE', 'NARROW'), ('NARROW', 'WIDE'), ('NARROW', 'NARROW'), ('WIDE', 'WIDE')):
        prog = [('a', 'x', 1, first), ('a', 'x', 2, second), ('r', 'x', 3)]
        try:
            issues, raised = at.run(prog)
        except Inconclusive as e:
            raise AnalysisError("C19 R8: TIFA flow core outside the decidable fragment: %s" % e)
        seen = list(getattr(at, 'types_read', []))
        ok = raised is None and seen[-1:] == [second]
        ctx.check(ok, 'R8', 'store_variable[%s then %s]' % (first, second), at.core, at.core_methods['store_variable'],
                  "x assigned a value of type %s, then one of type %s (%s): an operand reading x afterwards is typed %r%s" % (
                      first, second, 'a subtype of the first' if (first, second) == ('WIDE', 'NARROW') else
                      'not a subtype of the first' if first != second else 'the same type', seen[-1:] or None,
                      '' if raised is None else ' (raises %s)' % raised.kind),
                  "data = json.loads(text); data = 'abc'; data + 1 - CPython raises TypeError, TIFA still types data as "
                  "unknown and reports nothing")


THOROUGH_REPS = {
    int: [0, 1, -2, 7, 3, -1, 12],
    float: [0.5, -8.0, 2.0, 1.5, -0.0, 3.0],
    str: ['', 'ab', '%d', ' '],
    list: [[], [1], ['a'], [[1]], [None]],
    tuple: [(), (1,), ('a', 2), ((1,),)],
    bool: [True, False],
    set: [set(), {1}, {2, 3}, {'a'}],
}


def run(ctx):
    sym = Symbols(ctx.repo)
    if ctx.tier == 'thorough':
        REPS.update(THOROUGH_REPS)
    table = r1_binop_table(ctx, sym)
    binop_cells_callable(ctx, sym, 'R1')
    r2_dispatch(ctx, sym, table)
    r3_comparisons(ctx, sym)
    r4_value_typing(ctx, sym)
    r4e_value_typing_executed(ctx, sym)
    r5_reflexive(ctx, sym)
    r6_lattice_executed(ctx, sym)
    r7_type_names_total(ctx, sym)
    r8_variable_type_follows_assignment(ctx, sym)
    # R9: a flagged operation reaches the result: TifaCore._issue records every issue it is given, also in a second
    # analysis by the same TIFA object (shared with C09.R6)
    from .c09 import AbstractTifa, r6_issue_recording
    from .c12 import run_as
    at = AbstractTifa(ctx, sym)
    run_as(ctx, 'R6', 'R9', lambda: r6_issue_recording(ctx, sym, at), "issue recording (shared with C09.R6): ")
    ctx.assume("representative values per core type are a frozen list (REPS); CPython's operator module is the "
               "oracle and runs builtins only, never pedal")
    ctx.assume("expression trees deeper than one operator are covered through compositionality of the table only")
