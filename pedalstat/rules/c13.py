"""C13 - grading a submission is independent of what the process graded before it."""
import ast

from ..astutil import dotted, calls, call_name, body_walk, walk_local, is_self_attr, method_calls, kw
from ..callgraph import class_of_function
from ..cfg import CFG
from ..loader import AnalysisError, norm, enclosing_function
from ..symbols import Symbols, ClassInfo
from .c20 import super_init_call

REPORT = 'pedal.core.report'
FEEDBACK = 'pedal.core.feedback'
ENVIRONMENT = 'pedal.core.environment'
COMMANDS = 'pedal.core.commands'

MUT = ('append', 'extend', 'insert', 'pop', 'remove', 'clear', 'update', 'add', 'discard', 'setdefault', 'sort',
       'popitem', 'reverse')


def is_mutable_expr(v):
    return isinstance(v, (ast.Dict, ast.List, ast.Set, ast.ListComp, ast.DictComp, ast.SetComp)) or (
        isinstance(v, ast.Call) and dotted(v.func) in ('dict', 'list', 'set', 'defaultdict', 'collections.defaultdict',
                                                       'OrderedDict', 'collections.OrderedDict', 'deque'))


# Frozen triage of every process-lifetime object that is mutated at run time (confirmed by reading):
# object -> (disposition, reason).  'reset:<fn>' = reset by that function, which must be reachable from Report.clear or
# a registered tool reset; 'import-time:<fn>' = the mutating function may only be called at module level;
# 'paired' = push/pop paired by a context manager; 'idempotent' = constant re-registration; 'documented' = documented
# exception of Report.clear.
TRIAGE = {
    'pedal.core.feedback:Feedback._override_backups': ('reset:Report.clear_overridden_feedback',
                                                       'restored and emptied by Report.clear()'),
    'pedal.core.feedback:Feedback.<class attributes>': ('shared:R5', 'class attributes replaced by override() are '
                                                        'backed up and restored by Report.clear(); decided by R5'),
    'pedal.core.report:Report.class_hooks': ('documented', "Report.clear() documents that class hooks survive "
                                                            "(full_clear() removes them); nothing in pedal registers one"),
    'pedal.core.report:Report.TOOLS': ('import-time:register_tool', 'tool registry filled while modules are imported'),
    'pedal.types.new_types:_MODULE_LOADERS': ('import-time:register_builtin_module', 'module-type registry filled at import'),
    'pedal.types.new_types:BUILTIN_MODULES': ('reset:reset_builtin_modules', 'rebuilt by the TIFA tool reset'),
    'pedal.questions.pool:Pool._CURRENT': ('paired', 'pushed in __enter__ and popped in __exit__ of the same object'),
    'pedal.core.submission:Submission.PARSERS': ('idempotent', 'nbgrader registers the same constant parser under the same key'),
}


def inventory(ctx, sym):
    """Every run-time mutation of module-level / class-level state in pedal: (object key, module, fn, node, kind)."""
    out = []
    for m in ctx.repo.modules.values():
        for q, fn in m.all_functions:
            glob = set()
            for n in ast.walk(fn):
                if isinstance(n, ast.Global):
                    glob |= set(n.names)
            local = {a.arg for a in fn.args.args + fn.args.kwonlyargs + fn.args.posonlyargs} | \
                ({fn.args.vararg.arg} if fn.args.vararg else set()) | ({fn.args.kwarg.arg} if fn.args.kwarg else set()) | \
                {x.id for x in walk_local(fn) if isinstance(x, ast.Name) and isinstance(x.ctx, ast.Store)}
            local -= glob
            ci = class_of_function(sym, m, fn)

            def module_level_mutable(name):
                b = sym.lookup(m.name, name)
                if b is None or b.kind not in ('assign', 'importfrom', 'other'):
                    return None
                r = sym.resolve_name(m, name)
                if isinstance(r, tuple) and r[0] == 'value' and r[2] is not None and is_mutable_expr(r[2]):
                    return r
                return None
            # a local name bound to a module-level object is that object (`ignored = _TABLE; ignored += extra`)
            aliases = {}
            for n in walk_local(fn):
                if isinstance(n, ast.Assign) and isinstance(n.value, ast.Name) and n.value.id not in local and \
                        len(n.targets) == 1 and isinstance(n.targets[0], ast.Name):
                    r = module_level_mutable(n.value.id)
                    if r is not None:
                        aliases[n.targets[0].id] = (n.value.id, r)
            for n in walk_local(fn):
                # a shallow copy of a module-level template whose entries are themselves mutable shares those entries
                # between everything built from the template
                if isinstance(n, ast.Call) and ((isinstance(n.func, ast.Name) and n.func.id in ('dict', 'list', 'set')
                                                 and len(n.args) == 1 and not n.keywords)
                                                or dotted(n.func) == 'copy.copy' and len(n.args) == 1
                                                or (isinstance(n.func, ast.Attribute) and n.func.attr == 'copy'
                                                    and not n.args)):
                    src = n.args[0] if n.args else n.func.value
                    if isinstance(src, ast.Name) and src.id not in local:
                        r = module_level_mutable(src.id)
                        if r is not None and _nested_mutable(r[2]):
                            out.append(('%s:%s' % (r[1].name, src.id), m, fn, n, 'shallow-copy-of-nested-template'))
            for n in walk_local(fn):
                base, kind = None, None
                if isinstance(n, ast.AugAssign) and isinstance(n.target, ast.Name) and n.target.id in aliases:
                    gname, r = aliases[n.target.id]
                    out.append(('%s:%s' % (r[1].name, gname), m, fn, n, 'augassign-through-alias'))
                    continue
                if isinstance(n, ast.Call) and isinstance(n.func, ast.Attribute) and n.func.attr in MUT:
                    base, kind = n.func.value, n.func.attr
                elif isinstance(n, (ast.Assign, ast.AugAssign, ast.Delete)):
                    for t in (n.targets if isinstance(n, (ast.Assign, ast.Delete)) else [n.target]):
                        if isinstance(t, ast.Subscript):
                            base, kind = t.value, 'setitem'
                        elif isinstance(t, ast.Name) and t.id in glob:
                            out.append(('%s:%s' % (m.name, t.id), m, fn, n, 'global-rebind'))
                elif isinstance(n, ast.Call) and dotted(n.func) == 'setattr' and n.args and \
                        isinstance(n.args[0], ast.Name) and n.args[0].id == 'cls':
                    out.append(('%s:%s.<class attributes>' % (m.name, ci.name if ci else '?'), m, fn, n, 'setattr(cls)'))
                if base is None:
                    continue
                if isinstance(base, ast.Name):
                    if base.id in aliases:
                        gname, r = aliases[base.id]
                        out.append(('%s:%s' % (r[1].name, gname), m, fn, n, kind + '-through-alias'))
                        continue
                    if base.id in local:
                        continue
                    b = sym.lookup(m.name, base.id)
                    if b is None or b.kind not in ('assign', 'importfrom', 'other'):
                        continue
                    r = sym.resolve_name(m, base.id)
                    if isinstance(r, tuple) and r[0] == 'value' and r[2] is not None and is_mutable_expr(r[2]):
                        out.append(('%s:%s' % (r[1].name, _name_of_binding(r, base.id)), m, fn, n, kind))
                elif isinstance(base, ast.Attribute):
                    owner = base.value
                    target_cls = None
                    if isinstance(owner, ast.Name) and owner.id == 'cls' and ci is not None:
                        target_cls = ci
                    elif isinstance(owner, ast.Name) and owner.id not in local:
                        r = sym.resolve_name(m, owner.id)
                        if isinstance(r, ClassInfo):
                            target_cls = r
                    elif isinstance(owner, ast.Name) and owner.id == 'self' and ci is not None:
                        f = sym.class_attr(ci, base.attr)
                        if f and f[1] is not None and not isinstance(f[1], ast.FunctionDef) and is_mutable_expr(f[1]) \
                                and not any(base.attr in c.self_attrs for c in sym.mro(ci)):
                            target_cls = f[0]
                    if target_cls is not None:
                        f = sym.class_attr(target_cls, base.attr)
                        own = f[0] if f else target_cls
                        out.append(('%s:%s.%s' % (own.module.name, own.name, base.attr), m, fn, n, kind))
    return out


def _nested_mutable(expr):
    """A dict/list/set display one of whose entries is itself a mutable display (or constructor call)."""
    vals = []
    if isinstance(expr, ast.Dict):
        vals = list(expr.values)
    elif isinstance(expr, (ast.List, ast.Set)):
        vals = list(expr.elts)
    return any(is_mutable_expr(v) for v in vals if v is not None)


def _name_of_binding(r, fallback):
    return fallback


def reachable_self_methods(sym, mod, cls_name, start):
    """Transitive closure of self.<method>() calls inside one class starting from `start`."""
    ci = sym.find_class(mod.name, cls_name)
    seen, work = set(), [start]
    while work:
        name = work.pop()
        if name in seen:
            continue
        seen.add(name)
        m = sym.method(ci, name)
        if m is None:
            continue
        for c in calls(m[1]):
            if isinstance(c.func, ast.Attribute) and isinstance(c.func.value, ast.Name) and c.func.value.id == 'self':
                work.append(c.func.attr)
    return seen


def r1_inventory(ctx, sym):
    ctx.rule('R1', "ownership of process-lifetime state: every module-level or class-level mutable object that is "
                   "mutated inside a function anywhere in pedal is in the frozen triage table with a verified "
                   "disposition (reset reachable from Report.clear()/a tool reset, import-time-only registry, paired "
                   "push/pop, idempotent registration, documented exception)")
    inv = inventory(ctx, sym)
    ctx.floor('R1', 'run-time mutations of process-lifetime state', len(inv), 8)
    rmod = ctx.repo.module(REPORT)
    clear_reach = reachable_self_methods(sym, rmod, 'Report', 'clear')
    tool_resets = set()
    for m in ctx.repo.modules.values():
        for c in ast.walk(m.tree):
            if isinstance(c, ast.Call) and norm(c.func) == 'Report.register_tool' and len(c.args) == 2:
                r = sym.resolve_name(m, norm(c.args[1]))
                if isinstance(r, tuple) and r[0] == 'func':
                    tool_resets.add((r[1].name, r[2].name))
                    for cc in calls(r[2]):
                        if isinstance(cc.func, ast.Name):
                            tool_resets.add(('*', cc.func.id))
    objects = {}
    for key, m, fn, node, kind in inv:
        objects.setdefault(key, []).append((m, fn, node, kind))
    for key, sites in sorted(objects.items()):
        m, fn, node, kind = sites[0]
        disp = TRIAGE.get(key)
        if disp is None:
            ctx.fail('R1', 'state:' + key, m, node,
                     "process-lifetime object %s is mutated at run time (%s in %s) and nothing resets it" % (
                         key, kind, fn._qualname),
                     "grade one submission whose script triggers this write, then another in the same process: the "
                     "second grading sees the first one's data", function=fn._qualname)
            continue
        what, reason = disp
        ok, why = True, reason
        if what.startswith('reset:'):
            target = what.split(':', 1)[1]
            name = target.split('.')[-1]
            ok = name in clear_reach or ('*', name) in tool_resets or any(t[1] == name for t in tool_resets)
            why = "reset function %s is not reachable from Report.clear() or a registered tool reset" % target
        elif what.startswith('import-time:'):
            name = what.split(':', 1)[1]
            bad = []
            for mm in ctx.repo.modules.values():
                for c in ast.walk(mm.tree):
                    if isinstance(c, ast.Call) and (call_name(c) or '').split('.')[-1] == name and \
                            enclosing_function(c) is not None:
                        f = enclosing_function(c)
                        if f.name != name:
                            bad.append(mm.loc(c))
            ok = not bad
            why = "%s is called at run time (%s), so the registry is no longer import-time only" % (name, bad[:3])
        elif what == 'paired':
            kinds = {k for _, _, _, k in sites}
            fns = {f.name for _, f, _, _ in sites}
            ok = kinds <= {'append', 'pop'} and fns <= {'__enter__', '__exit__'} and len(kinds) == 2
            why = "push/pop of %s is no longer confined to __enter__/__exit__" % key
        ctx.check(ok, 'R1', 'state:' + key, m, node, why,
                  "state written while grading one submission is visible to the next one in the same process",
                  function=fn._qualname, sample={'object': key, 'disposition': what, 'sites': len(sites)})


def r1c_loaders_build_fresh_types(ctx, sym):
    """Every loader registered with register_builtin_module, executed abstractly twice: TIFA mutates module types in
    place (assigning `plt.title = ...` in a submission adds a field), so the two results must not share any type
    object - a type kept at module level and re-wrapped on every reset carries one submission's edits to the next."""
    from .. import symexec
    from ..fdeval import Obj, Raised, Inconclusive
    tmod = ctx.repo.module('pedal.types.new_types')
    type_classes = set(tmod.classes)
    n = 0
    for m in ctx.repo.modules.values():
        for c in ast.walk(m.tree):
            if not (isinstance(c, ast.Call) and (call_name(c) or '').split('.')[-1] == 'register_builtin_module'
                    and len(c.args) == 2 and enclosing_function(c) is None):
                continue
            try:
                mod_name = sym.const(m, c.args[0])
            except KeyError:
                mod_name = norm(c.args[0])
            loader = c.args[1]
            if isinstance(loader, ast.Name):
                r = sym.resolve_name(m, loader.id)
                if not (isinstance(r, tuple) and r[0] == 'func'):
                    raise AnalysisError("C13 R1: loader of %r does not resolve to a function" % (mod_name,))
                lm, lfn = r[1], r[2]
                ctx.analysed_function(lm, lfn)
            elif isinstance(loader, ast.Lambda):
                lm, lfn = m, loader
            else:
                raise AnalysisError("C13 R1: loader of %r is neither a function name nor a lambda" % (mod_name,))
            n += 1
            made = []

            def maker(cls_name):
                def make(*a, **k):
                    o = Obj(cls_name, ctor_args=a, ctor_kwargs=k)
                    o.attrs['__open__'] = True
                    made.append(o)
                    return o
                make._fd_callable = True
                return make
            fd = symexec.new_fd(sym, lm, calls={k: maker(k) for k in type_classes})
            results = []
            try:
                for _ in range(2):
                    if isinstance(lfn, ast.Lambda):
                        fd._mods.append(lm)
                        try:
                            results.append(fd.eval(lfn.body, {}))
                        finally:
                            fd._mods.pop()
                    else:
                        results.append(fd.call_function(lfn, []))
            except (Raised, Inconclusive) as e:
                # loader outside the fragment: fall back to "the loader reads no module-level type object"
                names = {x.id for x in ast.walk(lfn) if isinstance(x, ast.Name) and isinstance(x.ctx, ast.Load)}
                shared = []
                for nm in sorted(names):
                    b = sym.lookup(lm.name, nm)
                    if b is not None and b.kind == 'assign' and isinstance(b.node, ast.Call) and \
                            (call_name(b.node) or '').split('.')[-1] in type_classes:
                        shared.append(nm)
                ctx.check(not shared, 'R1', 'loader:%s:fresh-types' % mod_name, lm, lfn,
                          "the loader of TIFA's %r module type hands out module-level type object(s) %s on every reset "
                          "(syntactic fallback: %s)" % (mod_name, shared, e),
                          "a submission assigning to an attribute of that module changes its type for every later "
                          "submission in the process")
                continue

            def reach(v, acc):
                if isinstance(v, Obj):
                    if id(v) in acc:
                        return
                    acc[id(v)] = v
                    for x in v.attrs.values():
                        reach(x, acc)
                elif isinstance(v, dict):
                    for x in list(v.keys()) + list(v.values()):
                        reach(x, acc)
                elif isinstance(v, (list, tuple, set, frozenset)):
                    for x in v:
                        reach(x, acc)
            a_, b_ = {}, {}
            reach(results[0], a_)
            reach(results[1], b_)
            shared = [o for k, o in a_.items() if k in b_ and o in made]
            ctx.check(not shared, 'R1', 'loader:%s:fresh-types' % mod_name, lm, lfn,
                      "two successive resets of TIFA's %r module type share %d type object(s) (%s): the object lives at "
                      "module level and is only re-wrapped" % (mod_name, len(shared), sorted({o._name for o in shared})),
                      "a submission with `plt.title = 'Ages'` turns pyplot.title into a string for every later "
                      "submission: plt.title('Ages') is then reported as 'Not a Function'")
    ctx.floor('R1', 'builtin module loaders', n, 12)


def r1d_type_instances_own_their_fields(ctx, sym):
    """Type.add_attr writes into self.fields; Type.__init__ gives every instance its own copy of the class-level
    `fields` table. Sibling rule over every class deriving Type in pedal/types: its effective constructor, executed
    abstractly, leaves the instance with a `fields` of its own - otherwise `s.size = 3` in one submission edits the
    class's table for every later analysis in the process."""
    from .. import symexec
    from ..fdeval import Obj, Raised, Inconclusive
    tmod = ctx.repo.module('pedal.types.new_types')
    base = sym.find_class('pedal.types.new_types', 'Type')
    n = 0
    for ci in sym.subclasses(base, strict=True):
        if not ci.module.name.startswith('pedal.types'):
            continue
        init = None
        for k in sym.mro(ci):
            if hasattr(k, 'methods') and '__init__' in k.methods:
                init = (k, k.methods['__init__'])
                break
        if init is None or init[0] is base:
            continue
        n += 1
        ctx.analysed_function(init[0].module, init[1])
        o = Obj(ci.name)
        o.attrs['__classdef__'] = ci.node
        o.attrs['__open__'] = True
        a = init[1].args
        required = [x.arg for x in a.args][1:len(a.args) - len(a.defaults)]
        args = [Obj('arg:' + p, __open__=True) for p in required]
        fd = symexec.new_fd(sym, init[0].module, calls={'isinstance': lambda *x: False})
        try:
            fd.call_function(init[1], args, bound_self=o)
        except (Raised, Inconclusive):
            # the constructor needs concrete arguments: decide on the chain of super().__init__() calls instead
            src = ast.unparse(init[1])
            ctx.check('super().__init__(' in src or 'Type.__init__(' in src, 'R1', 'type:%s:own-fields' % ci.name,
                      init[0].module, init[1],
                      "%s.__init__ (used by %s) never reaches Type.__init__, which copies the class-level fields table "
                      "(syntactic fallback)" % (init[0].name, ci.name),
                      "attribute assignment on a value of this type edits the class's table for the whole process")
            continue
        ctx.check('fields' in o.attrs, 'R1', 'type:%s:own-fields' % ci.name, init[0].module, init[1],
                  "constructing %s through %s.__init__ never reaches Type.__init__: the instance shares the class-level "
                  "`fields` table that add_attr writes into" % (ci.name, init[0].name),
                  "s = 'abc'; print(s.size + 1); s.size = 3  analysed twice in one process: the first analysis reports "
                  "incompatible_types, the second does not")
    ctx.floor('R1', 'Type subclasses with their own constructor', n, 10)


def r1e_registration_path(ctx, sym):
    """register_builtin_module and reset_builtin_modules executed abstractly with a model loader that builds a new type
    object on every call: after each reset the module table holds an object the loader built for that reset - a
    memoised loader hands the same mutable ModuleType to every analysis of the process."""
    from .. import symexec
    from ..fdeval import Obj, Raised, Inconclusive
    tmod = ctx.repo.module('pedal.types.new_types')
    reg = tmod.func('register_builtin_module')
    reset = tmod.func('reset_builtin_modules')
    ctx.analysed_function(tmod, reg)
    ctx.analysed_function(tmod, reset)
    built = []

    def loader(*a, **k):
        o = Obj('ModuleType built by the loader (call %d)' % (len(built) + 1))
        built.append(o)
        return o
    loader._fd_callable = True
    loaders, modules = {}, {}
    fd = symexec.new_fd(sym, tmod, extra={'_MODULE_LOADERS': loaders, 'BUILTIN_MODULES': modules})
    seen = []
    try:
        fd.call_function(reg, ['model_module', loader])
        for _ in range(3):
            fd.call_function(reset, [])
            seen.append(modules.get('model_module'))
    except Raised as e:
        seen = ['raises %s' % e.kind]
    except Inconclusive as e:
        raise AnalysisError("C13 R1: register_builtin_module / reset_builtin_modules outside the decidable fragment: %s" % e)
    ok = len(seen) == 3 and all(isinstance(x, Obj) for x in seen) and len({id(x) for x in seen}) == 3
    ctx.check(ok, 'R1', 'reset_builtin_modules:fresh-module-types', tmod, reset,
              "three resets in a row leave the module table with %r (the loader ran %d time(s))" % (seen, len(built)),
              "submission 1 assigns `turtle.forward = 50`; submission 2, graded afterwards, gets 'not a function' for "
              "turtle.forward(100)")


def r1b_reset_rebuilds(ctx, sym):
    """reset_builtin_modules, executed abstractly on a pre-filled table, must leave no entry of the previous analysis."""
    from ..fdeval import FD, Raised, Inconclusive
    mod = ctx.repo.module('pedal.types.new_types')
    fn = mod.func('reset_builtin_modules')
    ctx.analysed_function(mod, fn)
    table = {'math': 'STALE', 'gone': 'STALE'}
    loaders = {'math': (lambda: 'FRESH'), 'random': (lambda: 'FRESH')}
    fd = FD()
    fd.resolver = lambda n: {'BUILTIN_MODULES': table, '_MODULE_LOADERS': loaders}[n]
    try:
        fd.call_function(fn, [])
    except (Raised, Inconclusive) as e:
        raise AnalysisError("C13 R1: reset_builtin_modules outside the decidable fragment: %s" % e)
    ctx.check(table == {'math': 'FRESH', 'random': 'FRESH'}, 'R1', 'reset_builtin_modules:rebuilds-every-entry', mod, fn,
              "after the reset the table is %r: module types built for an earlier analysis are kept (TIFA mutates them "
              "through add_attr when a student assigns to a module attribute)" % table,
              "submission 1: `import turtle; turtle.forward = 100`; submission 2 calls turtle.forward(50) and is told "
              "it is calling an integer")


def r2_clear_complete(ctx, sym, rule='R2', only=None):
    ctx.rule(rule, "Report.__init__ executed abstractly gives the pristine state; every attribute is dirtied, "
                   "Report.clear() is executed abstractly, and the state must read as pristine again (except the "
                   "documented class_hooks); where the interpreter cannot run them, every attribute __init__ creates "
                   "must be re-assigned or .clear()ed by clear(), transitively through self-method calls")
    mod = ctx.repo.module(REPORT)
    ci = sym.find_class(REPORT, 'Report')
    init = ci.methods['__init__']
    created = []
    for n in body_walk(init):
        if isinstance(n, ast.Assign):
            for t in n.targets:
                if is_self_attr(t):
                    created.append((t.attr, n))
    ctx.floor(rule, 'attributes created by Report.__init__', len(created), 15)
    reach = reachable_self_methods(sym, mod, 'Report', 'clear')
    reset = set()
    for name in reach:
        m = sym.method(ci, name)
        if m is None:
            continue
        for n in body_walk(m[1]):
            if isinstance(n, ast.Assign):
                for t in n.targets:
                    if is_self_attr(t):
                        reset.add(t.attr)
            elif isinstance(n, ast.Call) and isinstance(n.func, ast.Attribute) and n.func.attr == 'clear' and \
                    is_self_attr(n.func.value):
                reset.add(n.func.value.attr)
    clear = ci.methods['clear']
    ctx.analysed_function(mod, clear)
    documented = {'class_hooks'}

    def effect_set_rule():
        for attr, node in created:
            if attr in documented or (only is not None and attr not in only):
                ctx.ok(rule, 'Report.' + attr, nontrivial=False)
                continue
            ctx.check(attr in reset, rule, 'Report.clear:' + attr, mod, clear,
                      "Report.__init__ creates self.%s but Report.clear() never resets it" % attr,
                      {'pools': "script 1 calls set_pools(['A', 'B']); the next submission graded in the same process "
                                "still has pools set and gets a random pool chosen at resolve time",
                       'chosen_pool': "after a grading with pools, report.chosen_pool keeps its value for the next "
                                      "submission, so leftover pool overrides are applied to its feedback"}.get(
                          attr, "a value stored in report.%s by one grading is seen by the next" % attr),
                      construct='def clear(self): ... (no self.%s)' % attr)
    # the same, behaviourally: __init__ executed abstractly gives the pristine state; every attribute is then dirtied,
    # clear() is executed abstractly, and the state must read as pristine again
    from .. import symexec
    from ..fdeval import Obj, Raised, Inconclusive
    ctor_calls = {}

    def fresh_fd():
        rec = symexec.Recorder()
        fd = symexec.new_fd(sym, mod, calls={
            'Formatter': lambda *a, **k: Obj('Formatter()'), 'set': lambda *a: set(*a),
            'log.debug': lambda *a, **k: None, 'log.info': lambda *a, **k: None})
        return fd
    me = symexec.self_obj(mod, 'Report')
    try:
        fresh_fd().call_function(init, [], bound_self=me)
        pristine = {k: v for k, v in me.attrs.items() if not k.startswith('__') and not k.startswith('method:')}

        def shape(v):
            if isinstance(v, (list, dict, set, tuple)):
                return (type(v).__name__, len(v))
            if isinstance(v, Obj):
                return ('obj', v._name)
            return ('value', v)
        want = {k: shape(v) for k, v in pristine.items()}
        for k, v in list(pristine.items()):
            if isinstance(v, list):
                v.append('leftover')
            elif isinstance(v, dict):
                v['leftover'] = 'leftover'
            elif isinstance(v, set):
                v.add('leftover')
            else:
                me.attrs[k] = Obj('leftover value of ' + k)
        symexec.method(me, 'clear_overridden_feedback', lambda: me.attrs.__setitem__('overridden_feedbacks', set()))
        fresh_fd().call_function(clear, [], bound_self=me)
        for k, w in sorted(want.items()):
            if k in documented or (only is not None and k not in only):
                continue
            got = shape(me.attrs.get(k))
            ctx.check(got == w, rule, 'Report.clear:restores:' + k, mod, clear,
                      "after clear() report.%s is %r, a new Report has %r" % (k, got, w),
                      "a value stored in report.%s by one grading is seen by the next" % k)
    except (Raised, Inconclusive) as e:
        ctx.info("Report.__init__/clear outside the decidable fragment (%s): decided by the effect-set rule" % e)
        effect_set_rule()


def r3_lazy_tool_reset(ctx, sym):
    ctx.rule('R3', "Report.__getitem__ resets a tool whenever its data is absent; clear() empties the tool data; every "
                   "registered reset() replaces report[TOOL_NAME] with a freshly constructed dict")
    mod = ctx.repo.module(REPORT)
    gi = mod.func('Report.__getitem__')
    ctx.analysed_function(mod, gi)
    from .. import symexec
    from ..fdeval import Obj, Raised, Inconclusive
    for present in (False, True):
        rec = symexec.Recorder()
        fresh = {'fresh': True}
        me = symexec.self_obj(mod, 'Report', _tool_data=({'tifa': {'stale': True}} if present else {}))

        def reset(*a, **k):
            rec.events.append(('reset', a, k))
            me.attrs['_tool_data']['tifa'] = fresh
        # the registration is pedal's own class (its reset is the tool's function), so helper methods added to it
        # are found
        try:
            tool = symexec.self_obj(ctx.repo.module('pedal.core.tool'), 'ToolRegistration', name='tifa')
        except (AnalysisError, KeyError):
            tool = Obj('tool')
        symexec.method(tool, 'reset', reset)
        me.attrs['TOOLS'] = {'tifa': tool}
        symexec.method(me, '__setitem__', lambda k, v: me.attrs['_tool_data'].__setitem__(k, v))
        fd = symexec.new_fd(sym, mod)
        got, raised = symexec.run(fd, gi, ['tifa'], bound_self=me, what='Report.__getitem__')
        resets = rec.named('reset')
        if present:
            ok = raised is None and not resets and got == {'stale': True}
            want = "return the tool's data without resetting it"
        else:
            ok = raised is None and len(resets) == 1 and got is fresh and (
                me in resets[0][1] or any(v is me for v in resets[0][2].values()))
            want = "reset the tool for this report once and return the fresh data"
        ctx.check(ok, 'R3', 'Report.__getitem__:lazy-reset[data %s]' % ('present' if present else 'absent'), mod, gi,
                  "report['tifa'] with the tool's data %s performs %d reset(s)%s; it must %s" % (
                      'present' if present else 'absent (after clear())', len(resets),
                      '' if raised is None else ' and raises %s' % raised.kind, want),
                  "a tool keeps the previous submission's data after clear()")
    n = 0
    for m in ctx.repo.modules.values():
        for c in ast.walk(m.tree):
            if isinstance(c, ast.Call) and norm(c.func) == 'Report.register_tool' and len(c.args) == 2:
                n += 1
                ctx.check(enclosing_function(c) is None, 'R3', 'register_tool@%s:module-level' % m.name, m, c,
                          "a tool is registered at run time", "tool registry differs between gradings")
                r = sym.resolve_name(m, norm(c.args[1]))
                if not (isinstance(r, tuple) and r[0] == 'func'):
                    raise AnalysisError("C13 R3: reset function of %s does not resolve" % m.name)
                fn = r[2]
                ctx.analysed_function(r[1], fn)
                p = [a.arg for a in fn.args.args + fn.args.kwonlyargs]
                rep = 'report' if 'report' in p else (p[0] if p else 'report')
                # the reset executed abstractly twice on a model report: what it stores the second time must be a new
                # object that does not contain anything the first call stored (every constructor is a fresh object)
                decided = None
                try:
                    stored = []
                    report_obj = Obj('report', __open__=True)
                    symexec.method(report_obj, '__setitem__', lambda k, v: stored.append((k, v)))
                    symexec.method(report_obj, '__getitem__', lambda k: next(v for kk, v in reversed(stored) if kk == k))
                    symexec.method(report_obj, '__contains__', lambda k: any(kk == k for kk, _ in stored))

                    def fresh_obj(name_):
                        def make(*a, **k):
                            # (model assumption: a constructor keeps its keyword arguments under their own names)
                            o = Obj('new:' + name_, __open__=True, **{kk: vv for kk, vv in k.items()
                                                                     if not kk.startswith('__')})
                            # whatever is called on it (clear(), reset() ...) leaves it the same object
                            o.attrs['__unknown_method__'] = lambda mname, *aa, **kk: None
                            return o
                        make._fd_callable = True
                        return make
                    class_names = {q for (mn, q) in sym.classes if '.' not in q}
                    fd_r = symexec.new_fd(sym, r[1], calls={cn: fresh_obj(cn) for cn in class_names},
                                          extra={'MAIN_REPORT': report_obj})
                    for _ in range(2):
                        fd_r.call_function(fn, [], {rep: report_obj})
                    firsts = [v for k, v in stored[:len(stored) // 2]]
                    seconds = [v for k, v in stored[len(stored) // 2:]]

                    def parts(v, acc):
                        if id(v) in acc:
                            return acc
                        if isinstance(v, (dict, list, Obj)):
                            acc[id(v)] = v
                        for x in (list(v.values()) if isinstance(v, dict) else v if isinstance(v, list) else
                                  list(v.attrs.values()) if isinstance(v, Obj) else []):
                            parts(x, acc)
                        return acc
                    old_parts = {}
                    for v in firsts:
                        parts(v, old_parts)
                    old_parts.pop(id(report_obj), None)
                    new_parts = {}
                    for v in seconds:
                        parts(v, new_parts)
                    decided = bool(stored) and len(firsts) == len(seconds) and not (set(old_parts) & set(new_parts))
                except (Raised, Inconclusive, StopIteration, AnalysisError):
                    decided = None
                assigns = [x for x in body_walk(fn) if isinstance(x, ast.Assign)
                           and isinstance(x.targets[0], ast.Subscript) and norm(x.targets[0].value) == rep]
                fresh = bool(assigns) and all(isinstance(a.value, (ast.Dict, ast.Call)) for a in assigns)
                reuse = [x for x in ast.walk(fn) if isinstance(x, ast.Call) and isinstance(x.func, ast.Attribute)
                         and x.func.attr in ('clear', 'update') and norm(x.func.value).startswith(rep + '[')]
                ctx.check(decided if decided is not None else (fresh and not reuse), 'R3',
                          'reset@%s:fresh' % r[1].name, r[1], fn,
                          "the tool reset mutates the previous data instead of replacing report[TOOL_NAME] with a "
                          "fresh object", "objects cached by the tool for the previous submission stay reachable")
    ctx.floor('R3', 'registered tools', n, 5)
    clear = mod.func('Report.clear')
    # (every container Report.__init__ creates exists on the model, so a loop over them is interpreted as well)
    base_attrs = {k: (type(v)() if isinstance(v, (list, dict, set)) else v)
                  for k, v in symexec.init_literals(mod, 'Report').items()}
    base_attrs['_tool_data'] = {'tifa': {'stale': True}}
    me = symexec.self_obj(mod, 'Report', __open__=True, **base_attrs)
    me.attrs['__unknown_method__'] = lambda name, *a, **k: None
    try:
        symexec.new_fd(sym, mod, calls={'Formatter': lambda *a, **k: Obj('Formatter()')}).call_function(
            clear, [], bound_self=me)
        emptied = not me.attrs.get('_tool_data')
    except (Raised, Inconclusive):
        emptied = any(norm(c.func) == 'self._tool_data.clear' for c in calls(clear))
    ctx.check(emptied, 'R3', 'Report.clear:tool-data', mod, clear, "clear() does not empty the tool data",
              "every tool keeps the previous submission's data")


def r4_entry_points(ctx, sym):
    ctx.rule('R4', "Environment.__init__ clears the report before contextualising; every Environment subclass reaches "
                   "it on all normal paths of its own __init__; contextualize_report(clear=True) clears first")
    emod = ctx.repo.module(ENVIRONMENT)
    init = emod.func('Environment.__init__')
    ctx.analysed_function(emod, init)
    from .. import symexec
    from ..fdeval import Obj, Raised, Inconclusive
    given = Obj('Submission', files={'answer.py': 'x = 1'})
    configs = {
        'a Submission object': dict(files=given),
        'main_code': dict(main_code='x = 1'),
        'files dict': dict(files={'answer.py': 'x = 1'}),
        'main_file to load': dict(main_file='answer.py'),
        'files dict without the main file': dict(files={'other.py': 'y = 2'}, main_code='x = 1'),
    }
    for cname, kwargs in configs.items():
        rec = symexec.Recorder()
        report = Obj('report')
        symexec.method(report, 'clear', rec.stub('clear'))
        symexec.method(report, 'contextualize', rec.stub('contextualize'))
        me = symexec.self_obj(emod, 'Environment')
        symexec.method(me, 'load_main', lambda f: 'x = 1')
        fd = symexec.new_fd(sym, emod, calls={
            'Submission': lambda *a, **k: Obj('Submission', args=a, kwargs=k),
            'isinstance': lambda o, t: (o is given) if t == 'Submission-class' else (
                isinstance(o, t) if isinstance(t, (type, tuple)) else False)},
            extra={'Submission': 'Submission-class', 'MAIN_REPORT': report, 'Exception': Exception})
        _, raised = symexec.run(fd, init, [], dict(kwargs, report=report), bound_self=me, what='Environment.__init__')
        order = [e[0] for e in rec.events]
        ok = raised is None and order == ['clear', 'contextualize'] and \
            rec.named('contextualize')[0][1][:1] == (me.attrs.get('submission'),)
        ctx.check(ok, 'R4', 'Environment.__init__:clear-before-contextualize[%s]' % cname, emod, init,
                  "an environment set up from %s performs %s on the report%s; it must clear it once and then attach "
                  "the new submission" % (cname, order, '' if raised is None else ' and raises %s' % raised.kind),
                  "feedback, suppressions and tool data of the previous submission are resolved together with the new "
                  "one")
    base = sym.find_class(ENVIRONMENT, 'Environment')
    subs = sym.subclasses(base, strict=True)
    ctx.floor('R4', 'Environment subclasses', len(subs), 6)
    for ci in subs:
        fn = ci.methods.get('__init__')
        if fn is None:
            ctx.ok('R4', ci.name + ':inherits-init', nontrivial=False)
            continue
        ctx.analysed_function(ci.module, fn)
        g = CFG(fn)
        # either the base __init__ (which clears) or contextualize_report() with its default clear=True
        sup = g.nodes_calling(lambda c: super_init_call(c) or (
            call_name(c) == 'contextualize_report' and not (
                isinstance(kw(c, 'clear'), ast.Constant) and kw(c, 'clear').value is False) and len(c.args) < 3))
        ok = bool(sup) and g.exit.id not in g.reachable([g.entry], sup)
        ctx.check(ok, 'R4', ci.name + '.__init__:reaches-Environment', ci.module, fn,
                  "%s.__init__ can finish without running Environment.__init__ (which clears the report)" % ci.name,
                  "setting up this environment twice in one process grades the second submission on top of the first")
    cmod = ctx.repo.module(COMMANDS)
    cr = cmod.func('contextualize_report')
    ctx.analysed_function(cmod, cr)
    for cname, kwargs, want in (('default', {}, ['clear', 'contextualize']),
                                ('clear=True', {'clear': True}, ['clear', 'contextualize']),
                                ('clear=False', {'clear': False}, ['contextualize'])):
        for sub_kind in ('text', 'Submission'):
            rec = symexec.Recorder()
            report = Obj('report')
            symexec.method(report, 'clear', rec.stub('clear'))
            symexec.method(report, 'contextualize', rec.stub('contextualize'))
            given = Obj('Submission')
            fd = symexec.new_fd(sym, cmod, calls={
                'Submission': lambda *a, **k: Obj('Submission', args=a, kwargs=k),
                'isinstance': lambda o, t: (o is given) if t == 'Submission-class' else False},
                extra={'Submission': 'Submission-class', 'MAIN_REPORT': report})
            _, raised = symexec.run(fd, cr, [given if sub_kind == 'Submission' else 'x = 1'],
                                    dict(kwargs, report=report), what='contextualize_report')
            order = [e[0] for e in rec.events]
            ctx.check(raised is None and order == want, 'R4', 'contextualize_report[%s,%s]' % (cname, sub_kind), cmod,
                      cr, "contextualize_report(<%s>, %s) performs %s on the report%s; expected %s" % (
                          sub_kind, cname, order, '' if raised is None else ' and raises %s' % raised.kind, want),
                      "a second contextualize_report() keeps the first submission's feedback")

def r5_overrides(ctx, sym):
    from .c20 import r7_overrides
    r7_overrides(ctx, sym)
    ctx.rules['R5'] = ctx.rules.pop('R7') + " (shared with C20.R7)"
    for i, (rule, key, ok) in enumerate(ctx.obligations):
        if rule == 'R7':
            ctx.obligations[i] = ('R5', key, ok)
    for f in ctx.findings:
        if f.rule == 'R7':
            f.rule = 'R5'
    ctx.nontrivial = {('R5' if r == 'R7' else r, k) for r, k in ctx.nontrivial}


def r6_determinism(ctx, sym):
    ctx.rule('R6', "no call to random.* or time.time() feeds the resolved result (core, resolvers, tools)")
    n = 0
    scope = ('pedal.core', 'pedal.resolvers', 'pedal.source', 'pedal.tifa', 'pedal.cait', 'pedal.assertions',
             'pedal.sandbox.sandbox', 'pedal.sandbox.commands', 'pedal.types')
    for m in ctx.repo.modules.values():
        if not any(m.name == s or m.name.startswith(s + '.') for s in scope):
            continue
        n += 1
        for c in ast.walk(m.tree):
            if isinstance(c, ast.Call):
                d = call_name(c) or ''
                if d.startswith('random.') or d in ('time.time', 'uuid.uuid4', 'os.urandom', 'secrets.choice'):
                    q = getattr(enclosing_function(c), '_qualname', '<module>')
                    ctx.fail('R6', 'nondeterminism:%s@%s' % (d, q), m, c,
                             "%s makes the result depend on something other than the script and the submission" % d,
                             "grading the same pair twice gives different feedback (the chosen pool differs)",
                             function=q)
    ctx.ok('R6', 'sweep', sample={'modules': n})


def run(ctx):
    sym = Symbols(ctx.repo)
    r1_inventory(ctx, sym)
    r1b_reset_rebuilds(ctx, sym)
    r1c_loaders_build_fresh_types(ctx, sym)
    r1e_registration_path(ctx, sym)
    r1d_type_instances_own_their_fields(ctx, sym)
    r2_clear_complete(ctx, sym)
    r3_lazy_tool_reset(ctx, sym)
    r4_entry_points(ctx, sym)
    r5_overrides(ctx, sym)
    r6_determinism(ctx, sym)
    ctx.assume("state held by third-party modules and by instructor scripts themselves is out of scope; identical "
               "output text is implied only through the absence of leaked state")
