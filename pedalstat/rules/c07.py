"""C07 - runtime assertions pass only when the asserted relation really holds.

Every assert_* class's `condition` is executed abstractly (whitelist interpreter over its AST) on a finite domain of
operand values in each wrapping combination (raw / proxied), with error operands, and compared with the Python
relation named by the class, computed by CPython on the raw values."""
import ast
import itertools
import math
import operator
import re

from ..astutil import dotted, calls, call_name, body_walk, walk_local, is_self_attr, kw
from ..fdeval import FD, Obj, Raised, Inconclusive, UNKNOWN, truth
from ..loader import AnalysisError, norm
from ..symbols import Symbols, ClassInfo

RUNTIME = 'pedal.assertions.runtime'
AFEED = 'pedal.assertions.feedbacks'
COMPARISONS = 'pedal.utilities.comparisons'
ACMDS = 'pedal.assertions.commands'


class PV:
    """Model of a (repaired, transparent) SandboxResult: forwards the Python-level protocol to the value and spoofs
    __class__; consumers implemented in C that demand an exact type (str.__contains__, re, isinstance arg 2, `is`)
    see the wrapper - exactly the situations C07.R5 is about."""
    _fd_identity = True

    def __init__(self, v):
        object.__setattr__(self, '_v', v)

    @property
    def _actual_value(self):
        return self._v

    @property
    def __class__(self):
        return type(self._v)

    def __getattr__(self, name):
        return getattr(self._v, name)

    def __eq__(self, o): return self._v == (o._v if type(o) is PV else o)
    def __ne__(self, o): return self._v != (o._v if type(o) is PV else o)
    def __lt__(self, o): return self._v < (o._v if type(o) is PV else o)
    def __le__(self, o): return self._v <= (o._v if type(o) is PV else o)
    def __gt__(self, o): return self._v > (o._v if type(o) is PV else o)
    def __ge__(self, o): return self._v >= (o._v if type(o) is PV else o)
    def __bool__(self): return bool(self._v)
    def __len__(self): return len(self._v)
    def __iter__(self): return iter(self._v)
    def __contains__(self, item): return (item._v if type(item) is PV else item) in self._v
    def __hash__(self): return hash(self._v)
    def __str__(self): return str(self._v)
    def __repr__(self): return repr(self._v)


def unwrap(v):
    return v._v if type(v) is PV else v


ERR = ZeroDivisionError('division by zero')
NAN = float('nan')
LIST_A = [1, 2]


class Spec:
    def __init__(self, name, rel, domain, arity=2, note=''):
        self.name, self.rel, self.domain, self.arity, self.note = name, rel, domain, arity, note


ORD_DOMAIN = [(1, 2), (2, 1), (2, 2), (1.5, 2), ('a', 'b'), ('b', 'a'), ({1}, {2}), ({1}, {1, 2}), (NAN, 1.0),
              ('a', 5), ([1], [2]), (None, 1)]
IN_DOMAIN = [(1, [1, 2]), (3, [1, 2]), ('a', 'abc'), ('z', 'abc'), ('k', {'k': 1}), (1, (2, 3)), (1, 5), ('a', ['a'])]
SUBSET_DOMAIN = [([1], [1, 2]), ([1, 3], [1, 2]), ([], [1]), (['a'], 'abc'), ([1], 5)]
ID_DOMAIN = [(LIST_A, LIST_A), ([1, 2], [1, 2]), (None, None), (1, 1.0), ('a', None)]
UNARY_DOMAIN = [(0,), (1,), ('',), ('x',), ([],), ([0],), (None,), (False,), (True,)]
LEN_DOMAIN = [([1, 2], 2), ([1, 2], 3), ('', 0), ('abc', 2), ((1,), 1), (5, 1), ({1: 2}, 1)]
INST_DOMAIN = [(5, int), ('a', int), ('a', str), ([1], list), (None, int), (True, bool), (5, str), ([], (list, tuple))]
REGEX_DOMAIN = [('a+', 'caat'), ('^b', 'abc'), ('x', 5), (r'\d', 'n0'), ('z', '')]


def _none(v):
    return v is None


SPECS = [
    Spec('assert_less', operator.lt, ORD_DOMAIN), Spec('assert_less_equal', operator.le, ORD_DOMAIN),
    Spec('assert_greater', operator.gt, ORD_DOMAIN), Spec('assert_greater_equal', operator.ge, ORD_DOMAIN),
    Spec('assert_in', lambda a, b: a in b, IN_DOMAIN), Spec('assert_not_in', lambda a, b: a not in b, IN_DOMAIN),
    Spec('assert_contains_subset', lambda a, b: all(x in b for x in a), SUBSET_DOMAIN),
    Spec('assert_not_contains_subset', lambda a, b: not all(x in b for x in a), SUBSET_DOMAIN),
    Spec('assert_is', lambda a, b: a is b, ID_DOMAIN), Spec('assert_is_not', lambda a, b: a is not b, ID_DOMAIN),
    Spec('assert_is_none', lambda a: a is None, UNARY_DOMAIN, 1),
    Spec('assert_is_not_none', lambda a: a is not None, UNARY_DOMAIN, 1),
    Spec('assert_true', lambda a: bool(a), UNARY_DOMAIN, 1), Spec('assert_false', lambda a: not bool(a), UNARY_DOMAIN, 1),
    Spec('assert_length_equal', lambda a, b: len(a) == b, LEN_DOMAIN),
    Spec('assert_length_not_equal', lambda a, b: len(a) != b, LEN_DOMAIN),
    Spec('assert_length_less', lambda a, b: len(a) < b, LEN_DOMAIN),
    Spec('assert_length_less_equal', lambda a, b: len(a) <= b, LEN_DOMAIN),
    Spec('assert_length_greater', lambda a, b: len(a) > b, LEN_DOMAIN),
    Spec('assert_length_greater_equal', lambda a, b: len(a) >= b, LEN_DOMAIN),
    Spec('assert_is_instance', lambda a, b: isinstance(a, b), INST_DOMAIN,
         note='pedal widens int/float to (int, float) on purpose; the domain has no int-vs-float cross case'),
    Spec('assert_not_is_instance', lambda a, b: not isinstance(a, b), INST_DOMAIN),
    Spec('assert_has_attr', lambda a, b: hasattr(a, b), [('abc', 'upper'), ('abc', 'nope'), ([], 'append'), (5, 'real'),
                                                         (None, 'x')]),
    Spec('assert_regex', lambda a, b: re.search(a, str(b)) is not None, REGEX_DOMAIN),
    Spec('assert_not_regex', lambda a, b: re.search(a, str(b)) is None, REGEX_DOMAIN),
]
EQUALITY = [('assert_equal', True), ('assert_not_equal', False), ('assert_almost_equal', True),
            ('assert_not_almost_equal', False)]
PAIRS = [('assert_equal', 'assert_not_equal'), ('assert_less', 'assert_greater_equal'),
         ('assert_less_equal', 'assert_greater'), ('assert_in', 'assert_not_in'),
         ('assert_contains_subset', 'assert_not_contains_subset'), ('assert_is', 'assert_is_not'),
         ('assert_is_none', 'assert_is_not_none'), ('assert_true', 'assert_false'),
         ('assert_length_equal', 'assert_length_not_equal'), ('assert_length_less', 'assert_length_greater_equal'),
         ('assert_length_less_equal', 'assert_length_greater'), ('assert_is_instance', 'assert_not_is_instance'),
         ('assert_regex', 'assert_not_regex')]


_BOXED_CLASS = {}


def boxed(v):
    raw = unwrap(v)
    o = Obj('boxed', value=v, is_error=isinstance(raw, BaseException), is_sandboxed=type(v) is PV)
    if _BOXED_CLASS.get('node') is not None:
        # the wrapper is pedal's InterpolatedValue: helper methods a refactoring adds to it are found through the class
        o.attrs['__classdef__'] = _BOXED_CLASS['node']
    return o


class Harness:
    def __init__(self, ctx, sym):
        self.ctx, self.sym = ctx, sym
        self.mod = ctx.repo.module(RUNTIME)
        self.errors_fn = self.mod.func('errors')
        self.eq_calls = []
        try:
            _BOXED_CLASS['node'] = ctx.repo.module(AFEED).cls('InterpolatedValue')
        except (AnalysisError, KeyError):
            _BOXED_CLASS['node'] = None

    def condition_fn(self, cls_name):
        ci = self.sym.find_class(RUNTIME, cls_name)
        m = self.sym.method(ci, 'condition')
        if m is None:
            raise AnalysisError("anchor vanished: %s.condition" % cls_name)
        self.ctx.analysed_function(m[0].module, m[1])
        return m

    def new_fd(self, eq_result=None):
        fd = FD(max_steps=20000)
        fd.attr_hook = lambda base, attr: _getattr(base, attr)
        fd.functions['errors'] = self.errors_fn

        def b_isinstance(o, t):
            try:
                return isinstance(o, t)
            except TypeError as e:
                raise Raised('TypeError', str(e))

        def b_hasattr(o, n):
            try:
                return hasattr(o, n)
            except TypeError as e:
                raise Raised('TypeError', str(e))

        def b_search(p, s, *a):
            try:
                return re.search(p, s)
            except TypeError as e:
                raise Raised('TypeError', str(e))
            except re.error as e:
                raise Raised('re.error', str(e))
        fd.calls['isinstance'] = b_isinstance
        fd.calls['hasattr'] = b_hasattr
        fd.calls['re.search'] = b_search

        def b_match(p, s, *a):
            try:
                return re.match(p, s)
            except TypeError as e:
                raise Raised('TypeError', str(e))
        fd.calls['re.match'] = b_match
        fd.calls['re.fullmatch'] = lambda p, s, *a: re.fullmatch(p, s)
        fd.calls['callable'] = lambda x: callable(x)
        fd.calls['unwrap_value'] = unwrap
        fd.calls['is_sandbox_result'] = lambda v: type(v) is PV

        def eq(actual, expected, *a, **k):
            self.eq_calls.append((actual, expected, a, k))
            return eq_result
        fd.calls['equality_test'] = eq
        fd.resolver = lambda name: {'_FIELDS': '__dataclass_fields__', 'int': int, 'float': float, 'str': str,
                                    'dict': dict, 'list': list}[name]
        return fd

    def run(self, cls_name, operands, extra=(), eq_result=None):
        """Returns 'fires' | 'silent' | ('raises', kind)."""
        owner, fn = self.condition_fn(cls_name)
        fd = self.new_fd(eq_result)
        params = [a.arg for a in fn.args.args][1:]
        args = [boxed(v) for v in operands]
        if len(args) == 1 and len(params) >= 2:
            args.append(boxed('None'))     # unary assertions pass ExactValue("None") as the right operand
        args = args + list(extra)
        me = Obj('assertion', fields={})
        try:
            got = fd.call_function(fn, args[:len(params)], bound_self=me)
        except Raised as e:
            return ('raises', e.kind)
        except Inconclusive as e:
            raise AnalysisError("C07: %s.condition outside the decidable fragment: %s" % (cls_name, e))
        t = truth(got)
        if t is None:
            raise AnalysisError("C07: %s.condition evaluates to an unknown value on %r" % (cls_name, operands))
        return 'fires' if t else 'silent'


def _getattr(base, attr):
    try:
        return getattr(base, attr)
    except AttributeError as e:
        raise Raised('AttributeError', str(e))


def should_fire(spec, operands):
    raw = [unwrap(v) for v in operands]
    if any(isinstance(v, BaseException) for v in raw):
        return True, 'error operand'
    try:
        return (not spec.rel(*raw)), 'relation evaluated'
    except TypeError:
        return True, 'relation cannot be evaluated'


def fmt(v):
    return ('call(...)->' + repr(unwrap(v))) if type(v) is PV else repr(v)


def wrapper_turns_errors_into_failures(ctx, sym):
    """R4: does RuntimeAssertionFeedback.__init__ leave a feedback whose condition raised in the failing state?"""
    mod = ctx.repo.module(AFEED)
    fn = mod.func('RuntimeAssertionFeedback.__init__')
    ctx.analysed_function(mod, fn)
    tries = [t for t in ast.walk(fn) if isinstance(t, ast.Try) and any(
        isinstance(c.func, ast.Attribute) and c.func.attr == '__init__' for c in calls(ast.Module(body=t.body,
                                                                                                type_ignores=[])))]
    ctx.require(len(tries) == 1, "RuntimeAssertionFeedback.__init__ no longer wraps super().__init__ in one try")
    ok = True
    handler = None
    for h in tries[0].handlers:
        handler = h
        src = norm(ast.Module(body=h.body, type_ignores=[]))
        reraises_always = bool(h.body) and isinstance(h.body[-1], ast.Raise)
        marks_failed = ('_met_condition = True' in src) or ('add_feedback(self)' in src) or ('_fail(' in src) or \
            ('mark_failed' in src)
        ok = ok and (reraises_always or marks_failed)
    return ok, mod, fn, handler


def r_tables(ctx, sym, h):
    ctx.rule('R1', "relation table: each assert_* condition, executed abstractly on raw evaluable operands (numbers, "
                   "strings, lists, sets, NaN, None, ...), fires exactly when the Python relation named by the class "
                   "does not hold (oracle: CPython's operator on the same values)")
    ctx.rule('R3', "error operands: with an operand that is an exception (failed call), the assertion fires")
    ctx.rule('R5', "proxy transparency: the outcome is the same whether an operand is a plain value or the proxied "
                   "result of a call (C-level consumers must receive the unwrapped value)")
    ok4, amod, afn, ahandler = wrapper_turns_errors_into_failures(ctx, sym)
    outcomes = {}
    n = 0
    for spec in SPECS:
        owner, fn = h.condition_fn(spec.name)
        rel_bad, err_bad, proxy_bad, uneval = [], [], [], []
        for operands in spec.domain:
            base = h.run(spec.name, operands)
            want, why = should_fire(spec, operands)
            n += 1
            outcomes[(spec.name, tuple(map(repr, operands)))] = (base, want, why)
            eff = base
            if isinstance(base, tuple):
                eff = 'fires' if ok4 else 'silent'     # the wrapper decides what a raising condition means
                uneval.append((operands, base))
                if why == 'relation evaluated':
                    # CPython evaluates the relation on these operands without raising: a condition that raises here
                    # is broken, whatever the wrapper does with the exception afterwards
                    rel_bad.append((operands, 'raises %s' % base[1], want, why))
            if (eff == 'fires') != want and not isinstance(base, tuple):
                rel_bad.append((operands, base, want, why))
            # proxies
            for mask in itertools.product((False, True), repeat=len(operands)):
                if not any(mask):
                    continue
                if ('is_instance' in spec.name or 'has_attr' in spec.name) and mask[1]:
                    continue    # a class object / attribute name obtained from a call is not an operand shape
                                # the property names (the second operand is the instructor's literal)
                wrapped = tuple(PV(v) if mk else v for v, mk in zip(operands, mask))
                got = h.run(spec.name, wrapped)
                n += 1
                if got != base:
                    proxy_bad.append((wrapped, got, base))
            # error operands
            for i in range(len(operands)):
                for wrap in (False, True):
                    ops = list(operands)
                    ops[i] = PV(ERR) if wrap else ERR
                    got = h.run(spec.name, tuple(ops))
                    n += 1
                    if got == 'silent':
                        err_bad.append((tuple(ops), got))
        key = spec.name
        if rel_bad:
            ops, got, want, why = rel_bad[0]
            ctx.fail('R1', key + ':relation', owner.module, fn,
                     "%d operand tuple(s) decided wrongly; e.g. %s(%s) %s although the relation %s" % (
                         len(rel_bad), spec.name, ', '.join(map(fmt, ops)),
                         'fires' if got == 'fires' else ('stays silent' if got == 'silent' else got),
                         'holds' if not want else 'does not hold'),
                     "%s(%s) and its negated counterpart on the same operands" % (spec.name, ', '.join(map(fmt, ops))))
        else:
            ctx.ok('R1', key + ':relation', sample={'assertion': spec.name, 'cells': len(spec.domain)})
        if err_bad:
            ops, got = err_bad[0]
            ctx.fail('R3', key + ':error-operand', owner.module, fn,
                     "%d cell(s) stay silent although an operand is an exception; e.g. %s(%s)" % (
                         len(err_bad), spec.name, ', '.join(map(fmt, ops))),
                     "%s(call('f')%s) where f raises: the assertion passes" % (
                         spec.name, ', ...' if spec.arity == 2 else ''))
        else:
            ctx.ok('R3', key + ':error-operand')
        if proxy_bad:
            ops, got, base = proxy_bad[0]
            ctx.fail('R5', key + ':proxy', owner.module, fn,
                     "%d cell(s) differ between plain and proxied operands; e.g. %s(%s) %s but on the plain values it "
                     "%s" % (len(proxy_bad), spec.name, ', '.join(map(fmt, ops)), got, base),
                     "%s with an operand obtained from call(...)" % spec.name)
        else:
            ctx.ok('R5', key + ':proxy')
    ctx.floor('R1', 'assertion table cells', n, 800)
    ctx.info("assertion tables: %d abstract evaluations over %d classes" % (n, len(SPECS)))

    ctx.rule('R4', "an assertion whose condition cannot be evaluated (raises) must end as a failed assertion: the "
                   "handler around super().__init__ in RuntimeAssertionFeedback re-raises or marks the feedback as "
                   "triggered")
    ctx.check(ok4, 'R4', 'RuntimeAssertionFeedback.__init__:swallows-condition-errors', amod, ahandler or afn,
              "the handler swallows the exception of a raising condition while Feedback._handle_condition has already "
              "filed the object as untriggered (status ERROR): the assertion silently passes",
              "assert_less('a', 5), assert_length_equal(5, 1), assert_not_in(call('s'), 'abc'), "
              "assert_regex(call('s'), 'a'): no feedback although the relation does not hold / cannot be evaluated",
              function='RuntimeAssertionFeedback.__init__')
    return outcomes


def r2_pairs(ctx, sym, h, outcomes):
    ctx.rule('R2', "complement pairs: on operands for which the relation can be evaluated, an assertion and its "
                   "negated counterpart never both fire or both stay silent")
    for a, b in PAIRS:
        if a == 'assert_equal':
            continue
        owner, fn = h.condition_fn(b)
        bad = []
        for (name, ops), (got, want, why) in outcomes.items():
            if name != a or why != 'relation evaluated':
                continue
            other = outcomes.get((b, ops))
            if other is None or isinstance(got, tuple) or isinstance(other[0], tuple):
                continue
            if got == other[0]:
                if want == other[1]:
                    continue   # CPython itself says the two relations are not complementary here (partial order, NaN)
                bad.append((ops, got))
        ctx.check(not bad, 'R2', 'pair:%s/%s' % (a, b), owner.module, fn,
                  "%d operand tuple(s) on which both %s; e.g. %s" % (
                      len(bad), 'fire' if bad and bad[0][1] == 'fires' else 'stay silent', bad[0][0] if bad else ''),
                  "%s and %s on the operands %s" % (a, b, bad[0][0] if bad else ''))


def r_equality_family(ctx, sym, h):
    ctx.rule('R1e', "equality family: condition = errors(operands) or [not] equality_test(left.value, right.value, "
                    "exact_strings, delta), tabulated over equality outcome x error operand")
    for name, positive in EQUALITY:
        owner, fn = h.condition_fn(name)
        bad = []
        for eq, err in itertools.product((True, False), (None, 0, 1)):
            ops = [3, 4]
            if err is not None:
                ops[err] = ERR
            del h.eq_calls[:]
            got = h.run(name, tuple(ops), extra=(False, .001), eq_result=eq)
            want = True if err is not None else ((not eq) if positive else eq)
            if (got == 'fires') != want:
                bad.append((eq, err, got))
            for call in h.eq_calls:
                if not (call[0] is ops[0] and call[1] is ops[1]):
                    bad.append(('args', call[0], call[1]))
        errs = [b for b in bad if b[0] != 'args' and b[1] is not None]
        other = [b for b in bad if b not in errs]
        ctx.check(not other, 'R1e', name + ':relation', owner.module, fn,
                  "condition does not fire exactly when the operands are %sequal: %s" % (
                      'not ' if positive else '', other[:2]), "%s(3, 4) / %s(3, 3)" % (name, name))
        ctx.check(not errs, 'R3', name + ':error-operand', owner.module, fn,
                  "with an error operand the assertion stays silent (equality_test(error, x) is False, so the "
                  "negated form passes)", "%s(call('f'), 1) where f raises" % name)


def module_level_function(ctx, sym, mod, name, needs=()):
    """A function that the module defines at top level under a condition (`if table is None: def f ... else: def f`):
    the top-level statements that bind `name` or one of `needs` are interpreted in order, and whatever `name` is bound
    to afterwards is returned as a callable."""
    from ..fdeval import module_resolver
    wanted = {name} | set(needs)

    def binds(st):
        for n in ast.walk(st):
            if isinstance(n, (ast.FunctionDef, ast.ClassDef)) and n.name in wanted:
                return True
            if isinstance(n, ast.Name) and isinstance(n.ctx, ast.Store) and n.id in wanted:
                return True
        return False
    fd = FD(max_steps=200000, resolver=module_resolver(sym, mod))
    fd.calls['set'] = lambda x=(): set(x)
    fd.calls['len'] = len
    env = {}
    try:
        for st in mod.tree.body:
            if isinstance(st, (ast.Try, ast.If, ast.Assign, ast.FunctionDef)) and binds(st):
                fd.stmt(st, env)
    except Raised as e:
        raise AnalysisError("module-level definition of %s in %s raises %s" % (name, mod.relpath, e.kind))
    except Inconclusive as e:
        raise AnalysisError("module-level definition of %s in %s is outside the decidable fragment: %s" % (
            name, mod.relpath, e))
    if not callable(env.get(name)):
        raise AnalysisError("anchor vanished: function %s in %s" % (name, mod.relpath))
    return env[name]


class _ProxiedValue:
    """What equality_test sees of a proxied call result (the proxy's own transparency is C16's business): isinstance
    answers for the wrapped value, type() does not, and length, iteration, comparison and hashing pass through."""

    def __init__(self, value):
        object.__setattr__(self, '_value', value)

    @property
    def __class__(self):
        return type(object.__getattribute__(self, '_value'))

    def _v(self):
        return object.__getattribute__(self, '_value')

    def __len__(self):
        return len(self._v())

    def __iter__(self):
        return iter(self._v())

    def __getitem__(self, k):
        return self._v()[k]

    def __contains__(self, k):
        return k in self._v()

    def __eq__(self, other):
        return self._v() == (other._v() if type(other) is _ProxiedValue else other)

    def __ne__(self, other):
        return not self.__eq__(other)

    def __hash__(self):
        return hash(self._v())

    def __getattr__(self, name):
        return getattr(object.__getattribute__(self, '_value'), name)     # keys(), items(), get(), ...

    def __repr__(self):
        return 'proxy(%r)' % (self._v(),)


def r6_equality_symmetry(ctx, sym):
    ctx.rule('R6', "equality_test is independent of argument order: executed abstractly on pairs (ints, floats near "
                   "the tolerance, bools, strings differing by case/punctuation, lists, tuples, dicts, sets, None) in "
                   "both orders")
    mod = ctx.repo.module(COMPARISONS)
    fn = mod.func('equality_test')
    ctx.analysed_function(mod, fn)
    import numbers
    # pedal's own strip_punctuation, as the module defines it (a table built at import time picks one of two versions)
    strip_punctuation = module_level_function(ctx, sym, mod, 'strip_punctuation', needs=('punctuation_table',))
    env = {'Number': numbers.Number, 'LIST_GENERATOR_TYPES': (type(map(bool, [])), type(filter(bool, [])),
                                                              type(range(0)), type(reversed([])), type(zip()),
                                                              type(enumerate([]))),
           'SET_GENERATOR_TYPES': (type({}.keys()), type({}.values()), type({}.items())),
           'float': float, 'int': int, 'str': str, 'bytes': bytes, 'list': list, 'tuple': tuple, 'set': set,
           'frozenset': frozenset, 'dict': dict}

    from ..fdeval import module_resolver
    fallback = module_resolver(sym, mod)

    def resolve_name(name):
        if name in env:
            return env[name]
        return fallback(name)

    def new_fd():
        fd = FD(max_steps=100000)
        fd.resolver = resolve_name
        fd.calls['isinstance'] = lambda o, t: isinstance(o, t)
        fd.calls['is_dataclass'] = lambda v: False
        fd.calls['type'] = type
        fd.calls['abs'] = abs
        fd.calls['set'] = lambda x=(): set(x)
        fd.calls['len'] = len
        fd.calls['zip'] = lambda *a: list(zip(*a))
        fd.calls['strip_punctuation'] = strip_punctuation
        fd.calls['re.sub'] = re.sub
        fd.calls['sorted'] = sorted
        fd.attr_hook = lambda base, attr: getattr(base, attr)
        # helpers of the module are found through the module itself (fdeval follows them); none is named here
        fd.methods['keys'] = lambda d: list(d.keys())
        return fd
    pairs = [(5, 5.0005), (5.0, 5.0005), (5, 5), (5, 6), (1.0, 1), (0.3, 0.1 + 0.2), (True, 1), ('Hello!', 'hello'),
             ('a b', 'a  b'), ('a', 'b'), ([1, 2.0004], [1, 2]), ((1, 'A'), (1, 'a')), ({'k': 1.0004}, {'k': 1}),
             ({1, 2}, {2, 1}), (None, None), (None, 0), ([1], (1,)), (5.0005, 5.0011),
             ({'a': 1, 'b': 2}, {'a': 1}), ([{'a': 1, 'b': 2}], [{'a': 1}]), ({'a': 1}, {'a': 1}), ({}, {'a': 1}),
             ([1, 2, 3], [1, 2]), ((1, 2), (1, 2, 3)), ({1, 2, 3}, {1, 2})]
    # documented semantics (tolerance .001, case/punctuation/whitespace-insensitive strings, recursive containers)
    documented = {(5.0, 5.0005): True, (5, 5): True, (5, 6): False, (1.0, 1): True, ('Hello!', 'hello'): True,
                  ('a b', 'a  b'): True, ('a', 'b'): False, ((1, 'A'), (1, 'a')): True, (None, None): True,
                  (None, 0): False, (5.0, 5.1): False,
                  # (punctuation next to a blank or at the end: the documentation - "remove all punctuation
                  # characters" - and the implementation - replace each by a blank - agree; between two word
                  # characters they do not, and no side is taken here)
                  ('Hello, world!', 'hello world'): True, ('(a) b.', 'a b'): True}
    # containers of different sizes are different, whichever side is the larger one
    for a, b in (({'a': 1, 'b': 2}, {'a': 1}), ([1, 2, 3], [1, 2]), ((1, 2), (1, 2, 3)), ({1, 2, 3}, {1, 2}),
                 ({}, {'a': 1})):
        for x, y in ((a, b), (b, a)):
            fd = new_fd()
            try:
                got = bool(fd.call_function(fn, [x, y, False, .001]))
            except Raised as e:
                got = 'raises ' + e.kind
            except Inconclusive as e:
                raise AnalysisError("C07 R6: equality_test outside the decidable fragment on %r: %s" % ((x, y), e))
            ctx.check(got is False, 'R6', 'equality_test(%r,%r):different-sizes' % (x, y), mod, fn,
                      "equality_test(%r, %r) is %s although the containers have different sizes" % (x, y, got),
                      "assert_equal(%r, %r) passes; unit_test() counts a case with a spurious extra key as passed" % (
                          x, y))
    for (a, b), want in documented.items():
        fd = new_fd()
        try:
            got = bool(fd.call_function(fn, [a, b, False, .001]))
        except Raised as e:
            got = 'raises ' + e.kind
        except Inconclusive as e:
            raise AnalysisError("C07 R6: equality_test outside the decidable fragment on %r: %s" % ((a, b), e))
        ctx.check(got == want, 'R6', 'equality_test(%r,%r)' % (a, b), mod, fn,
                  "equality_test(%r, %r) is %s; the documented tolerance/normalisation makes it %s" % (a, b, got, want),
                  "assert_equal(%r, %r)" % (a, b))
    # dictionary keys are compared like any other strings (normalised unless exact_strings): the values must then be
    # looked up under the partner key, in either argument order
    for a, b, exact, want in (({'Name': 1}, {'name': 1}, False, True), ({'Name': 1}, {'name': 2}, False, False),
                              ({'A b': [1.0004]}, {'a  b': [1]}, False, True), ({'Name': 1}, {'name': 1}, True, False),
                              ({'x': {'Inner': 'v'}}, {'x': {'inner': 'V'}}, False, True)):
        for x, y in ((a, b), (b, a)):
            fd = new_fd()
            try:
                got = bool(fd.call_function(fn, [x, y, exact, .001]))
            except Raised as e:
                got = 'raises ' + e.kind
            except Inconclusive as e:
                raise AnalysisError("C07 R6: equality_test outside the decidable fragment on %r: %s" % ((x, y), e))
            ctx.check(got is want, 'R6', 'equality_test(%r,%r,exact_strings=%r):keys' % (x, y, exact), mod, fn,
                      "equality_test(%r, %r, exact_strings=%r) %s; keys that are equal as strings under the requested "
                      "comparison pair up, so the answer is %s" % (x, y, exact, got if isinstance(got, str) else
                                                                  'is %s' % got, want),
                      "assert_equal(%r, %r) and assert_not_equal on the same operands both pass silently (KeyError "
                      "inside the condition)" % (x, y))
    # one operand is the proxied result of a call (isinstance sees the wrapped value, type() does not): the answer is
    # the one for the plain values, in every wrapping combination and both orders
    for a, b, want in (([1.0004, 2.5], [1.0, 2.5], True), ((1, 'Ada!'), (1, 'ada'), True), ({1.0004}, {1.0}, True),
                       (frozenset({'A'}), frozenset({'a'}), True), ([[1.0004]], [[1.0]], True),
                       ([1.0, 2.5], [1.0, 2.6], False), ({'k': [1.0004]}, {'k': [1.0]}, True),
                       ([1, 2], (1, 2), False)):
        for wrap_a, wrap_b in ((True, False), (False, True), (True, True)):
            for x, y in ((a, b), (b, a)):
                px = _ProxiedValue(x) if wrap_a else x
                py = _ProxiedValue(y) if wrap_b else y
                fd = new_fd()
                try:
                    got = bool(fd.call_function(fn, [px, py, False, .001]))
                except Raised as e:
                    got = 'raises ' + e.kind
                except Inconclusive as e:
                    raise AnalysisError("C07 R6: equality_test outside the decidable fragment on %r: %s" % ((px, py), e))
                ctx.check(got is want, 'R6', 'equality_test(%r,%r):proxied' % (px, py), mod, fn,
                          "equality_test(%r, %r) is %s; for the plain values it is %s" % (px, py, got, want),
                          "assert_equal(call('ident', %r), %r) fails although the values are equal within the "
                          "tolerance" % (x, y))
    # the non-default parameters must reach every nested comparison (exact strings, a custom delta)
    param_cases = []
    for wrap, label in ((lambda v: v, 'scalar'), (lambda v: [v], 'list'), (lambda v: (v,), 'tuple'),
                        (lambda v: {'k': v}, 'dict'), (lambda v: [(v,)], 'nested')):
        param_cases += [((wrap('Hello'), wrap('hello'), True, .001), False, label + ':exact_strings'),
                        ((wrap('Hello'), wrap('hello'), False, .001), True, label + ':normalised'),
                        ((wrap(1.0), wrap(1.0005), False, .0001), False, label + ':small-delta'),
                        ((wrap(1.0), wrap(1.05), False, .1), True, label + ':large-delta')]
    for args, want, label in param_cases:
        fd = new_fd()
        try:
            got = bool(fd.call_function(fn, list(args)))
        except Raised as e:
            got = 'raises ' + e.kind
        except Inconclusive as e:
            raise AnalysisError("C07 R6: equality_test outside the decidable fragment on %r: %s" % (args, e))
        ctx.check(got == want, 'R6', 'equality_test[%s]' % label, mod, fn,
                  "equality_test(%r, %r, exact_strings=%r, delta=%r) is %s, expected %s: the parameters do not reach "
                  "the nested comparison" % (args[0], args[1], args[2], args[3], got, want),
                  "assert_equal(%r, %r, exact_strings=%r, delta=%r)" % args)
    bad = []
    for a, b in pairs:
        res = []
        for x, y in ((a, b), (b, a)):
            fd = new_fd()
            try:
                r = fd.call_function(fn, [x, y, False, .001])
                res.append(bool(r))
            except Raised as e:
                res.append('raises ' + e.kind)
            except Inconclusive as e:
                raise AnalysisError("C07 R6: equality_test outside the decidable fragment on %r: %s" % ((x, y), e))
        if res[0] != res[1]:
            bad.append((a, b, res))
    ctx.floor('R6', 'equality pairs', len(pairs), 15)
    if bad:
        a, b, res = bad[0]
        ctx.fail('R6', 'equality_test:order-dependent', mod, fn,
                 "%d of %d pairs compare differently when the arguments are swapped; e.g. equality_test(%r, %r) is %s "
                 "but equality_test(%r, %r) is %s (the float-tolerance branch requires the *expected* side to be the "
                 "float)" % (len(bad), len(pairs), a, b, res[0], b, a, res[1]),
                 "assert_equal(5, 5.0005) passes while assert_equal(5.0005, 5) fails")
    else:
        ctx.ok('R6', 'equality_test:order-independent', sample={'pairs': len(pairs)})


def r7_unit_test(ctx, sym):
    ctx.rule('R7', "unit_test accounting: _get_child_feedback (decision table over child status) files INACTIVE as "
                   "success, ACTIVE as failure, ERROR as error and always mutes/unscores the child; the group fires "
                   "iff there is a failure or an error; success_count = len(successes); unit_test calls the assert "
                   "function once per case and returns `not group_result`")
    mod = ctx.repo.module(AFEED)
    fn = mod.func('assert_group._get_child_feedback')
    ctx.analysed_function(mod, fn)
    status = sym.find_class('pedal.core.feedback_category', 'FeedbackStatus')
    consts = {k: sym.const(status.module, v) for k, v in status.attrs.items() if isinstance(v, ast.Constant)}
    want = {'INACTIVE': 'successes', 'ACTIVE': 'failures', 'ERROR': 'errors'}
    for st, bucket in want.items():
        fd = FD()
        fd.calls['isinstance'] = lambda o, t: True
        fd.resolver = lambda name: dict({'FeedbackStatus.' + k: v for k, v in consts.items()},
                                        RuntimeAssertionFeedback='RuntimeAssertionFeedback')[name]
        me = Obj('group', successes=[], failures=[], errors=[], all_feedback=[])
        child = Obj('child', _status=consts[st], muted=None, unscored=None)
        try:
            fd.call_function(fn, [child, True], bound_self=me)
        except (Raised, Inconclusive) as e:
            raise AnalysisError("C07 R7: _get_child_feedback outside the decidable fragment: %s" % e)
        got = [b for b in ('successes', 'failures', 'errors') if me.attrs[b]]
        ctx.check(got == [bucket] and me.attrs['all_feedback'] == [child] and child.attrs['muted'] is True
                  and child.attrs['unscored'] is True, 'R7', '_get_child_feedback[%s]' % st, mod, fn,
                  "a child with status %s is filed under %s (expected %s), muted=%r unscored=%r" % (
                      st, got, bucket, child.attrs['muted'], child.attrs['unscored']),
                  "unit_test with one case that %s reports a wrong pass count" % (
                      {'INACTIVE': 'passes', 'ACTIVE': 'fails', 'ERROR': 'cannot be evaluated'}[st]))
    cond = sym.method(sym.find_class(AFEED, 'assert_group'), 'condition')
    ctx.require(cond is not None, "assert_group.condition vanished")
    for nf, ne in itertools.product((0, 1), (0, 1)):
        fd = FD()
        me = Obj('group', failures=[1] * nf, errors=[1] * ne, successes=[])
        try:
            got = truth(fd.call_function(cond[1], [], bound_self=me))
        except (Raised, Inconclusive) as e:
            raise AnalysisError("C07 R7: assert_group.condition outside the decidable fragment: %s" % e)
        ctx.check(got == bool(nf or ne), 'R7', 'assert_group.condition[f=%d,e=%d]' % (nf, ne), cond[0].module, cond[1],
                  "the group %s with %d failure(s) and %d error(s)" % ('fires' if got else 'passes', nf, ne),
                  "unit_test succeeds although a case failed")
    fm = mod.func('assert_group.format_message')
    ok = any(isinstance(n, ast.Assign) and "['success_count']" in norm(n.targets[0]) and
             'len(self.successes)' in norm(n.value) for n in ast.walk(fm))
    ctx.check(ok, 'R7', 'success_count', mod, fm, "success_count is not len(self.successes)",
              "the reported pass count is wrong")
    # unit_test executed abstractly: one assertion per case, in order, on the result of calling the student function
    # with that case's arguments, against that case's expected value; the return value is `not group`
    from .c03 import unit_test_runs
    cmod = ctx.repo.module(ACMDS)
    ut = cmod.func('unit_test')
    n_ut = 0
    for sc, ob in unit_test_runs(ctx, sym):
        if sc['score'] not in (None, '10') or sc['partial_credit'] not in (False, True):
            continue
        n_ut += 1
        tag = '[cases=%d%s,partial_credit=%r]' % (sc['n'], ',string-args' if sc['str_args'] else '', sc['partial_credit'])
        rec = ob['rec']
        if ob['raised'] is not None:
            ctx.fail('R7', 'unit_test:raises' + tag, cmod, ut, "unit_test raises %s" % ob['raised'].kind,
                     "unit_test('f', ...)")
            continue
        asserts, calls_ = rec.named('assert'), rec.named('call')
        ok = len(asserts) == sc['n'] and len(calls_) == sc['n'] and all(
            a[1] and a[1][0] is ob['results'][i] and len(a[1]) >= 2 and a[1][1] == sc['tests'][i][1]
            for i, a in enumerate(asserts))
        if ok:
            for i, c in enumerate(calls_):
                args = sc['tests'][i][0]
                if sc['str_args']:
                    ok = ok and c[1][:1] == ('f',) and c[2].get('args_locals') == [args]
                else:
                    ok = ok and c[1] == ('f',) + tuple(args)
        ctx.check(ok, 'R7', 'unit_test:each-case-once' + tag, cmod, ut,
                  "unit_test does not assert exactly once per case, in order, on call(function, <that case's "
                  "arguments>) against that case's expected value (%d assertion(s), %d call(s) for %d case(s))" % (
                      len(asserts), len(calls_), sc['n']), "a case is skipped, repeated or compared with another "
                  "case's expected value")
        # the group object is falsy (no failure) in this model: unit_test must report success
        ctx.check(ob['value'] is True, 'R7', 'unit_test:returns' + tag, cmod, ut,
                  "unit_test returns %r for a group without failures (expected `not group_result` = True)" % (
                      ob['value'],), "unit_test reports failure although every case passed (or the reverse)")
    ctx.floor('R7', 'unit_test scenarios', n_ut, 10)


def r8_constructible(ctx, sym, h):
    ctx.rule('R8', "every assert_* class routes its operands through an InterpolatedValue wrapper: its __init__ (or an "
                   "inherited one) calls the base constructor with SandboxedValue/ExactValue operands, and its "
                   "condition's parameters match what the wrapper passes")
    base = sym.find_class(AFEED, 'RuntimeAssertionFeedback')
    n = 0
    for ci in sym.subclasses(base, strict=True):
        if not ci.name.startswith('assert_') or ci.module.name != RUNTIME:
            continue
        n += 1
        init = sym.method(ci, '__init__')
        cond = sym.method(ci, 'condition')
        own_init = init is not None and init[0] is not base
        if not own_init:
            ctx.fail('R8', ci.name + ':no-wrapping-init', ci.module, ci.node,
                     "%s has no __init__ that wraps its operands in SandboxedValue/ExactValue; the base constructor "
                     "calls left.set_report(...) on the raw operand" % ci.name,
                     "%s(obj, 'x') raises AttributeError (\"object has no attribute 'set_report'\") instead of "
                     "asserting anything" % ci.name)
            continue
        ctx.ok('R8', ci.name + ':has-wrapping-init', nontrivial=False)
    ctx.floor('R8', 'assert_* classes', n, 35)


OUTPUT_FAMILY = [('assert_output', 'equal', True), ('assert_not_output', 'equal', False),
                 ('assert_output_contains', 'contains', True), ('assert_not_output_contains', 'contains', False),
                 ('assert_output_regex', 'regex', True), ('assert_not_output_regex', 'regex', False)]


def _norm_output(t):
    import string as _string
    t = ''.join(c for c in t.lower() if c not in _string.punctuation)
    return sorted(l.split() for l in t.split('\n') if l.split())


def r10b_context_of_the_call(ctx, sym):
    ctx.rule('R10', "... and the context an assertion reads for a proxied call result is that call's: Sandbox.get_context "
                    "executed abstractly on five recorded executions with no group, one group and nested groups open "
                    "(a CommandBlock started after the student's run): for every execution id the list it returns ends "
                    "with that execution's own context, and without an id with the latest one")
    from .. import symexec
    smod = ctx.repo.module('pedal.sandbox.sandbox')
    fn = smod.func('Sandbox.get_context')
    ctx.analysed_function(smod, fn)
    for groups in ([], [0], [2], [4], [1, 3], [2, 2]):
        contexts = [Obj('context#%d' % i, context_id=i, output='output of execution %d\n' % i) for i in range(5)]
        for cid in (None, 0, 1, 2, 3, 4):
            me = symexec.self_obj(smod, 'Sandbox', _context=list(contexts), _context_group_start=list(groups))
            fd = symexec.new_fd(sym, smod, calls={'len': len, 'reversed': lambda x: list(reversed(x))})
            got, raised = symexec.run(fd, fn, [] if cid is None else [cid], bound_self=me, what='Sandbox.get_context')
            want = contexts[-1] if cid is None else contexts[cid]
            ok = raised is None and isinstance(got, list) and got and got[-1] is want
            ctx.check(ok, 'R10', 'get_context[groups=%r,id=%r]' % (groups, cid), smod, fn,
                      "with group starts %r, get_context(%s) %s; the assertion reads the output of the last entry, which "
                      "must be execution %s" % (groups, '' if cid is None else cid,
                                                'raises %s' % raised.kind if raised is not None else 'returns %s' % (
                                                    [getattr(c, '_name', c) for c in got] if isinstance(got, list)
                                                    else got,), 'the latest' if cid is None else cid),
                      "student run(); with CommandBlock(): first = call('greet'); call('farewell'); "
                      "assert_output(first, 'Hello there') judges the farewell's output")


def r10_output_family(ctx, sym):
    ctx.rule('R10', "output assertions executed abstractly: the relation (==, in, re.search) is applied to the text "
                    "printed by the asserted execution itself - the call's own context for a proxied call result, the "
                    "sandbox's whole output for a Sandbox operand - and to the expected text; an error operand never "
                    "passes. Operands: own output vs. earlier output of the same sandbox x 3 expected texts x "
                    "exact_strings")
    from .. import symexec
    mod = ctx.repo.module(RUNTIME)
    n = 0
    for cls_name, rel, positive in OUTPUT_FAMILY:
        ci = sym.find_class(RUNTIME, cls_name)
        m = sym.method(ci, 'condition') if ci is not None else None
        if m is None:
            raise AnalysisError("anchor vanished: %s.condition" % cls_name)
        owner, fn = m
        ctx.analysed_function(owner.module, fn)
        for operand in ('call-result', 'sandbox', 'error', 'call-result:trailing-blank-line'):
            for text in ('Hello world!', 'banner', 'hello', 'zzz', 'Hello world!\n'):
                for exact in (True, False):
                    sb = Obj('sandbox', raw_output='banner\nHello world!\n', output=['banner', 'Hello world!'],
                             exception=None)
                    if operand == 'call-result:trailing-blank-line':
                        # print("Hello world!"); print(): what was printed minus the final newline print() adds
                        own = 'Hello world!\n'
                        value = Obj('proxied-result', _actual_sandbox=sb, _actual_context_id=3, _actual_value=None)
                        execution = Obj('execution', value=value, is_sandboxed=True, is_error=False,
                                        context=[Obj('context', output='Hello world!\n\n', context_id=3)])
                    elif operand == 'call-result':
                        own = 'Hello world!'
                        value = Obj('proxied-result', _actual_sandbox=sb, _actual_context_id=3, _actual_value=None)
                        execution = Obj('execution', value=value, is_sandboxed=True, is_error=False,
                                        context=[Obj('context', output='Hello world!\n', context_id=3)])
                    elif operand == 'sandbox':
                        own = 'banner\nHello world!'
                        execution = Obj('execution', value=sb, is_sandboxed=False, is_error=False, context=None)
                    else:
                        own = None
                        execution = Obj('execution', value=Obj('student-exception', exc_kind='ValueError'),
                                        is_sandboxed=False, is_error=True, context=None)

                    def eq(a, b, *args, **kw):
                        ex = kw.get('_exact_strings', args[0] if args else False)
                        if not isinstance(a, str) or not isinstance(b, str):
                            raise Raised('TypeError', 'equality_test on %r / %r' % (a, b))
                        return a == b if ex else _norm_output(a) == _norm_output(b)

                    def search(pat, text_, *a):
                        if not isinstance(pat, str) or not isinstance(text_, str):
                            raise Raised('TypeError', 're.search on %r' % (text_,))
                        return re.search(pat, text_)
                    me = symexec.self_obj(owner.module, owner.name, fields={})
                    fd = symexec.new_fd(sym, owner.module, calls={
                        'equality_test': eq, 're.search': search,
                        'isinstance': lambda o, t: (o is sb) if t == 'Sandbox-class' else (
                            isinstance(o, Obj) and o.attrs.get('exc_kind') is not None if t in ('Exception-class',)
                            else False)},
                        extra={'Sandbox': 'Sandbox-class', 'Exception': 'Exception-class'})
                    got, raised = symexec.run(fd, fn, [execution, Obj('text', value=text, is_error=False,
                                                                      is_sandboxed=False), exact],
                                              bound_self=me, what='%s.condition' % cls_name)
                    n += 1
                    if own is None:
                        ok = raised is not None or truth(got) is True
                        want = 'fires (or raises into the wrapper)'
                    else:
                        if rel == 'equal':
                            holds = (own == text) if exact else _norm_output(own) == _norm_output(text)
                        elif rel == 'contains':
                            holds = (text in own) if exact else text.lower() in own.lower()
                        else:
                            holds = re.search(text, own) is not None
                        holds = holds if positive else not holds
                        ok = raised is None and truth(got) is (not holds)
                        want = 'silent' if holds else 'fires'
                    outcome = ('raises %s' % raised.kind) if raised is not None else (
                        'fires' if truth(got) else 'silent')
                    ctx.check(ok, 'R10', '%s[%s,%r,exact=%s]' % (cls_name, operand, text, exact), owner.module, fn,
                              "%s on a %s operand whose own printed output is %r, expected text %r (exact_strings=%s): "
                              "%s, the relation requires %s" % (cls_name, operand, own, text, exact, outcome, want),
                              "print('banner') at top level, then %s(call('hi'), %r) where hi() prints "
                              "'Hello world!'" % (cls_name, text))
    ctx.floor('R10', 'output assertion cells', n, 100)


def r11_documented_options(ctx, sym):
    ctx.rule('R11', "the documented keyword options of the runtime assertions (explanation=, context=, assertion=) do not "
                    "reach condition(): RuntimeAssertionFeedback.__init__ is executed abstractly with each option and "
                    "whatever it forwards beyond Feedback.__init__'s own parameters must be a parameter of the "
                    "assertion's condition (an unexpected keyword raises TypeError inside the condition, which the "
                    "wrapper turns into a silent pass)")
    from .. import symexec
    amod = ctx.repo.module(AFEED)
    init = amod.func('RuntimeAssertionFeedback.__init__')
    ctx.analysed_function(amod, init)
    fmod = ctx.repo.module('pedal.core.feedback')
    finit = fmod.func('Feedback.__init__')
    named = {a.arg for a in finit.args.kwonlyargs} | {a.arg for a in finit.args.args}
    options = [('explanation', 'You added incorrectly.'), ('context', 'I ran your code.'), ('context', False),
               ('assertion', 'The result was wrong.'), ('assertion', False)]
    forwarded = {}
    for name, value in options:
        rec = symexec.Recorder()
        sup = Obj('super')
        symexec.method(sup, '__init__', rec.stub('super().__init__'))
        group = None
        fmt = Obj('format', __open__=True)
        fmt.attrs['__unknown_method__'] = lambda n, *a, **k: 'formatted'
        report = Obj('report', format=fmt)
        symexec.method(report, 'get_current_group', lambda: group)
        symexec.method(report, '__getitem__', lambda k: {'exceptions': False})
        me = symexec.self_obj(amod, 'RuntimeAssertionFeedback', _expected_verb='to be', _aggregate_verb='Expected',
                              _inverse_operator='!=')
        symexec.method(me, 'get_sandbox_contexts', lambda *a: [])
        symexec.method(me, 'format_assertion', lambda *a: 'assertion text')
        symexec.method(me, '__bool__', lambda: True)
        left = Obj('left', value=1, is_error=False, is_sandboxed=False)
        right = Obj('right', value=2, is_error=False, is_sandboxed=False)
        for o in (left, right):
            symexec.method(o, 'set_report', lambda r: None)
        fd = symexec.new_fd(sym, amod, calls={'super': lambda *a: sup, 'format_contexts': lambda *a: 'contexts'},
                            extra={'MAIN_REPORT': report})
        _, raised = symexec.run(fd, init, [left, right], {name: value, 'report': report}, bound_self=me,
                                what='RuntimeAssertionFeedback.__init__')
        built = rec.named('super().__init__')
        if raised is not None or len(built) != 1:
            raise AnalysisError("C07 R11: RuntimeAssertionFeedback.__init__ did not reach Feedback.__init__ once "
                                "(%s)" % (raised.kind if raised is not None else len(built)))
        forwarded[(name, repr(value))] = set(built[0][2]) - named
    classes = [sp.name for sp in SPECS] + [e[0] for e in EQUALITY] + [o[0] for o in OUTPUT_FAMILY]
    n = 0
    for cls_name in classes:
        ci = sym.find_class(RUNTIME, cls_name)
        m = sym.method(ci, 'condition') if ci is not None else None
        if m is None:
            raise AnalysisError("anchor vanished: %s.condition" % cls_name)
        cond = m[1]
        accepts = {a.arg for a in cond.args.args + cond.args.kwonlyargs}
        takes_any = cond.args.kwarg is not None
        for (name, value), extra in sorted(forwarded.items()):
            n += 1
            stray = set() if takes_any else (extra - accepts)
            ctx.check(not stray, 'R11', '%s(%s=%s)' % (cls_name, name, value), m[0].module, cond,
                      "%s(..., %s=%s): the option is forwarded to %s.condition(), which has no such parameter - the "
                      "condition raises TypeError, the wrapper swallows it and the assertion passes whatever the "
                      "operands" % (cls_name, name, value, cls_name),
                      "%s(1, 2, %s=%s) produces no feedback; every PedalTestCase.assert* method passes "
                      "explanation=msg" % (cls_name, name, value))
    ctx.floor('R11', 'assertion x option cells', n, 150)


def r12_documented_delta(ctx, sym, eq_fn_runner):
    ctx.rule('R12', "the documented delta of the equality family (a number, or None for the default .001): the "
                    "assertion's constructor and condition are executed abstractly with delta=None / omitted / 0.1 "
                    "on floats inside and outside the tolerance; equality_test is the real one (interpreted)")
    from .. import symexec
    rmod = ctx.repo.module(RUNTIME)
    for cls_name, positive in EQUALITY:
        ci = sym.find_class(RUNTIME, cls_name)
        init = sym.method(ci, '__init__')
        cond = sym.method(ci, 'condition')
        if init is None or cond is None:
            raise AnalysisError("anchor vanished: %s.__init__/condition" % cls_name)
        for delta_kw, tol in (({'delta': None}, .001), ({}, .001), ({'delta': .1}, .1)):
            for left, right in ((1.0, 1.0 + tol / 2), (1.0, 1.0 + tol * 3)):
                rec = symexec.Recorder()
                sup = Obj('super')
                symexec.method(sup, '__init__', rec.stub('super().__init__'))
                me = symexec.self_obj(init[0].module, cls_name, fields={})
                fd = symexec.new_fd(sym, init[0].module, calls={
                    'super': lambda *a: sup, 'SandboxedValue': lambda v, *a: boxed(v), 'ExactValue': lambda v, *a: boxed(v)})
                _, raised = symexec.run(fd, init[1], [left, right], dict(delta_kw), bound_self=me,
                                        what=cls_name + '.__init__')
                built = rec.named('super().__init__')
                if raised is not None or len(built) != 1:
                    raise AnalysisError("C07 R12: %s.__init__ did not reach the wrapper once" % cls_name)
                args, kwargs = built[0][1], built[0][2]
                params = [a.arg for a in cond[1].args.args][1:]
                call_kwargs = {k: v for k, v in kwargs.items() if k in params}
                outcome = eq_fn_runner(cond[1], list(args), call_kwargs, me)
                holds = abs(left - right) < tol
                want = ('silent' if holds else 'fires') if positive else ('fires' if holds else 'silent')
                ctx.check(outcome == want, 'R12', '%s(%r,%r,%s)' % (cls_name, left, right, ', '.join(
                    '%s=%r' % kv for kv in delta_kw.items()) or 'default delta'), cond[0].module, cond[1],
                          "%s(%r, %r%s) %s; with the documented tolerance %r the relation %s, so it must be %s" % (
                              cls_name, left, right, ''.join(', %s=%r' % kv for kv in delta_kw.items()), outcome, tol,
                              'holds' if holds else 'does not hold', want),
                          "assert_equal(1.0, 2.0, delta=None) passes silently: TypeError ('<' with None) inside the "
                          "condition although the documentation says None selects the default")


def run(ctx):
    sym = Symbols(ctx.repo)
    h = Harness(ctx, sym)
    r10_output_family(ctx, sym)
    r10b_context_of_the_call(ctx, sym)
    r11_documented_options(ctx, sym)

    def run_condition(cond_fn, args, kwargs, me):
        import numbers
        import string as _string
        from .. import symexec
        table = str.maketrans(_string.punctuation, ' ' * len(_string.punctuation))
        extra = {'Number': numbers.Number, 'LIST_GENERATOR_TYPES': (type(map(bool, [])), type(range(0))),
                 'SET_GENERATOR_TYPES': (type({}.keys()), type({}.values()), type({}.items())),
                 'float': float, 'int': int, 'str': str, 'bytes': bytes, 'list': list, 'tuple': tuple, 'set': set,
                 'frozenset': frozenset, 'dict': dict}
        fd = symexec.new_fd(sym, ctx.repo.module(RUNTIME), calls={
            'isinstance': lambda o, t: isinstance(o, t) if not isinstance(o, Obj) else False,
            'is_dataclass': lambda v: False, 'abs': abs, 'len': len, 'type': type,
            'strip_punctuation': lambda s_: s_.translate(table)}, extra=extra)
        try:
            got = fd.call_function(cond_fn, args, kwargs, bound_self=me)
        except Raised as e:
            return 'raises %s inside the condition (swallowed by the wrapper: a silent pass)' % e.kind
        except Inconclusive as e:
            raise AnalysisError("C07 R12: condition outside the decidable fragment: %s" % e)
        t = truth(got)
        return 'fires' if t else 'silent'
    r12_documented_delta(ctx, sym, run_condition)
    outcomes = r_tables(ctx, sym, h)
    r2_pairs(ctx, sym, h, outcomes)
    r_equality_family(ctx, sym, h)
    r6_equality_symmetry(ctx, sym)
    r7_unit_test(ctx, sym)
    r8_constructible(ctx, sym, h)
    # the proxy model PV used by R5 assumes the real proxy's rich comparisons forward their own operator to the
    # unwrapped pair; discharge that here for the six comparisons the ordering/equality assertions go through
    from .c16 import r4c_comparisons, RESULT, COMPARISONS
    rmod = ctx.repo.module(RESULT)
    rcls = rmod.cls('SandboxResult')
    have = {n.name for n in rcls.body if isinstance(n, ast.FunctionDef)}
    for op in COMPARISONS:
        ctx.check('__%s__' % op in have, 'R9', 'SandboxResult.__%s__:defined' % op, rmod, rcls,
                  "the proxy does not define __%s__" % op, "ordering assertion on a proxied operand")
    r4c_comparisons(ctx, rcls, rmod, have, rid='R9')
    ctx.assume("the proxy model PV mirrors a transparent SandboxResult (guaranteed by C16); value-level behaviour of "
               "equality_test beyond the tabulated pairs (tolerance arithmetic, normalisation strings), assert_type's "
               "subtype relation (C19 covers its inputs) are not decided; the output-assertion family is decided for the operand it reads and the relation it applies (R10), with equality_test's normalisation taken as given")
