"""C14 - a time-limit violation yields exactly one timeout report and a usable sandbox.

A static race / ownership analysis over two thread roles; no schedule is executed."""
import ast

from ..astutil import dotted, calls, call_name, body_walk, walk_local, is_self_attr, method_calls, kw
from ..loader import AnalysisError, norm, enclosing_function, ancestors
from ..symbols import Symbols, ClassInfo
from .c05 import is_self_call

SANDBOX = 'pedal.sandbox.sandbox'
TIMEOUT = 'pedal.sandbox.timeout'
MUT = ('append', 'extend', 'insert', 'pop', 'remove', 'clear', 'update', 'add', 'discard', 'setdefault', 'sort')


def self_writes(stmts):
    """Attributes of self written by a list of statements (direct: assign / augassign / mutating call / subscript)."""
    out = {}
    for st in stmts:
        for n in walk_local(st):
            if isinstance(n, (ast.Assign, ast.AugAssign, ast.AnnAssign, ast.Delete)):
                for t in (n.targets if isinstance(n, (ast.Assign, ast.Delete)) else [n.target]):
                    for tt in (t.elts if isinstance(t, (ast.Tuple, ast.List)) else [t]):
                        if is_self_attr(tt):
                            out.setdefault(tt.attr, n)
                        elif isinstance(tt, ast.Subscript) and is_self_attr(tt.value):
                            out.setdefault(tt.value.attr, n)
                        elif isinstance(tt, ast.Attribute) and isinstance(tt.value, ast.Attribute) and \
                                is_self_attr(tt.value):
                            out.setdefault(tt.value.attr + '.' + tt.attr, n)
            elif isinstance(n, ast.Call) and isinstance(n.func, ast.Attribute) and n.func.attr in MUT:
                if is_self_attr(n.func.value):
                    out.setdefault(n.func.value.attr, n)
    return out


def role_effects(sym, mod, cls, stmts):
    """Transitive write set of a role: direct writes of the statements plus those of self-methods they call."""
    ci = sym.find_class(mod.name, cls)
    writes = dict(self_writes(stmts))
    captures = []
    seen = set()
    work = []
    for st in stmts:
        for c in calls(st):
            if isinstance(c.func, ast.Attribute) and isinstance(c.func.value, ast.Name) and c.func.value.id == 'self':
                work.append((c.func.attr, c))
    while work:
        name, site = work.pop()
        if name == '_capture_exception':
            captures.append(site)
        if name in seen:
            continue
        seen.add(name)
        m = sym.method(ci, name)
        if m is None:
            continue
        for k, v in self_writes(m[1].body).items():
            writes.setdefault(k, v)
        # parameters mutated (context.output = ...)
        for n in walk_local(m[1]):
            if isinstance(n, ast.Assign):
                for t in n.targets:
                    if isinstance(t, ast.Attribute) and isinstance(t.value, ast.Name) and t.value.id == 'context':
                        writes.setdefault('<context>.' + t.attr, n)
        for c in calls(m[1]):
            if isinstance(c.func, ast.Attribute) and isinstance(c.func.value, ast.Name) and c.func.value.id == 'self':
                work.append((c.func.attr, c))
            if isinstance(c.func, ast.Name) and c.func.id == 'runtime_error_function':
                writes.setdefault('report.feedback', c)
    return writes, captures, seen


FENCE_NAMES = ('_abandoned', '_timed_out', '_generation', '_cancelled')


def fenced(stmts):
    """Recognised idiom: the role's first statement tests an abandonment flag / generation token and leaves."""
    if not stmts:
        return False
    first = stmts[0]
    if isinstance(first, ast.If) and any(name in norm(first.test) for name in FENCE_NAMES):
        return bool(first.body) and isinstance(first.body[-1], (ast.Return, ast.Raise))
    return False


def locked(node):
    return any(isinstance(a, ast.With) and any('lock' in norm(i.context_expr).lower() for i in a.items)
               for a in ancestors(node))


def r9_timeout_feedback_class(ctx, sym):
    ctx.rule('R9', "the one feedback is the timeout's: pedal's EXCEPTION_FF_MAP, evaluated abstractly (whatever kind of "
                   "table it is) and queried the way Sandbox._capture_exception and runtime_error.__init__ query it - "
                   ".get(type(exception), runtime_error), `type(exception) in`, `[type(exception)].title` - answers for "
                   "TimeoutError with the class registered for TimeoutError (CPython: TimeoutError derives OSError, "
                   "which is IOError, which has a row of its own)")
    from .. import symexec
    fmod = ctx.repo.module('pedal.sandbox.feedbacks')

    def evaluate(expr):
        fn_ = ast.parse("def _expression():\n    return %s" % expr).body[0]
        fn_._module, fn_._qualname = fmod, '_expression'
        for n in ast.walk(fn_):
            for c in ast.iter_child_nodes(n):
                c._parent = n
        fd = symexec.new_fd(sym, fmod)
        return symexec.run(fd, fn_, [], what='EXCEPTION_FF_MAP query')

    def class_name(v):
        return getattr(getattr(v, '_fd_class', None), 'name', None)
    want, raised = evaluate("dict(EXCEPTION_FF_MAP.items())[TimeoutError]")
    ctx.require(raised is None and class_name(want) is not None, "EXCEPTION_FF_MAP has a row for TimeoutError")
    for query in ("EXCEPTION_FF_MAP.get(TimeoutError, runtime_error)", "EXCEPTION_FF_MAP[TimeoutError]",
                  "TimeoutError in EXCEPTION_FF_MAP"):
        got, raised = evaluate(query)
        ok = raised is None and (got is True if query.endswith('in EXCEPTION_FF_MAP') else
                                 class_name(got) == class_name(want))
        ctx.check(ok, 'R9', 'timeout-feedback-class[%s]' % query, fmod, fmod.top_assign('EXCEPTION_FF_MAP'),
                  "%s is %s; the row registered for TimeoutError is %s" % (
                      query, 'raises %s' % raised.kind if raised is not None else (class_name(got) or got),
                      class_name(want)),
                  "any time-limit violation in threaded mode is reported as 'Input/Output Error' with the advice "
                  "'you tried to open a file that was not available'", construct='EXCEPTION_FF_MAP')


def timeout_returns_result(ctx, sym, rule):
    """timeout() executed abstractly against a model thread that finishes in time: what the function returned is what
    timeout() returns (Sandbox._import hands a student module back through it)."""
    from .. import symexec
    from ..fdeval import Obj
    tmod = ctx.repo.module('pedal.sandbox.timeout')
    to = tmod.func('timeout')
    ctx.analysed_function(tmod, to)
    produced = symexec.marker('what-the-function-returned')
    for libs in (True, False):
        thread = Obj('student-thread', exc_info=(None, None, None), daemon=True, result=produced, __open__=True)
        thread.attrs['__classdef__'] = tmod.cls('InterruptableThread')
        for name, ret in (('start', None), ('join', None), ('is_alive', False), ('isAlive', False)):
            symexec.method(thread, name, (lambda r: (lambda *a, **k: r))(ret))
        fd = symexec.new_fd(sym, tmod, calls={'InterruptableThread': lambda *a, **k: thread,
                                              'sys.exc_info': lambda: (None, None, None)},
                            extra={'threading': 'threading-module' if libs else None,
                                   'ctypes': 'ctypes-module' if libs else None})
        fn_stub = lambda *a, **k: produced
        fn_stub._fd_callable = True
        got, raised = symexec.run(fd, to, [0.5, fn_stub], what='timeout()')
        ctx.check(raised is None and got is produced, rule,
                  'timeout():returns-result[%s]' % ('threads' if libs else 'no-threading-module'), tmod, to,
                  "for a function that finishes in time timeout() returns %r%s, not what the function returned" % (
                      got, '' if raised is None else ' (raises %s)' % raised.kind),
                  "sandbox.threaded = True; a main file `import helper; print(helper.f())` with helper.py in the "
                  "submission: Sandbox._import returns timeout(...), i.e. None, and the program that runs under plain "
                  "Python ends with AttributeError: 'NoneType' object has no attribute 'f'")


def run(ctx):
    sym = Symbols(ctx.repo)
    mod = ctx.repo.module(SANDBOX)
    tmod = ctx.repo.module(TIMEOUT)
    ex = mod.func('Sandbox._execute')
    ewt = mod.func('Sandbox._execute_with_timeout')
    ctx.analysed_function(mod, ex)
    ctx.analysed_function(mod, ewt)
    r9_timeout_feedback_class(ctx, sym)

    ctx.rule('R1', "roles derived from the code: student role = what Sandbox._execute does after the asynchronously "
                   "injected SystemExit (its SystemExit/BaseException handlers, the else arm, the tail) and everything "
                   "they call; grader role = the TimeoutError arm of _execute_with_timeout and everything it calls")
    tos = [c for c in calls(ewt) if call_name(c) == 'timeout']
    ok = len(tos) == 1 and len(tos[0].args) >= 2 and norm(tos[0].args[1]) == 'self._execute' and \
        norm(tos[0].args[0]) == 'self.allowed_time'
    ctx.check(ok, 'R1', 'roles:thread-entry', mod, tos[0] if tos else ewt,
              "threaded execution no longer runs self._execute under timeout(self.allowed_time, ...)",
              "the two roles cannot be derived; time limits are not enforced")
    tries = [t for t in ast.walk(ex) if isinstance(t, ast.Try) and any(
        call_name(c) == 'exec' for c in calls(ast.Module(body=t.body, type_ignores=[])))]
    ctx.require(len(tries) == 1, "Sandbox._execute no longer has one try around exec")
    t = tries[0]
    student_stmts = []
    student_handlers = []
    for h in t.handlers:
        names = [dotted(x) for x in (h.type.elts if isinstance(h.type, ast.Tuple) else [h.type])] if h.type else ['*']
        if any(n in ('SystemExit', 'BaseException', '*') for n in names):
            student_handlers.append(h)
            student_stmts += h.body
    tail = ex.body[ex.body.index(t) + 1:] if t in ex.body else []
    student_stmts += t.orelse + tail
    ctx.require(student_handlers, "no handler of _execute receives the injected SystemExit")
    gtries = [x for x in ast.walk(ewt) if isinstance(x, ast.Try)]
    grader_handlers = [h for x in gtries for h in x.handlers if h.type is not None and 'TimeoutError' in norm(h.type)]
    ctx.check(len(grader_handlers) == 1, 'R1', 'roles:grader-arm', mod, ewt,
              "_execute_with_timeout has no single `except TimeoutError` arm",
              "a time-limit violation propagates into the instructor script")
    grader_stmts = grader_handlers[0].body if grader_handlers else []

    s_writes, s_caps, s_reach = role_effects(sym, mod, 'Sandbox', student_stmts)
    g_writes, g_caps, g_reach = role_effects(sym, mod, 'Sandbox', grader_stmts)
    ctx.info("student role writes: %s" % sorted(s_writes))
    ctx.info("grader role writes: %s" % sorted(g_writes))

    ctx.rule('R2', "write/write conflicts: every sandbox attribute (and report.feedback) written by the student role "
                   "after abandonment is also written by the grader role or by the next execution; each such access "
                   "must be inside a common lock, after an un-timed join(), or behind an abandonment fence tested "
                   "first by the student role (recognised idioms listed in the checker)")
    is_fenced = all(fenced(h.body) for h in student_handlers) and (not (t.orelse + tail) or fenced(t.orelse + tail)
                                                                  or all(fenced(h.body) for h in student_handlers))
    # every later execution writes these as well, so any student-role write is a conflict unless synchronised
    later = self_writes(ex.body)
    later_w, _, _ = role_effects(sym, mod, 'Sandbox', ex.body)
    shared = sorted(set(s_writes) & (set(g_writes) | set(later_w)))
    ctx.floor('R2', 'attributes written by the student role', len(s_writes), 3)
    # the two stacks keep their identity (and the identity of a recorded finding) under a rename of the attribute
    from .c05 import stack_roles
    roles_ = stack_roles(ctx, sym, mod)
    canonical = {roles_['patches']: '_current_patches', roles_['stdout']: '_current_stdout'}
    for attr in shared:
        node = s_writes[attr]
        ok = is_fenced or locked(node)
        ctx.check(ok, 'R2', 'race:Sandbox.%s' % canonical.get(attr, attr), mod, node,
                  "sandbox state `%s` is written by the abandoned student thread (via its SystemExit handler) and by "
                  "the grader thread / the next execution with no lock, join or abandonment fence between them" % attr,
                  "a busy loop that is terminated late: the student thread's handler runs after run() has returned "
                  "and overwrites sandbox.%s of a later execution (or pops its stdout/patch frame)" % attr,
                  function='Sandbox._execute')

    ctx.rule('R3', "exactly one _capture_exception can execute for one timed-out execution, summed over both roles")
    total = len(g_caps) + (0 if is_fenced else len([c for c in s_caps if any(
        isinstance(a, ast.ExceptHandler) and a in student_handlers for a in ancestors(c))]))
    ctx.check(total == 1, 'R3', 'capture-sites-per-timeout', mod, grader_handlers[0] if grader_handlers else ewt,
              "%d _capture_exception call sites can run for one time-limit violation (the grader's TimeoutError arm "
              "and the student thread's own SystemExit arm)" % total,
              "a program that loops forever: the report gains a timeout feedback and, when the student thread wakes "
              "up, a second runtime feedback (SystemExit) for the same execution",
              construct='except TimeoutError: ... _capture_exception / except SystemExit: ... _capture_exception')
    ctx.check(len(g_caps) == 1 and norm(g_caps[0].args[0]) == (grader_handlers[0].name or ''), 'R3',
              'grader-records-timeout', mod, g_caps[0] if g_caps else ewt,
              "the grader arm does not record the TimeoutError itself", "sandbox.exception is not a timeout error")

    ctx.rule('R4', "bounded return: timeout(), executed abstractly against model threads (finishes in time / dies when "
                   "terminated / never dies), waits the allowed duration with a timed join, then terminates the "
                   "thread and raises TimeoutError after a bounded number of operations on it; terminate() and its "
                   "helpers contain no wait for the thread's death; the thread is a daemon")
    to = tmod.func('timeout')
    ctx.analysed_function(tmod, to)
    # timeout() executed abstractly against three model threads: one that finishes in time, one that dies at the
    # first terminate(), and one that never dies (swallows the injected exception / is blocked in C)
    from .. import symexec
    from ..fdeval import Obj, Raised

    class _Budget(Exception):
        pass
    # (the grader may itself be inside an `except` block when it makes the call: sys.exc_info() is then not empty in
    # the grader thread, which is where terminate() runs)
    for behaviour in ('finishes-in-time', 'dies-when-terminated', 'never-dies', 'never-dies:grader-handling-an-exception'):
        rec = symexec.Recorder()
        grader_busy = behaviour.endswith('grader-handling-an-exception')
        behaviour = behaviour.split(':')[0]
        state = {'alive': behaviour != 'finishes-in-time', 'calls': 0}
        thread = Obj('student-thread', exc_info=(None, None, None), daemon=True, __open__=True)
        thread.attrs['__classdef__'] = tmod.cls('InterruptableThread')

        def _grader_exc_class(*a):
            return Obj('grader-exception', exc_kind='KeyError')
        _grader_exc_class._fd_callable = True
        grader_exc_info = (_grader_exc_class, Obj('grader-exception', exc_kind='KeyError'), Obj('traceback')) \
            if grader_busy else (None, None, None)

        def _count(name, ret=None, state=state, rec=rec):
            def f(*a, **k):
                state['calls'] += 1
                rec.events.append((name, a, k))
                if state['calls'] > 60:
                    raise _Budget()
                return ret() if callable(ret) else ret
            return f

        def _terminate(*a, **k):
            state['calls'] += 1
            rec.events.append(('terminate', a, k))
            if state['calls'] > 60:
                raise _Budget()
            if behaviour == 'dies-when-terminated':
                state['alive'] = False
        symexec.method(thread, 'start', _count('start'))
        symexec.method(thread, 'join', _count('join'))
        symexec.method(thread, 'is_alive', _count('is_alive', ret=lambda: state['alive']))
        symexec.method(thread, 'isAlive', _count('is_alive', ret=lambda: state['alive']))
        # terminate() itself is pedal's (interpreted through the class); what it uses to interrupt is modelled
        symexec.method(thread, 'raise_exception', _terminate)
        symexec.method(thread, '_async_raise', _terminate)
        fd = symexec.new_fd(sym, tmod, calls={
            'InterruptableThread': rec.stub('InterruptableThread', ret=thread),
            'sys.exc_info': lambda: grader_exc_info,
            'TimeoutError': lambda *a, **k: Obj('TimeoutError', exc_kind='TimeoutError', args=a),
            'time.sleep': _count('sleep'), 'sleep': _count('sleep')},
            extra={'threading': 'threading-module', 'ctypes': 'ctypes-module'})
        hung = False
        try:
            _, raised = symexec.run(fd, to, [0.5, symexec.marker('Sandbox._execute')], bound_self=None,
                                    what='timeout()')
        except _Budget:
            hung, raised = True, None
        joins_ = rec.named('join')
        timed = all(len(j[1]) + len(j[2]) >= 1 and all(isinstance(x, (int, float)) and not isinstance(x, bool)
                                                     for x in list(j[1]) + list(j[2].values())) for j in joins_)
        waited = any(0.5 in list(j[1]) + list(j[2].values()) for j in joins_)
        if behaviour == 'finishes-in-time':
            ok = not hung and raised is None and timed and waited and not rec.named('terminate')
            want = "return normally without terminating it"
        else:
            ok = not hung and raised is not None and raised.kind == 'TimeoutError' and timed and waited and \
                len(rec.named('terminate')) >= 1
            want = "wait the allowed duration once (timed join), terminate the thread and raise TimeoutError"
        outcome = 'keeps waiting (more than 60 calls on the thread: %s ...)' % [e[0] for e in rec.events[:8]] if hung \
            else ('raises %s' % raised.kind if raised is not None else 'returns') + \
            ' after %s' % [e[0] for e in rec.events]
        if grader_busy:
            behaviour += ':grader-handling-an-exception'
        ctx.check(ok, 'R4', 'timeout()[%s]' % behaviour, tmod, to,
                  "with a student thread that %s, timeout() %s; it must %s" % (behaviour.replace('-', ' '), outcome, want),
                  "student code `while True:\n    try: pass\n    except BaseException: pass` (or a thread blocked in "
                  "Lock.acquire()): run(threaded=True) never returns, no TimeoutError is recorded")
    # nothing the grader runs after the limit may wait for the student thread to die: terminate()/raise_exception()
    # (and any helper of the thread class they call) contain no wait of unbounded total length
    tcls = tmod.cls('InterruptableThread')
    from ..astutil import flat_self_calls
    after_limit = [tmod.func('InterruptableThread.terminate'), tmod.func('InterruptableThread.raise_exception')]
    seen_m = {f.name for f in after_limit}
    for c in [c for f in list(after_limit) for c in flat_self_calls(f.body, tcls)]:
        if isinstance(c.func, ast.Attribute) and isinstance(c.func.value, ast.Name) and c.func.value.id == 'self':
            for m_ in tcls.body:
                if isinstance(m_, ast.FunctionDef) and m_.name == c.func.attr and m_.name not in seen_m:
                    seen_m.add(m_.name)
                    after_limit.append(m_)
    for f in after_limit:
        ctx.analysed_function(tmod, f)
        for n in walk_local(f):
            unbounded = isinstance(n, ast.While) and (
                any('is_alive' in norm(x) for x in ast.walk(n.test)) or
                any(isinstance(c.func, ast.Attribute) and c.func.attr in ('join', 'wait', 'sleep', 'is_alive')
                    for c in calls(n)))
            untimed = isinstance(n, ast.Call) and isinstance(n.func, ast.Attribute) and n.func.attr == 'join' and \
                not n.args and not n.keywords
            ctx.check(not (unbounded or untimed), 'R4', 'thread:%s:no-waiting-for-death' % f.name, tmod, n if (
                unbounded or untimed) else f,
                      "%s waits for the student thread to die (%s); a thread that swallows the injected exception or "
                      "is blocked in C never dies, so timeout() never raises TimeoutError" % (
                          f.name, 'a loop around join/is_alive' if unbounded else 'an un-timed join()'),
                      "student code `while True: try: ... except BaseException: pass`, or a thread blocked in "
                      "Lock.acquire(): run(threaded=True) hangs forever") if (unbounded or untimed) else None
        ctx.ok('R4', 'thread:%s:scanned' % f.name, nontrivial=False)
    init = tmod.func('InterruptableThread.__init__')
    # the constructor executed abstractly against a model of threading.Thread.__init__ (which stores its daemon=
    # argument): afterwards the thread's daemon flag is True
    def _thread_is_daemon():
        from .. import symexec as _sx
        from ..fdeval import Obj as _Obj
        me = _sx.self_obj(tmod, 'InterruptableThread')

        def thread_init(*a, **k):
            if k.get('daemon') is not None:
                me.attrs['daemon'] = k['daemon']
            me.attrs.setdefault('daemon', False)
        sup = _Obj('super')
        _sx.method(sup, '__init__', thread_init)
        fd = _sx.new_fd(sym, tmod, calls={'super': lambda *a: sup,
                                          'threading.Thread.__init__': lambda self_, *a, **k: thread_init(*a, **k),
                                          'Thread.__init__': lambda self_, *a, **k: thread_init(*a, **k)})
        _, raised = _sx.run(fd, init, [_sx.marker('func'), (), {}], bound_self=me,
                            what='InterruptableThread.__init__')
        return raised is None and me.attrs.get('daemon') is True
    ctx.check(_thread_is_daemon(),
              'R4', 'thread:daemon', tmod, init, "the student thread is not a daemon thread",
              "a student thread that cannot be interrupted keeps the grader process alive forever")
    term = tmod.func('InterruptableThread.terminate')
    ctx.check(any(isinstance(c.func, ast.Attribute) and c.func.attr == 'raise_exception' and
                  norm(c.args[0]) == 'SystemExit' for c in calls(term)), 'R4', 'thread:injects-SystemExit', tmod, term,
              "terminate() does not inject SystemExit into the student thread",
              "the role analysis (SystemExit handler) no longer describes what runs in the abandoned thread")

    ctx.rule('R5', "clean patch state afterwards: the grader's timeout arm releases through _stop_mocking (C05.R3 "
                   "applied to the grader role)")
    from .c05 import cross_thread_release
    cross_thread_release(ctx, sym, mod, 'R5')
    from ..astutil import flat_self_calls
    gseq = flat_self_calls(list(grader_stmts), mod.cls('Sandbox'),
                           stop=('_stop_mocking', '_stop_patches', '_capture_exception'))
    direct = [c for c in gseq if is_self_call(c, '_stop_patches')]
    via = [c for c in gseq if is_self_call(c, '_stop_mocking')]
    ctx.check(bool(via) or bool(direct), 'R5', 'grader-arm:releases-at-all', mod,
              grader_handlers[0] if grader_handlers else ewt,
              "the timeout arm releases nothing: after a time-limit violation sys.stdout, sys.modules and time.sleep "
              "stay patched until (and unless) the abandoned student thread unwinds by itself",
              "a student thread that never reaches its handler (blocked on a lock, or `except BaseException: pass` in a "
              "loop): run(threaded=True) returns with sys.stdout still the capture buffer")
    ctx.check(bool(via) and not direct, 'R5', 'grader-arm:releases-through-_stop_mocking', mod,
              direct[0] if direct else (grader_handlers[0] if grader_handlers else ewt),
              "the timeout arm calls _stop_patches() directly: the stdout frame pushed for the timed-out execution "
              "stays on _current_stdout",
              "l = threading.Lock(); l.acquire(); l.acquire() under a 0.3 s limit: after run(threaded=True) returns, "
              "len(sandbox._current_stdout) == 1")
    # R6: usable afterwards - a timed-out execution whose thread never unwinds leaves its buffer on the stack (known
    # finding above); the next execution must still record its own output, not the abandoned one's
    from .c15 import r2_per_execution
    r2_per_execution(ctx, mod, sym, rule='R6')
    # R7: the one timeout report can be built - with full_traceback the frames shown for a timeout include pedal's own
    # multi-line timeout(...) call; rendering them must not raise (shared with C04.R4)
    ctx.rule('R7', "ExpandedTraceback.format_line executed abstractly for the frames a timeout shows (pedal's own "
                   "multi-line call under full_traceback included): building the timeout feedback never raises")
    from .c04 import format_line_rule
    format_line_rule(ctx, sym, 'R7')
    # R8: an abandoned student thread may still be running after the grader stopped the patches: whatever sandbox code
    # it executes then must not write process-wide state directly (shared with C05.R4)
    ctx.rule('R8', "who-writes sweep over pedal/sandbox: sys.modules[...], sys.stdout, time.sleep, builtins.* are "
                   "written through tracked patches only, so code running in an abandoned thread after the patches "
                   "were stopped cannot alter what later executions see")
    from .c05 import global_write_sweep
    global_write_sweep(ctx, 'R8')
    ctx.assume("actual wall-clock bounds and the behaviour of PyThreadState_SetAsyncExc for code that blocks in C or "
               "swallows exceptions are not decided; recognised synchronisation idioms: a with-lock around both "
               "accesses, an abandonment flag/generation token tested first in the student role")
