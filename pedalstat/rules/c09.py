"""C09 - TIFA's initialization/unused-variable diagnoses match the execution paths.

The flow core of TIFA (store_variable, load_variable, merge_paths, combine_states, match_rso, search_parents,
find_path_parent, find_variable_scope, NewPath, _finish_scope) and its branch/loop visitors (visit_If, visit_While,
visit_For) are executed *abstractly* (whitelist interpreter over their ASTs) on every small program of a flow
mini-language, and the issues are compared with an oracle that enumerates the program's execution paths."""
import ast
import itertools

from ..astutil import dotted, calls, call_name, body_walk, walk_local, is_self_attr
from ..fdeval import FD, Obj, Raised, Inconclusive, UNKNOWN, NO_RETURN
from ..loader import AnalysisError, norm
from ..symbols import Symbols

CORE = 'pedal.tifa.tifa_core'
VISITOR = 'pedal.tifa.tifa_visitor'
CONTEXTS = 'pedal.tifa.contexts'
STATE = 'pedal.tifa.state'
IDENT = 'pedal.tifa.identifier'

INIT_ISSUES = ('initialization_problem', 'read_out_of_scope')
POSSIBLE = 'possible_initialization_problem'


# -- mini-language -------------------------------------------------------------------------------------
# ('a', var) assignment | ('r', var) read | ('if', body, orelse) | ('while', body) | ('for', body)

def programs(max_atoms, variables=('x',), loops=False, depth=2, empty_bodies=False, call=False):
    """All statement lists with at most max_atoms assign/read atoms."""
    def stmts(budget, d):
        # yields (list_of_statements, atoms_used)
        yield [], 0
        if budget <= 0:
            return
        for first, used in one(budget, d):
            for rest, used2 in stmts(budget - used, d):
                yield [first] + rest, used + used2

    def one(budget, d):
        for v in variables:
            yield ('a', v), 1
            yield ('r', v), 1
        if call:
            yield ('call', 'f'), 1
        if d > 0 and budget >= 1:
            for body, u1 in stmts(budget, d - 1):
                for orelse, u2 in stmts(budget - u1, d - 1):
                    if not body and (not orelse or not empty_bodies):
                        continue
                    yield ('if', tuple(body), tuple(orelse)), u1 + u2
                if not body:
                    continue
                if loops:
                    yield ('while', tuple(body)), u1
                    yield ('for', tuple(body)), u1
    seen = set()
    for prog, used in stmts(max_atoms, depth):
        key = repr(prog)
        if prog and key not in seen:
            seen.add(key)
            yield prog


A, R = ('a', 'x'), ('r', 'x')
# hand-picked deeper shapes for the quick tier (the thorough tier enumerates them all)
CURATED = [
    [A, ('if', (('if', (), (A,)),), ()), R],
    [('if', (('if', (), (A,)),), ()), R],
    [('if', (), (('if', (A,), ()),)), R],
    [A, ('if', (('if', (A,), (A,)),), (R,)), R],
    [('if', (('if', (A,), (A,)),), (A,)), R],
    [('if', (('if', (A,), ()),), (A,)), R],
    [A, R, ('if', (A,), ()), R, A],
    [('if', (A, R), (A,)), ('if', (R,), ())],
    # a name already known to an enclosing path (read while unassigned), then touched on one side only
    [R, ('if', (), (A,)), R],
    [R, ('if', (A,), ()), R],
    [R, ('if', (), (('if', (), (A,)),)), R],
    [R, ('if', (R,), (A,)), R],
    [R, ('if', (A,), (R,)), R],
    [('if', (R,), ()), ('if', (), (A,)), R],
    [('if', (), (R,)), ('if', (A,), ()), R],
    [R, ('if', (), (A,)), R, ('if', (A,), ()), R],
    # the same name read unassigned on several lines: every such read is reported
    [('if', (R,), ()), R],
    [R, R],
    [('if', (R,), (R,)), R],
    [R, ('if', (A,), ()), R, R],
]


# while loops whose test reads the variable the body assigns
CURATED_LOOPS = [
    [('whiler', 'x', (A,))],
    [('whiler', 'x', (A, R))],
    [('if', (A,), ()), ('whiler', 'x', (A,))],
    [A, ('whiler', 'x', (A,))],
    [('whiler', 'x', (R,))],
    [('whiler', 'x', (A,)), R],
]


def number_reads(prog):
    """Assign a unique site id to every atom; returns new program with ('r', var, id) / ('a', var, id)."""
    counter = itertools.count(1)

    def go(stmts):
        out = []
        for s in stmts:
            if s[0] in ('a', 'r', 'call'):
                out.append((s[0], s[1], next(counter)))
            elif s[0] == 'def':
                out.append(('def', s[1], go(s[2]), next(counter)))
            elif s[0] == 'if':
                out.append(('if', go(s[1]), go(s[2]), next(counter)))
            elif s[0] == 'whiler':
                # a while loop whose test reads a variable: ('whiler', var, body, site of the loop, site of the read)
                out.append(('whiler', s[1], go(s[2]), next(counter), next(counter)))
            else:
                out.append((s[0], go(s[1]), next(counter)))
        return out
    return go(prog)


def has_call(prog):
    return "'call'" in repr(prog)


def has_loop(prog):
    return any(s[0] in ('while', 'for', 'whiler') or (s[0] == 'if' and (has_loop(s[1]) or has_loop(s[2]))) or
               (s[0] in ('while', 'for') and has_loop(s[1])) for s in prog)


def render(prog, indent=0):
    out = []
    pad = '    ' * indent
    for s in prog:
        if s[0] == 'a':
            out.append('%s%s = 0' % (pad, s[1]))
        elif s[0] == 'r':
            out.append('%sprint(%s)' % (pad, s[1]))
        elif s[0] == 'call':
            out.append('%s%s()' % (pad, s[1]))
        elif s[0] == 'def':
            out.append('%sdef %s():' % (pad, s[1]))
            out += render(s[2], indent + 1)
        elif s[0] == 'if':
            out.append(pad + 'if c:')
            out += render(s[1], indent + 1) or [pad + '    pass']
            if s[2]:
                out.append(pad + 'else:')
                out += render(s[2], indent + 1)
        elif s[0] == 'while':
            out.append(pad + 'while c:')
            out += render(s[1], indent + 1)
        elif s[0] == 'whiler':
            out.append(pad + 'while %s:' % s[1])
            out += render(s[2], indent + 1)
        elif s[0] == 'for':
            out.append(pad + 'for i in data:')
            out += render(s[1], indent + 1)
    return out


# -- oracle: enumerate execution paths ------------------------------------------------------------------
def executions(prog):
    """All event traces [(kind, var, site)] of a numbered program (loops run 0, 1 or 2 times)."""
    functions = {}

    def go(stmts):
        traces = [[]]
        for s in stmts:
            if s[0] in ('a', 'r'):
                traces = [t + [s] for t in traces]
            elif s[0] == 'def':
                functions[s[1]] = s[2]      # top-level, before any call (by construction of the sweep)
            elif s[0] == 'call':
                alts = go(functions[s[1]])
                traces = [t + a for t in traces for a in alts]
            elif s[0] == 'if':
                alts = go(s[1]) + go(s[2])
                traces = [t + a for t in traces for a in alts]
            elif s[0] == 'whiler':
                test = [('r', s[1], s[4])]
                body = go(s[2])
                alts = [test] + [test + a + test for a in body] + [test + a + test + b + test for a in body for b in body]
                traces = [t + a for t in traces for a in alts]
            else:
                body = go(s[1])
                alts = [[]] + body + [a + b for a in body for b in body]
                traces = [t + a for t in traces for a in alts]
        return traces
    return go(prog)


def oracle(prog):
    """site -> 'never' | 'sometimes' | 'always' assigned before the read; plus unused verdict per variable."""
    traces = executions(prog)
    per_site = {}
    for t in traces:
        assigned = set()
        for kind, var, site in t:
            if kind == 'a':
                assigned.add(var)
            else:
                per_site.setdefault(site, []).append(var in assigned)
    verdict = {}
    for site, obs in per_site.items():
        verdict[site] = 'always' if all(obs) else ('never' if not any(obs) else 'sometimes')
    # unused: per variable, over traces that assign it: is it read after its last assignment?
    unused = {}
    variables = {s[1] for t in traces for s in t}
    for v in variables:
        flags = []
        for t in traces:
            idx = [i for i, e in enumerate(t) if e[0] == 'a' and e[1] == v]
            if not idx:
                continue
            flags.append(any(e[0] == 'r' and e[1] == v for e in t[idx[-1] + 1:]))
        if flags:
            unused[v] = 'never-read' if not any(flags) else ('always-read' if all(flags) else 'mixed')
    return verdict, unused


# -- abstract TIFA -------------------------------------------------------------------------------------
class AbstractTifa:
    def __init__(self, ctx, sym):
        self.ctx = ctx
        self.sym = sym
        repo = ctx.repo
        self.core = repo.module(CORE)
        self.vis = repo.module(VISITOR)
        core_ci = sym.find_class(CORE, 'TifaCore')
        vis_ci = sym.find_class(VISITOR, 'Tifa')
        self.core_methods = dict(core_ci.methods)
        self.vis_methods = {k: vis_ci.methods[k] for k in ('visit_If', 'visit_While', 'visit_For', 'visit_statements',
                                                           'visit_FunctionDef', 'make_function', 'visit_Call',
                                                           'apply_decorators')
                            if k in vis_ci.methods}
        self.path_methods = dict(sym.find_class(CONTEXTS, 'NewPath').methods)
        self.scope_methods = dict(sym.find_class(CONTEXTS, 'NewScope').methods)
        self.state_methods = dict(sym.find_class(STATE, 'State').methods)
        self.ident_methods = dict(sym.find_class(IDENT, 'Identifier').methods)
        for name in ('store_variable', 'load_variable', 'merge_paths', 'combine_states', 'match_rso', 'search_parents',
                     'find_path_parent', 'find_variable_scope', '_finish_scope', 'reset'):
            if name not in self.core_methods:
                # (an alias such as `match_rso = staticmethod(match_rso)` for a helper that moved to module level)
                self.core_methods[name] = self.core.func('TifaCore.' + name)
            ctx.analysed_function(self.core, self.core_methods[name])
        for name, fn in self.vis_methods.items():
            ctx.analysed_function(self.vis, fn)

    def run(self, prog):
        """Returns (issues: list of (label, name, site), raised or None)."""
        issues = []
        fd = FD(max_steps=400000)
        me = Obj('tifa', report=Obj('report'), analysis=Obj('analysis', issues={}), line_offset=0)
        me.attrs['__closed__'] = True
        # helpers a refactoring extracts into Tifa / TifaCore are found through the class (fdeval.class_method)
        me.attrs['__classdef__'] = self.vis.cls('Tifa')
        cur = {'site': 0}

        def issue_ctor(label):
            def f(position, name=None, *a, **k):
                return ('issue', label, name, position)
            return f
        for label in ('initialization_problem', 'read_out_of_scope', 'possible_initialization_problem',
                      'unused_variable', 'overwritten_variable', 'type_changes', 'write_out_of_scope',
                      'unnecessary_second_branch', 'else_on_loop_body'):
            fd.calls[label] = issue_ctor(label)
        me.attrs['method:_issue'] = lambda f, *a: issues.append((f[1], f[2], f[3]))
        me.attrs['method:locate'] = lambda *a: cur['site']
        # (type tags: 'T' everywhere in the flow tables; the typing rules use NARROW, a subtype of WIDE)
        fd.calls['is_subtype'] = lambda a, b: a == b or (a, b) == ('NARROW', 'WIDE') or 'T' in (a, b)
        self.types_read = []
        fd.calls['AnyType'] = lambda: 'AnyType'
        TYPE_NAMES = ('BuiltinConstructorType', 'FunctionType', 'ClassType', 'IntType', 'FloatType', 'NumType',
                      'ListType', 'DictType', 'SetType', 'TupleType', 'InstanceType', 'StrType', 'BoolType', 'NoneType',
                      'LiteralValue')

        def _isinstance(o, t):
            ts = t if isinstance(t, tuple) else (t,)
            return isinstance(o, Obj) and any(isinstance(x, str) and o._name == x for x in ts)
        fd.calls['isinstance'] = _isinstance

        ft_cls = self.ctx.repo.module('pedal.types.new_types').cls('FunctionType')
        ft_init = [m for m in ft_cls.body if isinstance(m, ast.FunctionDef) and m.name == '__init__']

        def _function_type(name='*Anonymous', definition=None, returns=None, the_self=None):
            # the real constructor, interpreted (so that the_self, returns, ... are what pedal makes them)
            o = Obj('FunctionType')
            o.attrs['__open__'] = True
            if ft_init:
                sup = Obj('super')
                sup.attrs['method:__init__'] = lambda *a, **k: None
                fd2 = FD(max_steps=20000, calls={'super': lambda *a: sup})
                try:
                    fd2.call_function(ft_init[0], [name, definition, returns, the_self], bound_self=o)
                    return o
                except (Inconclusive, Raised):
                    pass
            o.attrs.update(name=name, definition=definition, returns=returns, the_self=the_self)
            return o
        fd.calls['FunctionType'] = _function_type

        def _none_type():
            o = Obj('NoneType')
            o.attrs['method:clone_mutably'] = _none_type
            o.attrs['method:clone'] = _none_type
            return o
        fd.calls['NoneType'] = _none_type
        fd.calls['NewScope'] = lambda *a, **k: fd.instantiate('NewScope', self.scope_methods, a, k, closed=False)
        fd.calls['State'] = lambda *a, **k: fd.instantiate('State', self.state_methods, a, k, closed=False)
        fd.calls['Identifier'] = lambda *a, **k: fd.instantiate('Identifier', self.ident_methods, a, k, closed=False)
        fd.calls['NewPath'] = lambda *a, **k: fd.instantiate('NewPath', self.path_methods, a, k, closed=False)
        consts = {'ast.Pass': 'ast.Pass', 'ast': 'ast', 'ast.Module': 'ast.Module',
                  # CPython >= 3.8, not Skulpt: the platform this checker (and the pinned suite) runs on
                  'IS_AT_LEAST_PYTHON_38': True, 'IS_SKULPT': False}
        consts.update({n: n for n in TYPE_NAMES})
        fd.resolver = lambda name: consts[name]

        def mk_node(s):
            if s[0] == 'if':
                return Obj('If', kind='if', test=Obj('const', kind='const'), body=[mk_node(x) for x in s[1]],
                           orelse=[mk_node(x) for x in s[2]], site=s[3])
            if s[0] == 'whiler':
                return Obj('while', kind='while', test=Obj('r', kind='r', var=s[1], site=s[4]),
                           body=[mk_node(x) for x in s[2]], orelse=[], site=s[3], iter=Obj('const', kind='const'),
                           target=Obj('const', kind='const'))
            if s[0] in ('while', 'for'):
                return Obj(s[0], kind=s[0], test=Obj('const', kind='const'), body=[mk_node(x) for x in s[1]],
                           orelse=[], site=s[2], iter=Obj('const', kind='const'), target=Obj('const', kind='const'))
            if s[0] == 'def':
                return Obj('FunctionDef', kind='def', name=s[1], body=[mk_node(x) for x in s[2]], site=s[3],
                           returns=None, decorator_list=[],
                           args=Obj('arguments', posonlyargs=[], args=[], defaults=[], kwarg=None, vararg=None,
                                    kwonlyargs=[], kw_defaults=[]))
            if s[0] == 'call':
                return Obj('Call', kind='call', func=Obj('Name', kind='name', var=s[1], site=s[2]), args=[],
                           keywords=[], site=s[2])
            return Obj(s[0], kind=s[0], var=s[1], site=s[2], type_tag=s[3] if len(s) > 3 else 'T')

        def visit(node):
            kind = node.attrs['kind']
            if kind == 'const':
                return 'AnyType'
            prev = cur['site']
            cur['site'] = node.attrs['site']
            try:
                if kind == 'a':
                    me.attrs['method:store_variable'](node.attrs['var'], node.attrs.get('type_tag', 'T'))
                elif kind == 'r':
                    state_ = me.attrs['method:load_variable'](node.attrs['var'])
                    self.types_read.append(state_.attrs.get('type') if isinstance(state_, Obj) else state_)
                elif kind == 'if':
                    me.attrs['method:visit_If'](node)
                elif kind == 'while':
                    me.attrs['method:visit_While'](node)
                elif kind == 'for':
                    me.attrs['method:visit_For'](node)
                elif kind == 'def':
                    me.attrs['method:visit_FunctionDef'](node)
                elif kind == 'call':
                    return me.attrs['method:visit_Call'](node)
                elif kind == 'name':
                    # Tifa.visit_Name in Load context: the type of the loaded state
                    return me.attrs['method:load_variable'](node.attrs['var']).attrs['type']
            finally:
                cur['site'] = prev
            return 'AnyType'
        me.attrs['method:visit'] = visit
        me.attrs['method:_visit_collection_loop'] = lambda node: False
        me.attrs['method:load_root_variable'] = lambda node: None
        me.attrs['node_chain'] = []
        me.attrs['method:_finish_loop'] = lambda: fd.call_function(self.core_methods['_finish_loop'], [], bound_self=me) \
            if '_finish_loop' in self.core_methods else None
        fd.bind_methods(me, self.core_methods, skip=('locate', '_issue', 'visit'))
        fd.bind_methods(me, self.vis_methods)
        try:
            me.attrs['method:reset']()
            for s in prog:
                visit(mk_node(s))
            cur['site'] = 0
            me.attrs['method:_finish_scope']()
        except Raised as r:
            return issues, r
        return issues, None


def r5_program_table(ctx, sym, tier):
    ctx.rule('R5', "exhaustive small-program table: TIFA's flow core and its If/While/For visitors are executed "
                   "abstractly on every program of the flow mini-language (assign/read of one variable, nested "
                   "if/else; with loops in a second sweep) up to a size bound and compared with a path-enumeration "
                   "oracle: per read - no issue iff every path assigns first, Initialization Problem iff none does, "
                   "Possible Initialization Problem otherwise; unused reported iff never read after the last "
                   "assignment on any path and not reported if read on every path; with loops: no missed "
                   "uninitialised read")
    at = AbstractTifa(ctx, sym)
    # quick: every if/else program with <= 3 atoms (1122) and every loop program with <= 2 atoms, depth 1;
    # thorough: <= 4 atoms (15218), two variables, loop programs with <= 2 atoms at depth 2 - in parallel
    def uniq(*gens):
        seen, out = set(), []
        for g in gens:
            for p in g:
                k = repr(p)
                if k not in seen:
                    seen.add(k)
                    out.append(p)
        return out
    if tier == 'thorough':
        progs = uniq(programs(4, ('x',), loops=False, depth=2),
                     programs(3, ('x',), loops=False, depth=2, empty_bodies=True),
                     programs(2, ('x', 'y'), loops=False, depth=2, empty_bodies=True))
        loop_progs = [p for p in programs(2, ('x',), loops=True, depth=2) if has_loop(p)] + CURATED_LOOPS
    else:
        progs = uniq(programs(3, ('x',), loops=False, depth=2),
                     programs(2, ('x',), loops=False, depth=2, empty_bodies=True), CURATED)
        loop_progs = [p for p in programs(2, ('x',), loops=True, depth=1) if has_loop(p)] + CURATED_LOOPS
    # function sweep: a helper that reads the global, defined first and called at one or more points of an
    # if/else program (the property's "function calls" clause: a read that is unassigned on some execution of some
    # call must be reported)
    bodies = [(R,), (('if', (R,), ()),)]
    if tier == 'thorough':
        call_main = [p for p in programs(4, ('x',), loops=False, depth=2, call=True) if has_call(p)]
        call_progs = [[('def', 'f', b)] + list(p) for b in bodies for p in call_main]
    else:
        m3 = [p for p in programs(3, ('x',), loops=False, depth=1, call=True) if has_call(p) and "'a'" in repr(p)]
        m2 = [p for p in programs(2, ('x',), loops=False, depth=2, call=True) if has_call(p)]
        call_progs = [[('def', 'f', bodies[0])] + list(p) for p in m3] + \
                     [[('def', 'f', b)] + list(p) for b in bodies for p in m2]
    n = 0
    bad = {}
    work = progs + loop_progs + call_progs
    if tier == 'thorough' and len(work) > 3000:
        results = _parallel(ctx, work)
    else:
        results = None
    for idx, prog in enumerate(work):
        numbered = number_reads(prog)
        looped = has_loop(prog)
        n += 1
        if results is not None:
            issues, raised = results[idx]
            if isinstance(raised, str) and raised.startswith('INCONCLUSIVE'):
                raise AnalysisError("C09 R5: TIFA flow core outside the decidable fragment on %r: %s" % (prog, raised))
        else:
            try:
                issues, raised = at.run(numbered)
            except Inconclusive as e:
                raise AnalysisError("C09 R5: TIFA flow core outside the decidable fragment on %r: %s" % (prog, e))
        if raised is not None:
            bad.setdefault('raises:%s' % raised.kind, []).append((prog, 'abstract execution raises %s (%s)' % (
                raised.kind, raised.detail)))
            continue
        verdict, unused = oracle(numbered)
        by_site = {}
        for label, name, site in issues:
            by_site.setdefault(site, set()).add(label)
        for site, v in verdict.items():
            got = by_site.get(site, set()) & (set(INIT_ISSUES) | {POSSIBLE})
            if looped:
                ok = bool(got) if v in ('never', 'sometimes') else True
                kind = 'missed-uninitialised-read' + (':for' if "'for'" in repr(prog) else ':while')
            elif has_call(prog):
                # one read site, several calling contexts: something must be reported iff some context leaves the
                # name unassigned on some path
                ok = bool(got) if v in ('never', 'sometimes') else not got
                kind = 'missed-uninitialised-read:call' if v != 'always' else 'spurious:call'
            else:
                want = {'always': set(), 'never': None, 'sometimes': {POSSIBLE}}[v]
                if v == 'never':
                    ok = bool(got) and got <= set(INIT_ISSUES)
                else:
                    ok = got == want
                kind = 'branches:%s' % v
            if not ok:
                bad.setdefault(kind, []).append((prog, "read #%d is %s assigned before it on the real paths, TIFA "
                                                 "reports %s" % (site, v, sorted(got) or 'nothing')))
        if not looped:
            reported = {name for label, name, site in issues if label == 'unused_variable'}
            for var, u in unused.items():
                if u == 'never-read' and var not in reported:
                    cross = any(v != 'always' for v in verdict.values())
                    bad.setdefault('unused:missed' + (':with-uninitialised-read' if cross else ''), []).append((prog, "%s is never read after its last assignment on "
                                                                "any path but is not reported unused" % var))
                if u == 'always-read' and var in reported:
                    bad.setdefault('unused:spurious', []).append((prog, "%s is read after its last assignment on "
                                                                  "every path but is reported unused" % var))
    ctx.floor('R5', 'programs analysed', n, 300)
    ctx.info("flow table: %d programs (%d with loops, %d with function calls), %d deviating groups" % (
        n, len(loop_progs), len(call_progs), len(bad)))
    if not bad:
        ctx.ok('R5', 'flow-table', sample={'programs': n})
    for kind, items in sorted(bad.items()):
        items.sort(key=lambda it: len(repr(it[0])))
        prog, why = items[0]
        text = '\n'.join(render(prog))
        mod = at.vis if ('for' in kind or 'while' in kind or ':call' in kind) else at.core
        fn = at.vis_methods.get('visit_For') if ':for' in kind else (
            at.vis_methods.get('visit_While') if ':while' in kind else (
                at.vis_methods.get('visit_Call') if ':call' in kind else at.core_methods['merge_paths']))
        ctx.fail('R5', 'flow:' + kind, mod, fn,
                 "%d of %d small programs deviate (%s); smallest: %s" % (len(items), n, kind, why),
                 "the program\n" + text, function=getattr(fn, '_qualname', None))
    return at


_WORKER = {}


def _worker_init(root, overlay):
    from ..loader import Repo
    from ..report import Ctx
    repo = Repo(root, overlay=overlay)
    c = Ctx('C09', repo, quiet=True)
    _WORKER['at'] = AbstractTifa(c, Symbols(repo))


def _worker_run(chunk):
    out = []
    for prog in chunk:
        try:
            issues, raised = _WORKER['at'].run(number_reads(prog))
            out.append((issues, None if raised is None else _Raised(raised.kind, raised.detail)))
        except Inconclusive as e:
            out.append(([], 'INCONCLUSIVE: %s' % e))
    return out


class _Raised:
    def __init__(self, kind, detail):
        self.kind = kind
        self.detail = detail


def _parallel(ctx, work, jobs=16):
    import multiprocessing
    chunks = [work[i:i + 200] for i in range(0, len(work), 200)]
    with multiprocessing.Pool(jobs, initializer=_worker_init, initargs=(ctx.repo.root, ctx.repo.overlay)) as pool:
        parts = pool.map(_worker_run, chunks)
    return [r for part in parts for r in part]


def r1_join_table(ctx, sym, at):
    ctx.rule('R1', "match_rso tabulated over {yes,no,maybe} squared is the flat-lattice join; combine_states' one-sided "
                   "arm (other path did not touch the name) maps no->no and anything else->maybe for read/set/over")
    fn = at.core_methods['match_rso']
    vals = ['yes', 'no', 'maybe']
    for a, b in itertools.product(vals, vals):
        fd = FD()
        try:
            got = fd.call_function(fn, [a, b])
        except (Raised, Inconclusive) as e:
            raise AnalysisError("C09 R1: match_rso outside the decidable fragment: %s" % e)
        want = a if a == b else 'maybe'
        ctx.check(got == want, 'R1', 'match_rso(%s,%s)' % (a, b), at.core, fn,
                  "match_rso(%r, %r) = %r, the join of the flat lattice is %r" % (a, b, got, want),
                  "x assigned on one branch only: after the if, x is considered %s" % got)
    cs = at.core_methods['combine_states']
    for v in vals:
        fd = FD()
        fd.calls['State'] = lambda *a, **k: fd.instantiate('State', at.state_methods, a, k, closed=False)
        me = Obj('tifa')
        me.attrs['method:locate'] = lambda: 0
        left = fd.instantiate('State', at.state_methods, ('x', [], 'T', 'store', 0), dict(read=v, set=v, over=v),
                              closed=False)
        try:
            st = fd.call_function(cs, [left, None], bound_self=me)
        except (Raised, Inconclusive) as e:
            raise AnalysisError("C09 R1: combine_states outside the decidable fragment: %s" % e)
        want = 'no' if v == 'no' else 'maybe'
        got = (st.attrs.get('read'), st.attrs.get('set'), st.attrs.get('over'))
        ctx.check(got == (want, want, want), 'R1', 'combine_states(one-sided,%s)' % v, at.core, cs,
                  "a name seen on one path only with state %r merges to %r, expected %r" % (v, got, want),
                  "if c:\n    x = 0\nprint(x)   # x definitely %s after the if" % got[1])


def r2_issue_dispatch(ctx, sym, at):
    ctx.rule('R2', "issue dispatch in load_variable tabulated over (exists, set state): missing -> "
                   "initialization_problem / read_out_of_scope, set=no -> initialization_problem, set=maybe -> "
                   "possible_initialization_problem, set=yes -> nothing")
    for setv, want in (('yes', set()), ('no', {'initialization_problem'}), ('maybe', {POSSIBLE})):
        prog = [('a', 'x', 1), ('r', 'x', 2)]
        # craft state by running store then patching the set flag is not possible from outside; use small programs
    cases = {
        'set=yes': ([('a', 'x', 1), ('r', 'x', 2)], 2, set()),
        'missing': ([('r', 'x', 1)], 1, {'initialization_problem'}),
        'set=no(after missing read)': ([('r', 'x', 1), ('r', 'x', 2)], 2, {'initialization_problem'}),
        'set=maybe': ([('if', [('a', 'x', 1)], [], 2), ('r', 'x', 3)], 3, {POSSIBLE}),
    }
    for name, (prog, site, want) in cases.items():
        issues, raised = at.run(prog)
        got = {l for l, n, s in issues if s == site and l in set(INIT_ISSUES) | {POSSIBLE}}
        ctx.check(raised is None and got == want, 'R2', 'load_variable[%s]' % name, at.core,
                  at.core_methods['load_variable'],
                  "reading x in state %s issues %s, expected %s" % (name, sorted(got), sorted(want)),
                  "the program\n" + '\n'.join(render([(s[0],) + tuple(s[1:-1]) if s[0] != 'if' else
                                                       ('if', tuple((x[0], x[1]) for x in s[1]), ()) for s in prog])))
    # the end of the scope, executed: a name assigned and never read is reported unused, unless it is `_`; a name that
    # is read afterwards is not
    fs = at.core_methods['_finish_scope']
    for name, (prog, want) in {'never-read': ([('a', 'x', 1)], {'x'}), 'underscore': ([('a', '_', 1)], set()),
                               'read-afterwards': ([('a', 'x', 1), ('r', 'x', 2)], set()),
                               'one-of-two': ([('a', 'x', 1), ('a', 'y', 2), ('r', 'y', 3)], {'x'})}.items():
        issues, raised = at.run(prog)
        got = {n for l, n, s_ in issues if l == 'unused_variable'}
        ctx.check(raised is None and got == want, 'R2', '_finish_scope:unused[%s]' % name, at.core, fs,
                  "at the end of the scope %s reported unused, expected %s%s" % (
                      sorted(got) or 'nothing is', sorted(want) or 'nothing',
                      '' if raised is None else ' (raises %s)' % raised.kind),
                  "the program\n" + '\n'.join(render([(s_[0],) + tuple(s_[1:-1]) for s_ in prog])))


def r3_path_discipline(ctx, sym, at):
    ctx.rule('R3', "sibling rule, behavioural: for every construct whose body may run zero times or as one of several "
                   "alternatives (If, else-arm, While, For) the witness program `<construct>: x = 0` followed by a read "
                   "of x, executed abstractly, reports a *possible* initialisation problem - i.e. the visitor analyses "
                   "each alternative on its own path and merges them")
    witnesses = {
        'visit_If': [('if', (('a', 'x'),), ()), ('r', 'x')],
        'visit_If:else': [('if', (), (('a', 'x'),)), ('r', 'x')],
        'visit_While': [('while', (('a', 'x'),)), ('r', 'x')],
        'visit_For': [('for', (('a', 'x'),)), ('r', 'x')],
    }
    for name, prog in witnesses.items():
        fn = at.vis_methods.get(name.split(':')[0])
        if fn is None:
            raise AnalysisError("anchor vanished: Tifa.%s" % name)
        numbered = number_reads(prog)
        try:
            issues, raised = at.run(numbered)
        except Inconclusive as e:
            raise AnalysisError("C09 R3: %s outside the decidable fragment: %s" % (name, e))
        site = numbered[-1][2]
        got = sorted({l for l, n, s_ in issues if s_ == site and l in set(INIT_ISSUES) | {POSSIBLE}})
        ctx.check(raised is None and got == [POSSIBLE], 'R3', name + ':paths', at.vis, fn,
                  "after `%s` the read of x is reported as %s%s; the body ran on some executions only, so the "
                  "assignment must count as 'maybe' (one path per alternative, merged afterwards)" % (
                      '; '.join(render(prog[:1])), got or 'nothing',
                      '' if raised is None else ' (raises %s)' % raised.kind),
                  {'visit_For': "for i in data:\n    x = 0\nprint(x)   # data may be empty: x unassigned, TIFA reports "
                                "nothing because the loop body is analysed on the current path"}.get(
                      name, "the program\n" + '\n'.join(render(prog))))


def r4_merge_both_sides(ctx, sym, at):
    ctx.rule('R4', "merge_paths covers both sides, behaviourally: witness programs in which a name is touched only on "
                   "the left branch, only on the right branch, on both, on a nested branch, or re-assigned in an enclosing "
                   "branch while the module path holds an older state (search_parents), executed abstractly, "
                   "give exactly the verdict of the path oracle for the read after the merge (and paths do not leak "
                   "into their siblings)")
    fn = at.core_methods['merge_paths']
    A_, R_ = ('a', 'x'), ('r', 'x')
    witnesses = {
        'left-only': [('if', (A_,), ()), R_],
        'right-only': [('if', (), (A_,)), R_],
        'both': [('if', (A_,), (A_,)), R_],
        'neither': [('if', (R_,), ()), R_],
        'nested-right': [('if', (), (('if', (A_,), (A_,)),)), R_],
        'nested-left-partial': [('if', (('if', (A_,), ()),), (A_,)), R_],
        'sibling-isolation': [('if', (A_,), (R_,))],
        'before-and-one-branch': [A_, ('if', (A_,), ()), R_],
        # the nearest enclosing path's state shadows the module path's (search_parents walks the chain in order)
        'shadowed-maybe-else-only': [('if', (A_,), ()), ('if', (A_, ('if', (), (A_,)), R_), ())],
        'shadowed-unset-else-only': [('if', (A_, ('if', (), (A_,)), R_), ())],
        'shadowed-maybe-left-only': [('if', (A_,), ()), ('if', (A_, ('if', (A_,), ()), R_), ())],
        'shadowed-depth-3': [('if', (A_,), ()), ('if', (('if', (A_, ('if', (), (A_,)), R_), ()),), ())],
    }
    for name, prog in witnesses.items():
        numbered = number_reads(prog)
        try:
            issues, raised = at.run(numbered)
        except Inconclusive as e:
            raise AnalysisError("C09 R4: merge_paths outside the decidable fragment: %s" % e)
        verdict, _ = oracle(numbered)
        bad = []
        for site, v in verdict.items():
            got = {l for l, n, s_ in issues if s_ == site and l in set(INIT_ISSUES) | {POSSIBLE}}
            ok = (not got) if v == 'always' else (got == {POSSIBLE} if v == 'sometimes' else
                                                  bool(got) and got <= set(INIT_ISSUES))
            if not ok:
                bad.append("read #%d is %s assigned on the real paths, TIFA reports %s" % (site, v, sorted(got) or 'nothing'))
        ctx.check(raised is None and not bad, 'R4', 'merge_paths:' + name, at.core, fn,
                  "witness %r: %s%s" % (name, '; '.join(bad), '' if raised is None else ' raises %s' % raised.kind),
                  "the program\n" + '\n'.join(render(prog)))


def r6_issue_recording(ctx, sym, at):
    ctx.rule('R6', "TifaCore._issue, executed abstractly on sequences of issues (same label and variable on several "
                   "lines, different labels, both calling conventions), records every issue it is given, in order, "
                   "under its label - the flow table's verdict per read reaches the analysis result unfiltered")
    from .. import symexec
    fn = at.core_methods.get('_issue')
    if fn is None:
        raise AnalysisError("anchor vanished: TifaCore._issue")
    ctx.analysed_function(at.core, fn)
    sequences = {
        'same-name-two-lines': [('initialization_problem', 'a', 3), ('initialization_problem', 'a', 5)],
        'same-name-same-line': [('initialization_problem', 'a', 3), ('initialization_problem', 'a', 3)],
        'two-names': [(POSSIBLE, 'a', 2), (POSSIBLE, 'b', 2), (POSSIBLE, 'a', 9)],
        'two-labels': [('initialization_problem', 'a', 1), ('unused_variable', 'a', 1), (POSSIBLE, 'a', 4)],
        'no-name-field': [('incompatible_types', None, 1), ('incompatible_types', None, 2)],
    }
    for by_name in (False, True):
        for sname, seq in sequences.items():
            analysis = Obj('analysis', issues={})
            me = symexec.self_obj(at.core, 'TifaCore')
            init_fn = at.core_methods.get('__init__')
            if init_fn is not None:
                _, raised0 = symexec.run(symexec.new_fd(sym, at.core), init_fn, [Obj('report')], bound_self=me,
                                         what='TifaCore.__init__')
                if raised0 is not None:
                    raise AnalysisError("TifaCore.__init__ raises %s" % raised0.kind)
            me.attrs.update(analysis=analysis)
            me.attrs.setdefault('report', Obj('report'))
            made = []

            def mk(label, name, line):
                # (two reads on one line sit in different columns)
                # (fields as TIFA's own feedback constructors build them: the location is one of them)
                loc = Obj('location', line=line, col=4 * len(made), end_line=line, end_col=4 * len(made) + 1,
                          filename=None)
                f = Obj('feedback:%s' % label, label=label, location=loc,
                        fields=dict({'name': name, 'name_message': name} if name is not None else {}, location=loc))
                made.append(f)
                return f
            fd = symexec.new_fd(sym, at.core, calls={
                'lookup_feedback': lambda label: (lambda *a, **k: mk(label, *a[:2]))})
            raised = None
            for label, name, line in seq:
                args = [label, name, line] if by_name else [mk(label, name, line)]
                _, raised = symexec.run(fd, fn, args, bound_self=me, what='TifaCore._issue')
                if raised is not None:
                    break
            got = analysis.attrs['issues']
            want = {}
            for f in made:
                want.setdefault(f.attrs['label'], []).append(f)
            ok = raised is None and isinstance(got, dict) and set(got) == set(want) and all(
                len(got[k]) == len(want[k]) and all(x is y for x, y in zip(got[k], want[k])) for k in want)
            ctx.check(ok, 'R6', '_issue:records-all[%s,%s]' % (sname, 'by-name' if by_name else 'object'), at.core, fn,
                      "after reporting %r the analysis holds %s%s; every issue must be recorded under its label" % (
                          seq, {k: len(v) for k, v in got.items()} if isinstance(got, dict) else got,
                          '' if raised is None else ' (raises %s)' % raised.kind),
                      "c = 0\nif c:\n    print(a)\nprint(a)   # the second read is the one that fails at run time")
            # the same TIFA object analyses a second program (process_code: a new analysis record, reset()) whose
            # issues sit at the same places: they are the second program's issues, all of them
            if raised is None and not by_name:
                second = Obj('analysis', issues={})
                me.attrs['analysis'] = second
                reset_fn = at.core_methods.get('reset')
                if reset_fn is not None:
                    symexec.run(fd, reset_fn, [], bound_self=me, what='TifaCore.reset')
                first_made = list(made)
                del made[:]
                raised2 = None
                for label, name, line in seq:
                    _, raised2 = symexec.run(fd, fn, [mk(label, name, line)], bound_self=me, what='TifaCore._issue')
                    if raised2 is not None:
                        break
                got2 = second.attrs['issues']
                n2 = sum(len(v) for v in got2.values()) if isinstance(got2, dict) else -1
                ctx.check(raised2 is None and n2 == len(seq), 'R6', '_issue:second-analysis[%s]' % sname, at.core, fn,
                          "a second analysis by the same TIFA object, reporting %r again, records %d of %d issue(s)%s" % (
                              seq, n2, len(seq), '' if raised2 is None else ' (raises %s)' % raised2.kind),
                          "tifa_analysis() on one report for 'a = 1; b = \"x\"; c = a + b' and then for another "
                          "program with the offending operator at the same place: the second result has no issues")


def r9_fresh_analysis_per_program(ctx, sym):
    ctx.rule('R9', "tifa_analysis executed abstractly for two different programs on one report: every call of "
                   "Tifa.process_code asks for a fresh analysis record (the effective `reset` argument - positional, "
                   "keyword, or the default read from process_code's signature - is true), and process_code, executed "
                   "with it, replaces self.analysis; otherwise the second program's result carries the first one's "
                   "issues, which follow none of its own paths")
    from .. import symexec
    mod = ctx.repo.module('pedal.tifa.commands')
    fn = mod.func('tifa_analysis')
    ctx.analysed_function(mod, fn)
    vmod = ctx.repo.module('pedal.tifa.tifa_visitor')
    pc = vmod.func('Tifa.process_code')
    ctx.analysed_function(vmod, pc)
    names = [a.arg for a in pc.args.args]
    if 'reset' in names:
        pos = names.index('reset') - 1
        di = names.index('reset') - (len(names) - len(pc.args.defaults))
        try:
            default = sym.const(vmod, pc.args.defaults[di]) if di >= 0 else None
        except KeyError:
            raise AnalysisError("C09 R9: default of process_code's reset is not a constant")
    else:
        pos, default = None, True    # no way left to keep the old record
    tool = sym.const(mod, ast.parse('TIFA_TOOL_NAME', mode='eval').body)
    for texts in (('print(a)', 'b = 1\nprint(b)'), ('x = 1', 'y = 2', 'z = 3')):
        seen = []
        submission = Obj('submission', main_code=texts[0], main_file='answer.py', line_offsets={})
        inst = Obj('tifa')

        def process_code(code, *a, **k):
            eff = k['reset'] if 'reset' in k else (a[pos - 1] if pos is not None and len(a) > pos - 1 >= 0 else default)
            seen.append((code, eff))
            return Obj('analysis:%d' % len(seen), success=True)
        symexec.method(inst, 'process_code', process_code)
        data = {'analyses': {}, 'instance': inst, 'latest': None}
        report = Obj('report', submission=submission)
        symexec.method(report, '__getitem__', lambda k: data if k == tool else None)
        fd = symexec.new_fd(sym, mod, extra={'MAIN_REPORT': report})
        raised = None
        for t in texts:
            submission.attrs['main_code'] = t
            _, raised = symexec.run(fd, fn, [], {'report': report}, what='tifa_analysis')
            if raised is not None:
                break
        stale = [c for c, eff in seen if eff is not True and not (eff and not isinstance(eff, Obj))]
        ctx.check(raised is None and len(seen) == len(texts) and not stale, 'R9',
                  'tifa_analysis:fresh-record[%d programs]' % len(texts), mod, fn,
                  "analysing %r on one report: process_code ran %d time(s); without a true `reset` for %r%s" % (
                      list(texts), len(seen), stale, '' if raised is None else ' (raises %s)' % raised.kind),
                  "tifa_analysis('print(a)') and then tifa_analysis('b = 1\\nprint(b)') on the same report: the second "
                  "result still holds the first program's initialization problem")
    # process_code itself: reset=True replaces the record
    old = Obj('old-analysis', issues={'x': [1]})
    me = symexec.self_obj(vmod, 'Tifa', report=Obj('report', submission=None), analysis=old, line_offset=0)
    symexec.method(me, 'process_ast', lambda *a, **k: None)
    symexec.method(me, 'reset', lambda *a, **k: None)
    fd = symexec.new_fd(sym, vmod, calls={
        'ast.parse': lambda *a, **k: symexec.marker('tree'), 'TifaAnalysis': lambda *a, **k: Obj('new-analysis'),
        'system_error': lambda *a, **k: Obj('feedback'), 'str': lambda x: 'text',
        'Location': lambda *a, **k: Obj('location')})
    try:
        _, raised = symexec.run(fd, pc, ['x = 1'], {'reset': True} if pos is not None else {}, bound_self=me,
                                what='Tifa.process_code')
    except Inconclusive as e:
        raise AnalysisError("C09 R9: process_code outside the decidable fragment: %s" % e)
    ctx.check(raised is None and me.attrs.get('analysis') is not old, 'R9', 'process_code:reset-replaces-record', vmod, pc,
              "process_code(reset=True) keeps the previous analysis record%s" % (
                  '' if raised is None else ' (raises %s)' % raised.kind),
              "two programs analysed by one Tifa object share one issues table")


def run(ctx):
    sym = Symbols(ctx.repo)
    at = r5_program_table(ctx, sym, ctx.tier)
    r6_issue_recording(ctx, sym, at)
    r1_join_table(ctx, sym, at)
    r2_issue_dispatch(ctx, sym, at)
    r3_path_discipline(ctx, sym, at)
    r4_merge_both_sides(ctx, sym, at)
    r9_fresh_analysis_per_program(ctx, sym)
    # R7/R8: "reported at that line" inside a section: the text TIFA is handed is the section's text with nothing lost,
    # and the offset added is the number of lines before it (shared with C17.R1 / C17.R3)
    from .c12 import section_offsets
    section_offsets(ctx, sym, as_rule='R8', partition_as='R7')
    ctx.assume("the mini-language stands for assignments/reads of plain names; conditions, expressions and prints do "
               "not affect the flow facts; loop bodies are modelled as running 0, 1 or 2 times; exactness for every "
               "nesting beyond the size bound and line numbers are not decided")
