"""C01 - resolver shows the highest-priority eligible feedback and nothing ineligible; never raises."""
import ast
import itertools

from ..astutil import dotted, calls, call_name, body_walk, walk_local, is_self_attr, method_calls, kw
from ..fdeval import FD, Obj, Raised, Inconclusive, UNKNOWN, NO_RETURN
from ..loader import AnalysisError, norm, enclosing_function
from ..symbols import Symbols, ClassInfo
from .resolver_model import Model

FEEDBACK = 'pedal.core.feedback'
SIMPLE = 'pedal.resolvers.simple'
REPORT = 'pedal.core.report'
FINAL = 'pedal.core.final_feedback'

# the order written in the property statement
DOCUMENTED = ['highest', 'syntax', 'mistakes', 'instructor', 'algorithmic', 'runtime', 'student',
              'specification', 'positive', 'instructions', 'uncategorized', 'lowest']


def rank_table(ctx, sym):
    mod = ctx.repo.module(FEEDBACK)
    expr = mod.top_assign('DEFAULT_CATEGORY_PRIORITY')
    try:
        table = sym.const(mod, expr)
    except KeyError as e:
        raise AnalysisError("C01 R1: DEFAULT_CATEGORY_PRIORITY is not a literal list of constants (%s)" % e)
    return mod, expr, list(table)


def r1_rank_table(ctx, sym):
    ctx.rule('R1', "DEFAULT_CATEGORY_PRIORITY (constants resolved) equals the documented rank order of the property "
                   "statement")
    mod, expr, table = rank_table(ctx, sym)
    ctx.check(table == DOCUMENTED, 'R1', 'DEFAULT_CATEGORY_PRIORITY:order', mod, expr,
              "rank order is %s; documented order is %s" % (table, DOCUMENTED),
              "two triggered feedbacks of the swapped categories: the lower-ranked one is shown",
              sample={'table': table})
    for i, name in enumerate(DOCUMENTED):
        ctx.check(i < len(table) and table[i] == name, 'R1', 'rank[%d]=%s' % (i, name), mod, expr,
                  "rank %d is %r, documented %r" % (i, table[i] if i < len(table) else None, name),
                  "feedback of category %r is ranked out of order" % name, construct='rank %d' % i)
    # docs cross-check (information only)
    try:
        text = ctx.repo.read_text('docsrc/developers/ffs.rst')
        ctx.info("docsrc/developers/ffs.rst present (%d bytes); order cross-check is informational" % len(text))
    except OSError:
        pass
    return table


def r2_rank_function(ctx, sym, table):
    ctx.rule('R2', "decision table of by_priority o priority_offset over category x priority (exhaustive finite "
                   "domain, abstract interpretation): default order = rank table, unknown categories after 'lowest', "
                   "a priority naming a rank re-ranks to that rank's default slot, high < medium < low strictly inside "
                   "one rank with offsets in (0,1), total for None category/priority")
    mod = ctx.repo.module(SIMPLE)
    bp = mod.func('by_priority')
    po = mod.func('priority_offset')
    ctx.analysed_function(mod, bp)
    ctx.analysed_function(mod, po)
    fmod = ctx.repo.module(FEEDBACK)
    aliases = sym.const(fmod, ast.parse('Feedback.CATEGORIES.ALIASES', mode='eval').body)
    ci = sym.find_class('pedal.core.feedback_category', 'FeedbackCategory')
    cats = sorted({sym.const(ci.module, v) for k, v in ci.attrs.items()
                   if isinstance(v, ast.Constant) and isinstance(v.value, str)})
    ctx.floor('R2', 'feedback categories', len(cats), 12)
    categories = cats + [t for t in table if t not in cats] + [None, 'some-custom-category'] + \
        [c.upper() for c in cats[:3]]
    priorities = [None, 'high', 'medium', 'low', 'HIGH', 'bogus'] + list(table) + sorted(aliases)

    from ..fdeval import module_resolver
    resolver = module_resolver(sym, mod)

    def key_of(cat, pri):
        fd = FD(resolver=resolver)
        fd.functions['priority_offset'] = po
        fb = Obj('feedback', category=cat, priority=pri)
        try:
            v = fd.call_function(bp, [fb])
        except Raised as r:
            return ('raised', r.kind, r.detail, getattr(r, 'node', None))
        except Inconclusive as e:
            raise AnalysisError("C01 R2: by_priority outside the decidable fragment: %s" % e)
        return v

    grid = {}
    for c in categories:
        for p in priorities:
            grid[(c, p)] = key_of(c, p)
    n = len(table)
    # (d) totality
    for (c, p), v in grid.items():
        if isinstance(v, tuple):
            ctx.fail('R2', 'by_priority(%r,%r):raises' % (c, p), mod, v[3] if v[3] is not None else bp,
                     "by_priority raises %s for category=%r priority=%r" % (v[1], c, p),
                     "feedback(category=%r, priority=%r) makes resolve() raise" % (c, p), function='by_priority')
    vals = {k: v for k, v in grid.items() if not isinstance(v, tuple)}
    ctx.require(all(isinstance(v, (int, float)) for v in vals.values()), "by_priority returns non-numbers")
    # (a) default order
    for i, name in enumerate(table):
        v = vals.get((name, None))
        ctx.check(v is not None and i < v < i + 1, 'R2', 'default-rank[%s]' % name, mod, bp,
                  "category %r with default priority sorts at %r, outside rank %d" % (name, v, i),
                  "two feedbacks of adjacent ranks are shown in the wrong order", construct='by_priority',
                  sample={'category': name, 'key': v})
    for c in categories:
        if c is None or (isinstance(c, str) and c.lower() in table):
            continue
        v = vals.get((c, None))
        ctx.check(v is not None and v > n, 'R2', 'other-category[%s]' % c, mod, bp,
                  "category %r (not in the rank list) sorts at %r, not after 'lowest'" % (c, v),
                  "a %r feedback outranks a listed category" % c, construct='by_priority')
    v = vals.get((None, None))
    unk = table.index('uncategorized') if 'uncategorized' in table else None
    ctx.check(v is not None and unk is not None and unk < v < unk + 1, 'R2', 'none-category', mod, bp,
              "a feedback without category sorts at %r, not in the 'uncategorized' rank" % (v,),
              "feedback(message=...) with no category is mis-ranked", construct='by_priority')
    # case-insensitivity of categories
    for c in cats[:3]:
        ctx.check(vals.get((c.upper(), None)) == vals.get((c, None)), 'R2', 'case[%s]' % c, mod, bp,
                  "category matching is case-sensitive", "category='Syntax' is ranked as unknown",
                  construct='by_priority')
    # (b) re-ranking
    for c in ('runtime', 'some-custom-category'):
        for i, name in enumerate(table):
            v = vals.get((c, name))
            ctx.check(v == vals.get((name, None)), 'R2', 'rerank[%s->%s]' % (c, name), mod, bp,
                      "priority=%r re-ranks a %r feedback to %r, not to that rank's default slot %r" % (
                          name, c, v, vals.get((name, None))),
                      "gently()-style feedback with priority=%r is ordered wrongly" % name, construct='by_priority')
        for alias, target in sorted(aliases.items()):
            ctx.check(vals.get((c, alias)) == vals.get((target, None)), 'R2', 'rerank-alias[%s->%s]' % (c, alias),
                      mod, bp, "priority alias %r does not re-rank to %r" % (alias, target),
                      "priority=%r" % alias, construct='by_priority')
    # (c) strict high < medium < low inside the rank, offsets in (0, 1)
    for i, name in enumerate(table):
        h, m, lo = vals.get((name, 'high')), vals.get((name, 'medium')), vals.get((name, 'low'))
        ok = None not in (h, m, lo) and i < h < m < lo < i + 1 and vals.get((name, None)) == m
        ctx.check(ok, 'R2', 'offsets[%s]' % name, mod, po,
                  "inside rank %r: high=%r medium=%r low=%r default=%r; need rank < high < medium(default) < low < "
                  "rank+1" % (name, h, m, lo, vals.get((name, None))),
                  "two %s feedbacks with priority high/low are shown in the wrong order, or a shifted feedback "
                  "crosses into the neighbouring rank" % name, construct='priority_offset')
        ctx.check(vals.get((name, 'HIGH')) == h, 'R2', 'offset-case[%s]' % name, mod, bp,
                  "priority matching is case-sensitive", "priority='High'", construct='by_priority')
        b = vals.get((name, 'bogus'))
        ctx.check(b is not None and i < b < i + 1, 'R2', 'offset-unknown[%s]' % name, mod, po,
                  "an unknown priority string moves a %r feedback to %r, outside its rank" % (name, b),
                  "priority='urgent' crosses a rank boundary", construct='priority_offset')
    ctx.ok('R2', 'grid', sample={'cells': len(grid)})


RESOLVERS = (('pedal.resolvers.simple', True), ('pedal.resolvers.full', True), ('pedal.resolvers.sectional', False))


def r3_r5_resolvers(ctx, sym, ids=('R3', 'R5'), writers=True):
    R3, R5 = ids
    ctx.rule(R3, "each resolver sorts report.feedback (+ ignored_feedback) with list.sort/sorted(key=priority_key) "
                   "only (stable, no reverse); priority_key defaults to by_priority; Report.add_feedback is the only "
                   "appender of report.feedback and appends at the end")
    ctx.rule(R5, "each resolver merges every element of the sorted list in order (no break/continue/condition), "
                   "then calls finalize() once, starting from set_correct_no_errors(report)")
    for modname, with_ignored in RESOLVERS:
        mod = ctx.repo.module(modname)
        fn = mod.func('resolve')
        ctx.analysed_function(mod, fn)
        tag = modname.split('.')[-1]
        # priority_key default
        args = fn.args
        defaults = dict(zip([a.arg for a in args.args][len(args.args) - len(args.defaults):], args.defaults))
        pk = defaults.get('priority_key')
        r = sym.resolve_name(mod, pk.id) if isinstance(pk, ast.Name) else None
        ctx.check(isinstance(r, tuple) and r[0] == 'func' and r[1].name == SIMPLE and r[2].name == 'by_priority',
                  R3, tag + ':priority_key', mod, fn, "priority_key does not default to simple.by_priority",
                  "feedback is ordered by something other than the documented ranks", construct='def resolve(...)')
        sorts = [c for c in calls(fn) if (isinstance(c.func, ast.Attribute) and c.func.attr == 'sort')
                 or call_name(c) == 'sorted']
        ok = len(sorts) == 1 and [k.arg for k in sorts[0].keywords] == ['key'] and \
            norm(sorts[0].keywords[0].value) == 'priority_key' and \
            len(sorts[0].args) == (0 if isinstance(sorts[0].func, ast.Attribute) else 1)
        ctx.check(ok, R3, tag + ':stable-sort', mod, sorts[0] if sorts else fn,
                  "the feedback list is not sorted exactly once with key=priority_key (no reverse, no second pass)",
                  "ties are no longer broken by creation order / order is reversed",
                  construct=norm(sorts[0]) if sorts else 'resolve')
        if not ok:
            continue
        if isinstance(sorts[0].func, ast.Attribute):
            sorted_var = norm(sorts[0].func.value)
        else:
            par = sorts[0]._parent
            sorted_var = norm(par.targets[0]) if isinstance(par, ast.Assign) else None
        # provenance of the sorted list
        src = None
        for n in body_walk(fn):
            if isinstance(n, ast.Assign) and norm(n.targets[0]) == sorted_var and n.value is not sorts[0]:
                src = n.value
        if tag == 'sectional':
            good = any(isinstance(n, ast.For) and norm(n.iter).endswith('.items()') for n in body_walk(fn)) and \
                any(norm(n.value) == 'report.feedback' for n in body_walk(fn) if isinstance(n, ast.Assign))
            appends = [c for c in method_calls(fn, 'append') if 'feedback_by_group' in norm(c.func.value)]
            good = good and len(appends) == 1 and not any(True for _ in method_calls(fn, 'insert'))
        else:
            good = src is not None and norm(src) in ('report.feedback + report.ignored_feedback',)
        ctx.check(good, R3, tag + ':sorted-list-provenance', mod, src if src is not None else fn,
                  "the sorted list is not report.feedback%s in creation order" % (
                      ' + report.ignored_feedback' if with_ignored else ' grouped by parent'),
                  "creation order among equal keys is lost", construct=norm(src) if src is not None else 'resolve')
        # R5: loop
        loops = [n for n in ast.walk(fn) if isinstance(n, ast.For) and norm(n.iter) == sorted_var]
        ok = len(loops) == 1
        if ok:
            loop = loops[0]
            merges = [c for c in calls(loop) if isinstance(c.func, ast.Attribute) and c.func.attr == 'merge']
            first = loop.body[0]
            first_call = first.value if isinstance(first, (ast.Expr, ast.Assign)) else None
            ok = len(merges) == 1 and first_call is merges[0] and norm(merges[0].args[0]) == norm(loop.target) \
                and not any(isinstance(n, (ast.Break, ast.Continue, ast.Return)) for n in walk_local(loop)) \
                and not loop.orelse
            fin_var = norm(merges[0].func.value) if merges else None
            if ok:
                # finalize after the loop, final from set_correct_no_errors(report)
                body = loop._parent.body
                after = body[body.index(loop) + 1:]
                fin = [c for st in after for c in calls(st) if isinstance(c.func, ast.Attribute)
                       and c.func.attr == 'finalize' and norm(c.func.value) == fin_var]
                init = [n for n in body[:body.index(loop)] if isinstance(n, ast.Assign)
                        and norm(n.targets[0]) == fin_var and isinstance(n.value, ast.Call)
                        and call_name(n.value) == 'set_correct_no_errors' and norm(n.value.args[0]) == 'report']
                ok = len(fin) == 1 and len(init) == 1
        ctx.check(ok, R5, tag + ':merge-all-then-finalize', mod, loops[0] if loops else fn,
                  "the resolver does not merge every sorted feedback in order and then finalize once",
                  "an eligible higher-ranked feedback is skipped, or the default 'no errors' result is not installed",
                  construct='for feedback in %s: final.merge(feedback)' % sorted_var)
        res = [n for n in body_walk(fn) if isinstance(n, ast.Return)]
        ctx.check(len(res) == 1 and isinstance(res[0].value, ast.Name), R5, tag + ':returns-final', mod, fn,
                  "resolve does not return the final feedback", "caller gets nothing")
    if not writers:
        return
    # who writes report.feedback
    rmod = ctx.repo.module(REPORT)
    MUT = ('append', 'extend', 'insert', 'pop', 'remove', 'clear', 'sort', 'reverse')
    allowed = {('feedback', 'append', 'Report.add_feedback'), ('feedback', 'clear', 'Report.clear'),
               ('feedback', 'assign', 'Report.__init__'), ('ignored_feedback', 'append', 'Report.add_ignored_feedback'),
               ('ignored_feedback', 'clear', 'Report.clear'), ('ignored_feedback', 'assign', 'Report.__init__')}
    n = 0
    for m in ctx.repo.modules.values():
        for node in ast.walk(m.tree):
            hit = None
            if isinstance(node, ast.Call) and isinstance(node.func, ast.Attribute) and node.func.attr in MUT and \
                    isinstance(node.func.value, ast.Attribute) and node.func.value.attr in ('feedback', 'ignored_feedback'):
                base = norm(node.func.value.value)
                if 'report' in base.lower() or (m is rmod and base == 'self'):
                    hit = (node.func.value.attr, node.func.attr)
            elif isinstance(node, (ast.Assign, ast.AugAssign)):
                tg = node.targets if isinstance(node, ast.Assign) else [node.target]
                for t in tg:
                    if isinstance(t, ast.Attribute) and t.attr in ('feedback', 'ignored_feedback'):
                        base = norm(t.value)
                        if 'report' in base.lower() or (m is rmod and base == 'self'):
                            hit = (t.attr, 'assign')
            if hit:
                n += 1
                f = enclosing_function(node)
                q = getattr(f, '_qualname', '<module>')
                ctx.check(m is rmod and (hit[0], hit[1], q) in allowed, R3,
                          'writer:%s.%s@%s' % (hit[0], hit[1], q), m, node,
                          "report.%s is mutated (%s) outside Report.add_feedback/add_ignored_feedback/clear" % hit,
                          "creation order of feedback is no longer the list order (tie-break changes)")
    ctx.floor(R3, 'writers of report.feedback', n, 6)


def domain_eligibility(model):
    """Configurations for the eligibility / selection table."""
    sups = [
        ('none', {}, {}),
        ('category', {'runtime': {True: [{}]}}, {}),
        ('category+label', {'runtime': {'x': [{}]}}, {}),
        ('category+otherlabel', {'runtime': {'zzz': [{}]}}, {}),
        ('category+label+fields-match', {'runtime': {'x': [{'k': 1}]}}, {}),
        ('category+label+fields-mismatch', {'runtime': {'x': [{'k': 2}]}}, {}),
        ('label', {}, {'X': [{}]}),
        ('otherlabel', {}, {'zzz': [{}]}),
        ('label+fields-match', {}, {'X': [{'k': 1}]}),
        ('label+fields-mismatch', {}, {'X': [{'k': 2}, {'j': 0}]}),
        ('hide-correct', {'correct': {True: [{}]}}, {}),
    ]
    for (sname, s, sl), trig, muted, kind, else_m, correct in itertools.product(
            sups, (True, False), (None, True, False), ('Mistake', model.KIND_COMPLIMENT, model.KIND_INSTRUCTIONAL),
            (None, 'else'), (None, True)):
        cfg = dict(category='runtime', label='X', fields={'k': 1}, triggered=trig, muted=muted, kind=kind,
                   else_message=else_m, correct=correct)
        yield sname, s, sl, cfg


def r4_r6_merge_table(ctx, sym, model):
    ctx.rule('R4', "decision table of FinalFeedback.merge/finalize by abstract interpretation over suppression kind "
                   "(11) x triggered x muted x kind x else_message x correct, plus ordered pairs: the delivered label "
                   "is that of the first feedback that is triggered, unmuted, unsuppressed and not a compliment, else "
                   "the default 'no errors' label (oracle transcribed from the property)")
    ctx.rule('R6', "resolving never raises: no cell of the merge/finalize/by_priority tables evaluates to an exception "
                   "(attribute/subscript protocol of Feedback objects included)")
    mod = model.fmod
    merge = model.merge_fn
    n = 0
    raised = {}
    mism = []
    for sname, s, sl, cfg in domain_eligibility(model):
        n += 1
        got = model.resolve([cfg], s, sl)
        want = model.oracle([cfg], s, sl)
        if isinstance(got, tuple):
            raised.setdefault((got[1], got[2]), []).append((sname, cfg))
            continue
        if got['label'] != want['label']:
            mism.append((sname, cfg, got['label'], want['label']))
        elif got['message'] is None or got['title'] is None:
            mism.append((sname, cfg, 'message=%r title=%r' % (got['message'], got['title']),
                         'a delivered title and message'))
    # pairs: first eligible wins
    base = [dict(category='runtime', label='A', triggered=True),
            dict(category='runtime', label='B', triggered=True, muted=True),
            dict(category='runtime', label='C', triggered=False),
            dict(category='runtime', label='D', triggered=True, kind=model.KIND_COMPLIMENT),
            dict(category='syntax', label='E', triggered=True),
            dict(category='runtime', label='X', triggered=True, fields={'k': 1})]
    sl = {'X': [{'k': 1}]}
    for a, b in itertools.product(base, repeat=2):
        n += 1
        got = model.resolve([a, b], {}, sl)
        want = model.oracle([a, b], {}, sl)
        if isinstance(got, tuple):
            raised.setdefault((got[1], got[2]), []).append(('pair', a))
            continue
        if got['label'] != want['label']:
            mism.append(('pair', (a['label'], b['label']), got['label'], want['label']))
    for a, b, c in itertools.product(base[:5], repeat=3):
        n += 1
        got = model.resolve([a, b, c])
        want = model.oracle([a, b, c])
        if not isinstance(got, tuple) and got['label'] != want['label']:
            mism.append(('triple', (a['label'], b['label'], c['label']), got['label'], want['label']))
    if ctx.tier == 'thorough':
        sups = [({}, {}), ({'runtime': {True: [{}]}}, {}), ({'syntax': {'e': [{}]}}, {}), ({}, {'A': [{}]}),
                ({}, {'X': [{'k': 1}], 'D': [{}]})]
        for seq in itertools.product(base, repeat=3):
            for s_, sl_ in sups:
                n += 1
                got, want = model.resolve(list(seq), s_, sl_), model.oracle(list(seq), s_, sl_)
                if isinstance(got, tuple):
                    raised.setdefault((got[1], got[2]), []).append(('triple', seq[0]))
                elif got['label'] != want['label']:
                    mism.append(('triple+suppression', tuple(c['label'] for c in seq), got['label'], want['label']))
        for seq in itertools.product(base[:5], repeat=4):
            n += 1
            got, want = model.resolve(list(seq)), model.oracle(list(seq))
            if not isinstance(got, tuple) and got['label'] != want['label']:
                mism.append(('quad', tuple(c['label'] for c in seq), got['label'], want['label']))
    # category None / empty cases (never raises)
    for cfg in (dict(category=None, label='N', triggered=True), dict(category=None, label='N', triggered=False),
                dict(category='Runtime', label='N', triggered=True)):
        n += 1
        got = model.resolve([cfg])
        if isinstance(got, tuple):
            raised.setdefault((got[1], got[2]), []).append(('no-category', cfg))
        else:
            want = model.oracle([cfg])
            if got['label'] != want['label']:
                mism.append(('no-category', cfg, got['label'], want['label']))
    got = model.resolve([])
    ctx.check(not isinstance(got, tuple) and got['label'] == model.default_label and got['correct'] is True
              and got['message'] and got['title'], 'R4', 'empty-report', mod, model.finalize_fn,
              "an empty report does not resolve to the default complete/no-errors result: %r" % (got,),
              "a submission with no feedback at all", construct='finalize')
    ctx.floor('R4', 'merge table cells', n, 800)
    if mism:
        groups = {}
        for m in mism:
            groups.setdefault(m[0], []).append(m)
        for sname, ms in sorted(groups.items()):
            ex = ms[0]
            ctx.fail('R4', 'merge:selection[%s]' % sname, mod, merge,
                     "%d cell(s) deliver the wrong feedback; e.g. %r delivers label %r, the property requires %r" % (
                         len(ms), ex[1], ex[2], ex[3]),
                     "report with the feedback configuration %r under suppression scenario %r" % (ex[1], sname),
                     function='FinalFeedback.merge', construct='filters of merge')
    else:
        ctx.ok('R4', 'merge:selection', sample={'cells': n, 'mismatches': 0})
    # R6
    if raised:
        for (kind, detail), cases in sorted(raised.items()):
            sname, cfg = cases[0]
            node = _find_raising_node(model, cfg, sname)
            ctx.fail('R6', 'merge:raises:%s:%s' % (kind, norm(node) if node is not None else detail), mod,
                     node if node is not None else merge,
                     "resolving raises %s (%s) in %d cell(s) of the table, e.g. suppression scenario %r with %r" % (
                         kind, detail, len(cases), sname, {k: v for k, v in cfg.items() if k in (
                             'category', 'label', 'triggered', 'fields')}),
                     "suppress(label='X', fields={...}) followed by any feedback labelled 'X'" if 'subscript' in detail
                     else "feedback(message='...') created without a category, then resolve()",
                     function='FinalFeedback.merge')
    else:
        ctx.ok('R6', 'merge:never-raises', sample={'cells': n})
    ctx.info("merge/finalize table: %d cells, %d mismatches, %d raising" % (
        n, len(mism), sum(len(v) for v in raised.values())))


def _find_raising_node(model, cfg, sname):
    """Re-run the cell and return the AST node at which the abstract evaluation raised."""
    sups = {s[0]: s for s in (
        ('category+label+fields-match', {'runtime': {'x': [{'k': 1}]}}, {}),)}
    # brute force: try the standard scenarios until one raises again
    for name, s, sl, c in domain_eligibility(model):
        if name == sname and c['triggered'] == cfg.get('triggered') and c.get('muted') == cfg.get('muted'):
            fd, final = model.new_final(s, sl)
            try:
                fd.call_function(model.merge_fn, [model.make_feedback(cfg)], bound_self=final)
            except Raised as r:
                return getattr(r, 'node', None)
    fd, final = model.new_final({}, {'X': [{'k': 1}]})
    try:
        fd.call_function(model.merge_fn, [model.make_feedback(cfg)], bound_self=final)
    except Raised as r:
        return getattr(r, 'node', None)
    return None


def r6_protocol(ctx, sym, model):
    """Protocol conformance of the `feedback` parameter on the resolver path (class-table check)."""
    fb = sym.find_class(FEEDBACK, 'Feedback')
    defined = set()
    for c in sym.mro(fb):
        defined |= set(c.attrs) | set(c.methods) | set(c.self_attrs)
    for mod, fn in ((model.fmod, model.merge_fn), (model.fmod, model.parse_feedback_fn),
                    (ctx.repo.module(SIMPLE), ctx.repo.module(SIMPLE).func('by_priority'))):
        p = [a.arg for a in fn.args.args if a.arg != 'self'][0]
        for n in body_walk(fn):
            if isinstance(n, ast.Attribute) and isinstance(n.value, ast.Name) and n.value.id == p \
                    and isinstance(n.ctx, ast.Load):
                ctx.check(n.attr in defined, 'R6', '%s:%s.%s' % (fn.name, p, n.attr), mod, n,
                          "Feedback defines no attribute %r" % n.attr,
                          "any feedback reaching this statement raises AttributeError")


def run(ctx):
    sym = Symbols(ctx.repo)
    table = r1_rank_table(ctx, sym)
    r2_rank_function(ctx, sym, table)
    r3_r5_resolvers(ctx, sym)
    model = Model(ctx, sym)
    r4_r6_merge_table(ctx, sym, model)
    r6_protocol(ctx, sym, model)
    ctx.assume("Feedback subclasses written by instructors keep the attribute contract of Feedback")
    ctx.assume("list.sort / sorted are stable (CPython guarantee)")
